package otter

// C13 (racing write): a writer samples the clock at the start of its call, stalls inside the clock, and completes
// only after another goroutine advanced the clock and ran maintenance at the later time.  When maintenance runs
// again more than one tick later the entry - whose deadline lies before both sweeps - must be gone and reported.
// Records are judged by spec/SweepHist.tla.

import (
	"bufio"
	"bytes"
	"context"
	"encoding/json"
	"math"
	"os"
	"sync"
	"sync/atomic"
	"testing"
	"time"

	"github.com/maypok86/otter/v2/internal/verifkit"
	"github.com/maypok86/otter/v2/stats"
)

type stallClock struct {
	now     atomic.Int64
	never   chan time.Time
	armed   atomic.Bool
	gid     atomic.Uint64 // only this goroutine (the racing writer) is stalled
	stalled chan struct{}
	resume  chan struct{}
	late    atomic.Bool // the stalled call returns the time at which it resumes (a clock that is read after the stall)
}

func (c *stallClock) NowNano() int64 {
	v := c.now.Load()
	if c.armed.Load() && verifkit.GoID() == c.gid.Load() && c.armed.CompareAndSwap(true, false) {
		c.stalled <- struct{}{}
		<-c.resume
		if c.late.Load() {
			v = c.now.Load()
		}
	}
	return v
}
func (c *stallClock) Tick(d time.Duration) <-chan time.Time { return c.never }

type sweepScenario struct {
	TTL      int64  `json:"ttl"`   // ns
	Jump     int64  `json:"jump"`  // ns the clock moves while the writer is stalled
	Later    int64  `json:"later"` // ns between the two maintenance runs (> one tick)
	Op       string `json:"op"`    // set | compute | setifabsent | get
	Sized    int    `json:"sized"`
	SyncExec int    `json:"syncexec"`
	Warm     int    `json:"warm"` // entries written (and swept) before the race
	Max      int    `json:"max"`  // readrace: MaximumSize of a sized cache (filled after the race)
}

// parkCalc: ExpiryAccessing(ttl) whose read hook parks the armed goroutine - "reads only ever extend deadlines"
type parkCalc struct {
	onCreate func(e Entry[int, int]) // called inside the key's table computation of an inserting write
	ttl    time.Duration
	armed  atomic.Bool
	gid    atomic.Uint64
	parked chan struct{}
	resume chan struct{}
}

func (p *parkCalc) ExpireAfterCreate(e Entry[int, int]) time.Duration {
	if p.onCreate != nil {
		p.onCreate(e)
	}
	return p.ttl
}
func (p *parkCalc) ExpireAfterUpdate(Entry[int, int], int) time.Duration { return p.ttl }
func (p *parkCalc) ExpireAfterRead(Entry[int, int]) time.Duration {
	if p.armed.Load() && verifkit.GoID() == p.gid.Load() && p.armed.CompareAndSwap(true, false) {
		p.parked <- struct{}{}
		<-p.resume
	}
	return p.ttl
}

// runReadRace (C13, C04): a read samples the clock shortly before the entry's deadline and is parked before it stores the
// extended deadline; the deadline passes, maintenance runs (and, when the read holds the bucket lock, waits for it), the read
// completes.  Whatever the outcome of that race, once every deadline has passed by more than a tick the entry must be gone
// and reported, and a sized cache filled right after the race must stay within its maximum.
func runReadRace(sc sweepScenario) sweepResult {
	res := sweepResult{T: "sweep", Sc: sc, TickNs: 1 << 30}
	clk := &stallClock{never: make(chan time.Time), stalled: make(chan struct{}), resume: make(chan struct{})}
	clk.now.Store(int64(5) << 30)
	calc := &parkCalc{ttl: time.Duration(sc.TTL), parked: make(chan struct{}), resume: make(chan struct{})}
	var mu sync.Mutex
	o := &Options[int, int]{
		Clock:            clk,
		ExpiryCalculator: calc,
		OnDeletion: func(e DeletionEvent[int, int]) {
			if e.Key != 1 {
				return
			}
			mu.Lock()
			switch e.Cause {
			case CauseExpiration:
				res.Expired++
			case CauseOverflow: // sized: the cache is filled after the race, the racing entry may be evicted for size if it was kept alive
				res.Overflow++
				res.Other++
			default:
				res.Other++
			}
			mu.Unlock()
		},
	}
	if sc.Sized == 1 {
		o.MaximumSize = sc.Max
	}
	if sc.SyncExec == 1 {
		o.Executor = func(fn func()) { fn() }
	}
	c := Must(o)
	defer c.StopAllGoroutines()
	c.Set(1, 11)
	c.CleanUp()
	clk.now.Add(sc.TTL - 1000) // shortly before the deadline
	done := make(chan struct{})
	go func() {
		defer close(done)
		calc.gid.Store(verifkit.GoID())
		calc.armed.Store(true)
		switch sc.Op {
		case "read.setifabsent":
			c.SetIfAbsent(1, 99) // the read hook runs inside the key's table computation
		case "read.getentry":
			c.GetEntry(1)
		default:
			c.GetIfPresent(1)
		}
	}()
	select {
	case <-calc.parked:
	case <-time.After(3 * time.Second):
		res.Hang = 1
		return res
	}
	clk.now.Add(1000 + sc.Jump) // the deadline passes
	swept := make(chan struct{})
	go func() {
		defer close(swept)
		c.CleanUp()
	}()
	select {
	case <-swept:
	case <-time.After(150 * time.Millisecond): // maintenance waits for the bucket lock the read holds
	}
	calc.resume <- struct{}{}
	for _, ch := range []chan struct{}{done, swept} {
		select {
		case <-ch:
		case <-time.After(3 * time.Second):
			res.Hang = 1
			return res
		}
	}
	time.Sleep(2 * time.Millisecond)
	c.CleanUp()
	res.EstMid = c.EstimatedSize()
	if sc.Sized == 1 {
		for i := 0; i < sc.Max+2; i++ {
			c.Set(1000+i, i)
		}
		c.CleanUp()
		time.Sleep(2 * time.Millisecond)
		c.CleanUp()
		for k := range c.All() {
			_ = k
			res.Live++
		}
	}
	clk.now.Add(sc.Later)
	c.CleanUp()
	time.Sleep(2 * time.Millisecond)
	c.CleanUp()
	res.Est = c.EstimatedSize()
	if _, ok := c.GetIfPresent(1); ok {
		res.Visible = 1
	}
	time.Sleep(2 * time.Millisecond)
	return res
}

// runGateRace (C06; ExpireRace.tla): the other order of the read race.  The reader samples the clock shortly before the
// deadline and is parked inside the expiry calculator; the deadline passes; maintenance starts, the timer wheel hands the
// node to the eviction callback and the sweeper is parked at the gate "ev.beforeDelete" (ExpireRace.tla: s_ev), i.e. after
// the wheel's test of the deadline and before the removal inside the key's table computation; the reader completes (its
// store extends the deadline beyond the sweep's clock value); the sweeper continues.  Whatever the cache decides to do with
// the entry, the cause it reports must match what happened: a cache that is not above its maximum (or has none) never
// reports Overflow.  Later, once the extended deadline has passed by more than a tick, the entry must be gone and reported
// exactly once.
func runGateRace(sc sweepScenario) sweepResult {
	res := sweepResult{T: "sweep", Sc: sc, TickNs: 1 << 30, NoPressure: 1}
	clk := &stallClock{never: make(chan time.Time), stalled: make(chan struct{}), resume: make(chan struct{})}
	clk.now.Store(int64(5) << 30)
	calc := &parkCalc{ttl: time.Duration(sc.TTL), parked: make(chan struct{}), resume: make(chan struct{})}
	var mu sync.Mutex
	o := &Options[int, int]{
		Clock:            clk,
		ExpiryCalculator: calc,
		OnDeletion: func(e DeletionEvent[int, int]) {
			if e.Key != 1 {
				return
			}
			mu.Lock()
			switch e.Cause {
			case CauseExpiration:
				res.Expired++
			case CauseOverflow:
				res.Overflow++
				res.Other++
			default:
				res.Other++
			}
			mu.Unlock()
		},
	}
	if sc.Sized == 1 {
		o.MaximumSize = sc.Max + 4 // one entry: never under size pressure
	}
	if sc.SyncExec == 1 {
		o.Executor = func(fn func()) { fn() }
	}
	c := Must(o)
	defer c.StopAllGoroutines()
	c.Set(1, 11) // the only entry: the first node handed to the eviction callback is the racing one
	c.CleanUp()
	clk.now.Add(sc.TTL - 1000) // shortly before the deadline
	rdone := make(chan struct{})
	go func() {
		defer close(rdone)
		calc.gid.Store(verifkit.GoID())
		calc.armed.Store(true)
		switch sc.Op {
		case "gate.getentry":
			c.GetEntry(1)
		default:
			c.GetIfPresent(1)
		}
	}()
	select {
	case <-calc.parked:
	case <-time.After(3 * time.Second):
		res.Hang = 1
		return res
	}
	clk.now.Add(1000 + sc.Jump) // the deadline passes
	raceNow := clk.now.Load()
	gate := make(chan struct{})
	atGate := make(chan struct{})
	var sweeper atomic.Uint64
	var once sync.Once
	verifhookInstall(func(id string, v uint64) {
		if id == "ev.beforeDelete" && verifkit.GoID() == sweeper.Load() {
			once.Do(func() {
				close(atGate)
				<-gate
			})
		}
	})
	defer verifhookInstall(nil)
	swept := make(chan struct{})
	go func() {
		defer close(swept)
		sweeper.Store(verifkit.GoID())
		c.CleanUp()
	}()
	select {
	case <-atGate:
		res.Gated = 1
	case <-swept: // nothing was handed to the eviction callback
	case <-time.After(3 * time.Second):
		res.Hang = 1
		close(gate)
		return res
	}
	calc.resume <- struct{}{}
	select {
	case <-rdone:
	case <-time.After(3 * time.Second):
		res.Hang = 1
		close(gate)
		return res
	}
	close(gate)
	select {
	case <-swept:
	case <-time.After(3 * time.Second):
		res.Hang = 1
		return res
	}
	verifhookInstall(nil)
	time.Sleep(2 * time.Millisecond)
	c.CleanUp()
	res.EstMid = c.EstimatedSize()
	if e, ok := c.GetEntryQuietly(1); ok {
		res.MidPresent = 1
		if e.ExpiresAtNano > raceNow {
			res.MidAlive = 1
		}
	}
	clk.now.Add(sc.Later)
	c.CleanUp()
	time.Sleep(2 * time.Millisecond)
	c.CleanUp()
	res.Est = c.EstimatedSize()
	if _, ok := c.GetIfPresent(1); ok {
		res.Visible = 1
	}
	time.Sleep(2 * time.Millisecond)
	mu.Lock()
	defer mu.Unlock()
	return res
}

// runSetIfAbsentRace (C05): SetIfAbsent finds the entry expired and replaces it; while it is inside the key's table computation
// (the expiry calculator's create hook runs there) a reader that had sampled the clock before the deadline stores the extended
// deadline into the node that is being replaced.  Whatever SetIfAbsent returns, the value it stored must be known to the
// policies afterwards: the orderings enumerate exactly the entries iteration yields, and once every deadline has passed by
// more than a tick nothing is left.
func runSetIfAbsentRace(sc sweepScenario) sweepResult {
	res := sweepResult{T: "sweep", Sc: sc, TickNs: 1 << 30, NoPressure: 1}
	clk := &stallClock{never: make(chan time.Time), stalled: make(chan struct{}), resume: make(chan struct{})}
	clk.now.Store(int64(5) << 30)
	calc := &parkCalc{ttl: time.Duration(sc.TTL), parked: make(chan struct{}), resume: make(chan struct{})}
	var mu sync.Mutex
	ctrSia := stats.NewCounter()
	o := &Options[int, int]{
		Clock:            clk,
		ExpiryCalculator: calc,
		MaximumSize:      sc.Max + 4,
		StatsRecorder:    ctrSia,
		OnAtomicDeletion: func(e DeletionEvent[int, int]) {
			if e.Key == 1 && e.Value == 11 {
				mu.Lock()
				res.AtomicCause = e.Cause.String()
				mu.Unlock()
			}
		},
		OnDeletion: func(e DeletionEvent[int, int]) {
			if e.Key != 1 {
				return
			}
			mu.Lock()
			if e.Value == 11 {
				res.AsyncCause = e.Cause.String()
			}
			if e.Cause == CauseExpiration {
				res.Expired++
			} else {
				res.Other++
			}
			mu.Unlock()
		},
	}
	if sc.SyncExec == 1 {
		o.Executor = func(fn func()) { fn() }
	}
	c := Must(o)
	defer c.StopAllGoroutines()
	c.Set(1, 11)
	c.CleanUp()
	clk.now.Add(sc.TTL - 1000) // shortly before the deadline
	rdone := make(chan struct{})
	go func() {
		defer close(rdone)
		calc.gid.Store(verifkit.GoID())
		calc.armed.Store(true)
		c.GetIfPresent(1)
	}()
	select {
	case <-calc.parked:
	case <-time.After(3 * time.Second):
		res.Hang = 1
		return res
	}
	clk.now.Add(1000 + sc.Jump) // the deadline passes
	var once sync.Once
	var wgid atomic.Uint64
	gateOps := sc.Op == "sia.setgate" || sc.Op == "sia.invgate" || sc.Op == "sia.cmpgate"
	if gateOps {
		// the writer is parked right after its table computation (hooks set.afterCompute / inv.afterCompute / cmp.afterCompute), the
		// reader stores the extended deadline into the replaced node, the writer goes on to publish its event
		verifhookInstall(func(id string, v uint64) {
			if (id == "set.afterCompute" || id == "inv.afterCompute" || id == "cmp.afterCompute") && verifkit.GoID() == wgid.Load() {
				once.Do(func() {
					calc.resume <- struct{}{}
					select {
					case <-rdone:
					case <-time.After(3 * time.Second):
						res.Hang = 1
					}
				})
			}
		})
		defer verifhookInstall(nil)
	}
	if !gateOps {
	calc.onCreate = func(e Entry[int, int]) {
		if e.Value != 99 {
			return
		}
		once.Do(func() { // inside the computation of the writer, after it has found the old entry expired
			calc.resume <- struct{}{}
			select {
			case <-rdone:
			case <-time.After(3 * time.Second):
				res.Hang = 1
			}
		})
	}
	}
	wdone := make(chan struct{})
	go func() {
		defer close(wdone)
		wgid.Store(verifkit.GoID())
		var ok bool
		switch sc.Op {
		case "sia.invgate":
			c.Invalidate(1)
		case "sia.cmpgate":
			c.Compute(1, func(old int, found bool) (int, ComputeOp) { return 99, WriteOp })
			ok = true
		case "sia.set", "sia.setgate":
			_, ok = c.Set(1, 99)
		default:
			_, ok = c.SetIfAbsent(1, 99)
		}
		if ok {
			res.Inserted = 1
		}
	}()
	select {
	case <-wdone:
	case <-time.After(5 * time.Second):
		res.Hang = 1
		return res
	}
	select {
	case <-rdone:
	default: // the writer never reached the create hook: let the reader go
		select {
		case calc.resume <- struct{}{}:
		case <-time.After(time.Second):
		}
		<-rdone
	}
	snap := ctrSia.Snapshot()
	res.Hits, res.Misses = int(snap.Hits), int(snap.Misses)
	time.Sleep(2 * time.Millisecond)
	c.CleanUp()
	time.Sleep(2 * time.Millisecond)
	c.CleanUp()
	res.EstMid = c.EstimatedSize()
	for range c.All() {
		res.Live++
	}
	for range c.Coldest() {
		res.Cold++
	}
	clk.now.Add(sc.Later)
	c.CleanUp()
	time.Sleep(2 * time.Millisecond)
	c.CleanUp()
	res.Est = c.EstimatedSize()
	if _, ok := c.GetIfPresent(1); ok {
		res.Visible = 1
	}
	time.Sleep(2 * time.Millisecond)
	mu.Lock()
	defer mu.Unlock()
	return res
}

// runMassExpiry (C13): many entries come due in the same sweep (more than any per-pass bound of the maintenance: the write
// buffer drains 2049 events per pass); one quiescent CleanUp more than a tick after the deadline must remove and report all.
func runMassExpiry(sc sweepScenario) sweepResult {
	res := sweepResult{T: "sweep", Sc: sc, TickNs: 1 << 30, MassN: sc.Warm}
	clk := &stallClock{never: make(chan time.Time), stalled: make(chan struct{}), resume: make(chan struct{})}
	clk.now.Store(int64(5) << 30)
	var mu sync.Mutex
	seen := map[int]int{}
	o := &Options[int, int]{
		Clock:            clk,
		ExpiryCalculator: ExpiryWriting[int, int](time.Duration(sc.TTL)),
	}
	if sc.Op != "mass.nohandler" {
		o.OnDeletion = func(e DeletionEvent[int, int]) {
			mu.Lock()
			if e.Cause == CauseExpiration {
				seen[e.Key]++
			} else {
				res.Other++
			}
			mu.Unlock()
		}
	}
	if sc.Sized == 1 {
		o.MaximumSize = 8*int(maxWriteBufferSize) + 2*sc.Warm + 10
	}
	if sc.SyncExec == 1 {
		o.Executor = func(fn func()) { fn() }
	}
	var qmu sync.Mutex
	var queue []func()
	stalled := sc.Op == "mass.stall"
	if stalled {
		// the executor does not get round to anything while the writes arrive: the write buffer fills up and the writers that find it
		// full run the maintenance themselves, handing it their own event
		o.Executor = func(fn func()) {
			qmu.Lock()
			queue = append(queue, fn)
			qmu.Unlock()
		}
		res.MassN = 3*int(maxWriteBufferSize) + 7
	}
	c := Must(o)
	defer c.StopAllGoroutines()
	for i := 0; i < res.MassN; i++ {
		c.Set(i, i)
	}
	runQueue := func() {
		for {
			qmu.Lock()
			if len(queue) == 0 {
				qmu.Unlock()
				break
			}
			fn := queue[0]
			queue = queue[1:]
			qmu.Unlock()
			fn()
		}
	}
	runQueue()
	c.CleanUp()
	time.Sleep(2 * time.Millisecond)
	c.CleanUp()
	clk.now.Add(sc.Jump)
	c.CleanUp() // the one quiescent run the property speaks of
	res.Est = c.EstimatedSize()
	runQueue() // (notifications handed to the stalled executor)
	for i := 0; i < 200 && sc.SyncExec == 0; i++ { // default executor: notifications are delivered by goroutines
		mu.Lock()
		n := len(seen)
		mu.Unlock()
		if n >= res.MassN {
			break
		}
		time.Sleep(5 * time.Millisecond)
	}
	mu.Lock()
	defer mu.Unlock()
	for _, n := range seen {
		if n == 1 {
			res.MassExpired++
		}
	}
	if sc.Op == "mass.nohandler" {
		res.MassExpired = res.MassN
	}
	return res
}

// runStaleEvictLoad (C08): the policies evict a node that is no longer the key's current node (replaced or invalidated, its event
// still buffered when the maintenance replays it: the node is heavier than the maximum) while a load of the key is in flight.
// Nothing is removed from the table by that eviction, so the load is not disturbed: a second Get joins it.
func runStaleEvictLoad(sc sweepScenario) sweepResult {
	res := sweepResult{T: "sweep", Sc: sc, TickNs: 1 << 30}
	var pmu sync.Mutex
	var pending []func()
	runAll := func() {
		for {
			pmu.Lock()
			if len(pending) == 0 {
				pmu.Unlock()
				return
			}
			fn := pending[0]
			pending = pending[1:]
			pmu.Unlock()
			fn()
		}
	}
	c := Must(&Options[int, int]{
		MaximumWeight: 10,
		Weigher:       func(k, v int) uint32 { return uint32(v) },
		Executor: func(fn func()) { // maintenance runs when the scenario says so
			pmu.Lock()
			pending = append(pending, fn)
			pmu.Unlock()
		},
	})
	defer c.StopAllGoroutines()
	c.Set(1, 1)
	c.Set(2, 1)
	runAll()
	c.CleanUp()
	c.Set(1, 100) // heavier than the maximum: the policies will evict this node as soon as they hear of it
	switch sc.Op {
	case "ld.staleevict.set":
		c.Set(1, 2) // replaced before the policies heard of it
		c.Invalidate(1)
	default:
		c.Invalidate(1)
	}
	var runs atomic.Int64
	entered1, release1 := make(chan struct{}), make(chan struct{})
	entered2 := make(chan struct{})
	done1, done2 := make(chan struct{}), make(chan struct{})
	go func() {
		defer close(done1)
		_, _ = c.Get(context.Background(), 1, LoaderFunc[int, int](func(ctx context.Context, key int) (int, error) {
			runs.Add(1)
			close(entered1)
			<-release1
			return 7, nil
		}))
	}()
	select {
	case <-entered1:
	case <-time.After(3 * time.Second):
		res.Hang = 1
		return res
	}
	c.CleanUp() // replays the buffered events: the stale heavy node is evicted
	runAll()
	go func() {
		defer close(done2)
		_, _ = c.Get(context.Background(), 1, LoaderFunc[int, int](func(ctx context.Context, key int) (int, error) {
			runs.Add(1)
			close(entered2)
			return 8, nil
		}))
	}()
	select {
	case <-entered2: // the cache called the second loader while the first is still running
		res.Overlap = 1
	case <-time.After(250 * time.Millisecond):
	}
	close(release1)
	for _, ch := range []chan struct{}{done1, done2} {
		select {
		case <-ch:
		case <-time.After(3 * time.Second):
			res.Hang = 1
			return res
		}
	}
	runAll()
	res.LdRuns = int(runs.Load())
	return res
}

// runLateSweep (C13, "however the entry's write raced with earlier maintenance"): a maintenance run is parked inside the clock
// (expireNodes is about to read it); a write samples the clock, stores its entry and returns; the clock jumps; the parked run
// reads the later time and sweeps without knowing the entry; the entry's event is replayed afterwards, in the same tick as that
// sweep.  A quiescent CleanUp half a tick later - more than a tick after both the deadline and the return of the write - must
// find the entry gone and reported.
func runLateSweep(sc sweepScenario) sweepResult {
	res := sweepResult{T: "sweep", Sc: sc, TickNs: 1 << 30}
	clk := &stallClock{never: make(chan time.Time), stalled: make(chan struct{}), resume: make(chan struct{})}
	clk.now.Store(int64(5) << 30)
	clk.late.Store(true)
	var mu sync.Mutex
	o := &Options[int, int]{
		Clock:            clk,
		ExpiryCalculator: ExpiryWriting[int, int](time.Duration(sc.TTL)),
		OnDeletion: func(e DeletionEvent[int, int]) {
			if e.Key != 1 {
				return
			}
			mu.Lock()
			if e.Cause == CauseExpiration {
				res.Expired++
			} else {
				res.Other++
			}
			mu.Unlock()
		},
	}
	if sc.Sized == 1 {
		o.MaximumSize = 100
	}
	if sc.SyncExec == 1 {
		o.Executor = func(fn func()) { fn() }
	}
	c := Must(o)
	defer c.StopAllGoroutines()
	c.CleanUp()
	m1 := make(chan struct{})
	go func() {
		defer close(m1)
		clk.gid.Store(verifkit.GoID())
		clk.armed.Store(true)
		c.CleanUp() // parks inside the clock read of expireNodes
	}()
	select {
	case <-clk.stalled:
	case <-time.After(3 * time.Second):
		res.Hang = 1
		return res
	}
	c.Set(1, 11) // samples the clock, stores, returns; its event waits in the write buffer
	clk.now.Add(sc.Jump)
	clk.resume <- struct{}{}
	select {
	case <-m1:
	case <-time.After(3 * time.Second):
		res.Hang = 1
		return res
	}
	for i := 0; i < 300 && c.cache.drainStatus.Load() != idle; i++ { // default executor: the follow-up run the first one asked for
		time.Sleep(time.Millisecond)
	}
	time.Sleep(3 * time.Millisecond)
	res.EstMid = c.EstimatedSize()
	clk.now.Add(sc.Later) // less than a tick: still the tick of the sweep above
	c.CleanUp()           // the quiescent run the property speaks of
	time.Sleep(2 * time.Millisecond)
	res.Est = c.EstimatedSize()
	time.Sleep(2 * time.Millisecond)
	mu.Lock()
	defer mu.Unlock()
	return res
}

// runSizeEvictRace (C05, C04): the SIZE policy evicts an entry whose deadline is reached exactly now (expired for readers, not yet
// due for the timer wheel) while a reader that sampled the clock earlier stores an extended deadline - between the eviction
// callback and the removal in the table (the sweeper is parked at the first hook of the table computation, "cp.ldTable").
// Whatever the cache decides, afterwards the orderings enumerate exactly the entries iteration yields and the bound holds.
func runSizeEvictRace(sc sweepScenario) sweepResult {
	res := sweepResult{T: "sweep", Sc: sc, TickNs: 1 << 30, NoPressure: 0}
	clk := &stallClock{never: make(chan time.Time), stalled: make(chan struct{}), resume: make(chan struct{})}
	clk.now.Store(int64(5) << 30)
	calc := &parkCalc{ttl: time.Duration(sc.TTL), parked: make(chan struct{}), resume: make(chan struct{})}
	var mu sync.Mutex
	o := &Options[int, int]{
		Clock:            clk,
		ExpiryCalculator: calc,
		MaximumSize:      10,
		Executor:         func(fn func()) { fn() },
		OnDeletion: func(e DeletionEvent[int, int]) {
			if e.Key != 1 {
				return
			}
			mu.Lock()
			switch e.Cause {
			case CauseExpiration:
				res.Expired++
			case CauseOverflow:
				res.Overflow++
				res.Other++
			default:
				res.Other++
			}
			mu.Unlock()
		},
	}
	c := Must(o)
	defer c.StopAllGoroutines()
	c.Set(1, 11)
	c.CleanUp()
	clk.now.Add(sc.TTL - 1000) // shortly before the deadline
	rdone := make(chan struct{})
	go func() {
		defer close(rdone)
		calc.gid.Store(verifkit.GoID())
		calc.armed.Store(true)
		c.GetIfPresent(1)
	}()
	select {
	case <-calc.parked:
	case <-time.After(3 * time.Second):
		res.Hang = 1
		return res
	}
	clk.now.Add(1000) // exactly the deadline
	gate := make(chan struct{})
	atGate := make(chan struct{})
	var sweeper atomic.Uint64
	var inEvict atomic.Bool
	var once sync.Once
	verifhookInstall(func(id string, v uint64) {
		if verifkit.GoID() != sweeper.Load() {
			return
		}
		if id == "ev.beforeDelete" {
			inEvict.Store(true)
		}
		if id == "cp.ldTable" && inEvict.Load() {
			once.Do(func() {
				close(atGate)
				<-gate
			})
		}
	})
	defer verifhookInstall(nil)
	swept := make(chan struct{})
	go func() {
		defer close(swept)
		sweeper.Store(verifkit.GoID())
		c.SetMaximum(0) // every entry must go for size
	}()
	select {
	case <-atGate:
		res.Gated = 1
	case <-swept:
	case <-time.After(3 * time.Second):
		res.Hang = 1
		close(gate)
		return res
	}
	calc.resume <- struct{}{}
	select {
	case <-rdone:
	case <-time.After(3 * time.Second):
		res.Hang = 1
		close(gate)
		return res
	}
	close(gate)
	select {
	case <-swept:
	case <-time.After(3 * time.Second):
		res.Hang = 1
		return res
	}
	verifhookInstall(nil)
	c.CleanUp()
	res.EstMid = c.EstimatedSize()
	for range c.All() {
		res.Live++
	}
	for range c.Coldest() {
		res.Cold++
	}
	res.Est = res.Live // (judged by the bound: maximum 0)
	mu.Lock()
	defer mu.Unlock()
	return res
}

// stepClock moves by one nanosecond at every reading (every real clock moves between two readings)
type stepClock struct {
	now   atomic.Int64
	never chan time.Time
}

func (c *stepClock) NowNano() int64                      { return c.now.Add(1) }
func (c *stepClock) Tick(time.Duration) <-chan time.Time { return c.never }

// runPersistStep (C19): entries that never expire / are never due for refresh are saved and loaded into a cache whose clock moves
// between any two readings; they must come back as "never", not wrapped into the past.
func runPersistStep(sc sweepScenario) sweepResult {
	res := sweepResult{T: "sweep", Sc: sc, TickNs: 1 << 30}
	mk := func(clk Clock) *Cache[int, int] {
		o := &Options[int, int]{
			Clock:             clk,
			Executor:          func(fn func()) { fn() },
			ExpiryCalculator:  ExpiryWriting[int, int](time.Duration(math.MaxInt64)),
			RefreshCalculator: RefreshWriting[int, int](time.Duration(math.MaxInt64)),
		}
		if sc.Sized == 1 {
			o.MaximumSize = 100
		}
		return Must(o)
	}
	src := &stallClock{never: make(chan time.Time), stalled: make(chan struct{}), resume: make(chan struct{})}
	src.now.Store(int64(5) << 30)
	a := mk(src)
	defer a.StopAllGoroutines()
	for k := 0; k < 8; k++ {
		a.Set(k, 100+k)
	}
	a.CleanUp()
	var buf bytes.Buffer
	if err := SaveCacheTo(a, &buf); err != nil {
		res.Hang = 1
		return res
	}
	tc := &stepClock{never: make(chan time.Time)}
	tc.now.Store(int64(5)<<30 + sc.Jump)
	b := mk(tc)
	defer b.StopAllGoroutines()
	if err := LoadCacheFrom(b, &buf); err != nil {
		res.Hang = 1
		return res
	}
	for k := 0; k < 8; k++ {
		e, ok := b.GetEntryQuietly(k)
		if !ok {
			continue
		}
		res.Loaded++
		if e.RefreshableAtNano != math.MaxInt64 {
			res.BadRef++
		}
		if e.ExpiresAtNano != math.MaxInt64 {
			res.BadExp++
		}
	}
	return res
}

// runReadBufferClear (C17): a reader has reserved its slot in the read buffer and is parked before it publishes the element
// (hook "ring.add.publish"); InvalidateAll discards the buffered reads; the reader publishes; later another reader is parked
// the same way across a maintenance run.  At quiescence, after a final run, every element that was recorded has been handed
// to the consumer or discarded: none is left published out of the consumer's reach.
func runReadBufferClear(sc sweepScenario) sweepResult {
	res := sweepResult{T: "sweep", Sc: sc, TickNs: 1 << 30}
	clk := &stallClock{never: make(chan time.Time), stalled: make(chan struct{}), resume: make(chan struct{})}
	clk.now.Store(int64(5) << 30)
	var qmu sync.Mutex
	var queue []func()
	o := &Options[int, int]{
		Clock:            clk,
		ExpiryCalculator: ExpiryWriting[int, int](time.Hour),
		Executor: func(fn func()) { // maintenance only when the scenario runs it
			qmu.Lock()
			queue = append(queue, fn)
			qmu.Unlock()
		},
	}
	if sc.Sized == 1 {
		o.MaximumSize = 100
	}
	c := Must(o)
	defer c.StopAllGoroutines()
	c.Set(1, 11)
	c.Set(2, 22)
	c.CleanUp()
	var gmu sync.Mutex
	type park struct{ arrived, resume chan struct{} }
	gates := map[uint64]*park{}
	verifhookInstall(func(id string, v uint64) {
		if id != "ring.add.publish" {
			return
		}
		gmu.Lock()
		g := gates[verifkit.GoID()]
		delete(gates, verifkit.GoID())
		gmu.Unlock()
		if g != nil {
			close(g.arrived)
			<-g.resume
		}
	})
	defer verifhookInstall(nil)
	parkedRead := func(k int) (*park, chan struct{}) {
		g := &park{arrived: make(chan struct{}), resume: make(chan struct{})}
		done := make(chan struct{})
		ready := make(chan struct{})
		go func() {
			defer close(done)
			gmu.Lock()
			gates[verifkit.GoID()] = g
			gmu.Unlock()
			close(ready)
			c.GetIfPresent(k)
		}()
		<-ready
		select {
		case <-g.arrived:
		case <-done: // the read was not recorded (first element of a new ring, or dropped): nothing is parked
		case <-time.After(2 * time.Second):
			res.Hang = 1
		}
		return g, done
	}
	release := func(g *park, done chan struct{}) {
		select {
		case <-done:
			return
		default:
		}
		close(g.resume)
		select {
		case <-done:
		case <-time.After(2 * time.Second):
			res.Hang = 1
		}
	}
	c.GetIfPresent(1) // the stripe's ring exists
	p, pdone := parkedRead(1)
	c.InvalidateAll() // discards the buffered reads while P holds a reserved, unpublished slot
	release(p, pdone)
	c.Set(1, 11)
	c.Set(2, 22)
	for i := 0; i < sc.Warm; i++ {
		c.GetIfPresent(2)
	}
	q, qdone := parkedRead(2)
	c.CleanUp() // a maintenance run while Q holds a reserved, unpublished slot
	release(q, qdone)
	verifhookInstall(nil)
	c.CleanUp() // quiescent
	res.Stranded = c.cache.readBuffer.StrandedForVerif()
	return res
}

// runEvictRewrite (C04): an eviction run (the maximum was lowered) is parked inside the deletion handler of its first victim
// while another goroutine rewrites every other key: the run goes on to evict nodes that are no longer current for their keys.
// After quiescence and maintenance the entries present are within the (lowered) maximum.
func runEvictRewrite(sc sweepScenario) sweepResult {
	res := sweepResult{T: "sweep", Sc: sc, TickNs: 1 << 30}
	clk := &stallClock{never: make(chan time.Time), stalled: make(chan struct{}), resume: make(chan struct{})}
	clk.now.Store(int64(5) << 30)
	parked, resume := make(chan struct{}), make(chan struct{})
	var once sync.Once
	var armed atomic.Bool
	o := &Options[int, int]{
		Clock:       clk,
		MaximumSize: 20,
		Executor:    func(fn func()) { fn() },
		OnDeletion: func(e DeletionEvent[int, int]) {
			if armed.Load() && e.Cause == CauseOverflow {
				once.Do(func() {
					close(parked)
					<-resume
				})
			}
		},
	}
	if sc.Sized == 0 {
		o.ExpiryCalculator = ExpiryWriting[int, int](time.Hour)
	}
	c := Must(o)
	defer c.StopAllGoroutines()
	for k := 0; k < 20; k++ {
		c.Set(k, k)
	}
	c.CleanUp()
	armed.Store(true)
	done := make(chan struct{})
	go func() {
		defer close(done)
		c.SetMaximum(uint64(sc.Max)) // the eviction run
	}()
	select {
	case <-parked:
	case <-done:
	case <-time.After(3 * time.Second):
		res.Hang = 1
		return res
	}
	for k := 0; k < 20; k++ {
		c.Set(k, 1000+k) // rewritten while the run is parked: its victims are no longer the current nodes
	}
	close(resume)
	select {
	case <-done:
	case <-time.After(3 * time.Second):
		res.Hang = 1
		return res
	}
	c.CleanUp()
	c.CleanUp()
	for range c.All() {
		res.Live++
	}
	for range c.Coldest() {
		res.Cold++
	}
	res.EstMid = c.EstimatedSize()
	return res
}

// runDeleteBeforeAdd (op ord.x): a writer is parked between its table computation (the new entry is mapped) and the publication of its add
// event (hook set.afterCompute / cmp.afterCompute); the key is invalidated and maintenance runs: the delete event is applied before the add
// event.  The cache holds sc.Warm entries of weight 1 and its maximum is sc.Max > sc.Warm + 1: it never exceeds its maximum, so nothing may
// leave with cause Overflow (Policy.tla: JustifiedTrue; Caffeine keeps these totals signed).
func runDeleteBeforeAdd(sc sweepScenario) sweepResult {
	res := sweepResult{T: "sweep", Sc: sc, TickNs: 1 << 30, NoPressure: 1}
	clk := &stallClock{never: make(chan time.Time), stalled: make(chan struct{}), resume: make(chan struct{})}
	clk.now.Store(int64(5) << 30)
	var mu sync.Mutex
	o := &Options[int, int]{
		Clock:       clk,
		MaximumSize: sc.Max,
		OnDeletion: func(e DeletionEvent[int, int]) {
			mu.Lock()
			if e.Cause == CauseOverflow {
				res.Overflow++
			} else {
				res.Other++
			}
			mu.Unlock()
		},
	}
	if sc.Sized == 0 {
		// a weighted cache: the racing entry is heavier than the others
		o.MaximumSize = 0
		o.MaximumWeight = uint64(sc.Max)
		o.Weigher = func(k, v int) uint32 {
			if k == 1 {
				return 5
			}
			return 1
		}
	}
	if sc.SyncExec == 1 {
		o.Executor = func(fn func()) { fn() }
	}
	c := Must(o)
	defer c.StopAllGoroutines()
	for i := 0; i < sc.Warm; i++ {
		c.Set(100+i, i)
	}
	c.CleanUp()
	parked, resume := make(chan struct{}), make(chan struct{})
	var gid atomic.Uint64
	var once sync.Once
	want := map[string]string{"ord.set": "set.afterCompute", "ord.compute": "cmp.afterCompute", "ord.setifabsent": "set.afterCompute"}[sc.Op]
	verifhookInstall(func(id string, v uint64) {
		if id == want && verifkit.GoID() == gid.Load() {
			once.Do(func() {
				close(parked)
				<-resume
			})
		}
	})
	defer verifhookInstall(nil)
	done := make(chan struct{})
	go func() {
		defer close(done)
		gid.Store(verifkit.GoID())
		switch sc.Op {
		case "ord.set":
			c.Set(1, 11)
		case "ord.compute":
			c.Compute(1, func(old int, found bool) (int, ComputeOp) { return 11, WriteOp })
		case "ord.setifabsent":
			c.SetIfAbsent(1, 11)
		}
	}()
	select {
	case <-parked:
		res.Gated = 1
	case <-done:
	case <-time.After(3 * time.Second):
		res.Hang = 1
		return res
	}
	c.Invalidate(1) // its delete event is published, the add event of the parked writer is not
	c.CleanUp()
	time.Sleep(2 * time.Millisecond)
	close(resume)
	select {
	case <-done:
	case <-time.After(3 * time.Second):
		res.Hang = 1
		return res
	}
	time.Sleep(2 * time.Millisecond)
	c.CleanUp()
	time.Sleep(2 * time.Millisecond)
	c.CleanUp()
	for range c.All() {
		res.Live++
	}
	for range c.Coldest() {
		res.Cold++
	}
	res.Est = c.EstimatedSize()
	mu.Lock()
	defer mu.Unlock()
	return res
}

// runSweepWhileWriterParked (op swp.x): an entry has expired and is not yet removed; a writer replaces it and is parked between its table
// computation and the publication of its event (hooks set.afterCompute / cmp.afterCompute); a maintenance run fires the dead node's timer -
// the node is no longer mapped, so that run reports nothing - and only then the writer's event is replayed.  The replaced value (11) must
// still reach OnDeletion, exactly once, with cause Expiration (C13: "its Expiration event has been delivered"; C06).
func runSweepWhileWriterParked(sc sweepScenario) sweepResult {
	res := sweepResult{T: "sweep", Sc: sc, TickNs: 1 << 30, NoPressure: 1}
	clk := &stallClock{never: make(chan time.Time), stalled: make(chan struct{}), resume: make(chan struct{})}
	clk.now.Store(int64(5) << 30)
	var mu sync.Mutex
	n11 := 0
	o := &Options[int, int]{
		Clock:            clk,
		ExpiryCalculator: ExpiryWriting[int, int](time.Duration(sc.TTL)),
		OnDeletion: func(e DeletionEvent[int, int]) {
			if e.Key != 1 {
				return
			}
			mu.Lock()
			if e.Value == 11 {
				n11++
				res.AsyncCause = e.Cause.String()
			}
			if e.Cause == CauseExpiration {
				res.Expired++
			} else {
				res.Other++
			}
			mu.Unlock()
		},
	}
	if sc.Sized == 1 {
		o.MaximumSize = 100
	}
	if sc.SyncExec == 1 {
		o.Executor = func(fn func()) { fn() }
	}
	c := Must(o)
	defer c.StopAllGoroutines()
	c.Set(1, 11)
	c.CleanUp()
	time.Sleep(2 * time.Millisecond)
	clk.now.Add(sc.TTL + sc.Jump) // the deadline has passed, no maintenance run yet
	parked, resume := make(chan struct{}), make(chan struct{})
	var gid atomic.Uint64
	var once sync.Once
	verifhookInstall(func(id string, v uint64) {
		if (id == "set.afterCompute" || id == "cmp.afterCompute") && verifkit.GoID() == gid.Load() {
			once.Do(func() {
				close(parked)
				<-resume
			})
		}
	})
	defer verifhookInstall(nil)
	done := make(chan struct{})
	go func() {
		defer close(done)
		gid.Store(verifkit.GoID())
		if sc.Op == "swp.compute" {
			c.Compute(1, func(old int, found bool) (int, ComputeOp) { return 99, WriteOp })
		} else {
			c.Set(1, 99)
		}
	}()
	select {
	case <-parked:
		res.Gated = 1
	case <-done:
	case <-time.After(3 * time.Second):
		res.Hang = 1
		return res
	}
	c.CleanUp() // fires the timer of the replaced, dead node
	time.Sleep(2 * time.Millisecond)
	close(resume)
	select {
	case <-done:
	case <-time.After(3 * time.Second):
		res.Hang = 1
		return res
	}
	time.Sleep(2 * time.Millisecond)
	c.CleanUp()
	time.Sleep(2 * time.Millisecond)
	c.CleanUp()
	time.Sleep(2 * time.Millisecond)
	mu.Lock()
	res.MassN, res.MassExpired = 0, n11 // (MassExpired reused: number of OnDeletion events for the replaced value)
	mu.Unlock()
	res.EstMid = c.EstimatedSize()
	for range c.All() {
		res.Live++
	}
	mu.Lock()
	defer mu.Unlock()
	return res
}

type sweepResult struct {
	T       string        `json:"t"`
	Sc      sweepScenario `json:"sc"`
	Est     int           `json:"est"`     // EstimatedSize after the last CleanUp
	EstMid  int           `json:"estmid"`  // EstimatedSize right after the racing write returned
	Visible int           `json:"visible"` // 1 = GetIfPresent still returns the racing entry at the end
	Expired int           `json:"expired"` // Expiration events delivered for the racing key
	Other   int           `json:"other"`   // other deletion events for the racing key
	TickNs  int64         `json:"tickns"`
	Hang    int           `json:"hang"`
	Live    int           `json:"live"` // readrace, sized: entries iteration yields after the cache was filled
	// gated read races (runGateRace)
	Overflow   int `json:"overflow"`   // Overflow events delivered for the racing key
	Gated      int `json:"gated"`      // 1 = the sweeper was parked at ev.beforeDelete for the racing key's node
	NoPressure int `json:"nopressure"` // 1 = the cache was never above its maximum (or has none) during the scenario
	MidPresent int `json:"midpresent"` // 1 = the entry was present (GetEntryQuietly) right after the race
	MidAlive   int `json:"midalive"`   // 1 = its deadline (as reported then) lay after the clock value of the race
	Overlap     int `json:"overlap"`     // ld.x: 1 = a second loader for the key was entered while the first was still running
	LdRuns      int `json:"ldruns"`      // ld.x: loader invocations
	Hits        int `json:"hits"`        // sia.x: hits / misses recorded by the race (the reader's lookup is a hit)
	Misses      int `json:"misses"`
	Stranded    int `json:"stranded"`    // rb.x: elements of the read buffer that are published but out of the consumer's reach at quiescence
	BadRef      int `json:"badref"`      // persist.x: loaded entries whose "never" refresh deadline came back as something else
	BadExp      int `json:"badexp"`      // persist.x: ... expiration deadline
	Loaded      int `json:"loaded"`      // persist.x: entries found in the target
	MassN       int `json:"massn"`       // mass.x: entries that came due in one sweep
	MassExpired int `json:"massexpired"` // mass.x: distinct keys for which exactly one Expiration event was delivered
	AtomicCause string `json:"atomiccause"` // sia.x: cause with which the replaced value (key 1, value 11) reached OnAtomicDeletion
	AsyncCause  string `json:"asynccause"`  // sia.x: ... and OnDeletion
	Cold       int `json:"cold"`       // sia.race: entries Coldest yields after the race (Live = entries All yields)
	Inserted   int `json:"inserted"`   // sia.race: 1 = SetIfAbsent reported that it stored its value
}

func runSweepScenario(sc sweepScenario) sweepResult {
	res := sweepResult{T: "sweep", Sc: sc, TickNs: 1 << 30}
	clk := &stallClock{never: make(chan time.Time), stalled: make(chan struct{}), resume: make(chan struct{})}
	clk.now.Store(int64(5) << 30)
	var mu sync.Mutex
	o := &Options[int, int]{
		Clock:            clk,
		ExpiryCalculator: ExpiryWriting[int, int](time.Duration(sc.TTL)),
		OnDeletion: func(e DeletionEvent[int, int]) {
			if e.Key != 1 {
				return
			}
			mu.Lock()
			if e.Cause == CauseExpiration {
				res.Expired++
			} else {
				res.Other++
			}
			mu.Unlock()
		},
	}
	if sc.Sized == 1 {
		o.MaximumSize = 100
	}
	if sc.SyncExec == 1 {
		o.Executor = func(fn func()) { fn() }
	}
	c := Must(o)
	defer c.StopAllGoroutines()
	for i := 0; i < sc.Warm; i++ {
		c.Set(100+i, i)
	}
	c.CleanUp()
	done := make(chan struct{})
	go func() {
		defer close(done)
		clk.gid.Store(verifkit.GoID())
		clk.armed.Store(true)
		switch sc.Op {
		case "set":
			c.Set(1, 11)
		case "compute":
			c.Compute(1, func(old int, found bool) (int, ComputeOp) { return 11, WriteOp })
		case "setifabsent":
			c.SetIfAbsent(1, 11)
		}
	}()
	select {
	case <-clk.stalled:
	case <-time.After(3 * time.Second):
		res.Hang = 1
		return res
	}
	// the writer has sampled the clock; time moves on and maintenance runs at the later time
	clk.now.Add(sc.Jump)
	c.CleanUp()
	clk.resume <- struct{}{}
	select {
	case <-done:
	case <-time.After(3 * time.Second):
		res.Hang = 1
		return res
	}
	time.Sleep(2 * time.Millisecond)
	c.CleanUp()
	res.EstMid = c.EstimatedSize()
	clk.now.Add(sc.Later)
	c.CleanUp()
	time.Sleep(2 * time.Millisecond)
	c.CleanUp()
	res.Est = c.EstimatedSize()
	if _, ok := c.GetIfPresent(1); ok {
		res.Visible = 1
	}
	time.Sleep(2 * time.Millisecond)
	return res
}

func TestVerifSweep(t *testing.T) {
	out := os.Getenv("VERIF_OUT")
	if out == "" {
		t.Skip("VERIF_OUT not set")
	}
	b, err := os.ReadFile(os.Getenv("VERIF_IN"))
	if err != nil {
		t.Fatal(err)
	}
	var scs []sweepScenario
	if err := json.Unmarshal(b, &scs); err != nil {
		t.Fatal(err)
	}
	f, err := os.Create(out)
	if err != nil {
		t.Fatal(err)
	}
	defer f.Close()
	w := bufio.NewWriter(f)
	defer w.Flush()
	enc := json.NewEncoder(w)
	for _, sc := range scs {
		if len(sc.Op) > 4 && sc.Op[:4] == "swp." {
			_ = enc.Encode(runSweepWhileWriterParked(sc))
			continue
		}
		if len(sc.Op) > 4 && sc.Op[:4] == "ord." {
			_ = enc.Encode(runDeleteBeforeAdd(sc))
			continue
		}
		if sc.Op == "ev.rewrite" {
			_ = enc.Encode(runEvictRewrite(sc))
			continue
		}
		if sc.Op == "rb.clear" {
			_ = enc.Encode(runReadBufferClear(sc))
			continue
		}
		if sc.Op == "persist.step" {
			_ = enc.Encode(runPersistStep(sc))
			continue
		}
		if sc.Op == "gate.size" {
			_ = enc.Encode(runSizeEvictRace(sc))
			continue
		}
		if len(sc.Op) > 5 && sc.Op[:5] == "late." {
			_ = enc.Encode(runLateSweep(sc))
			continue
		}
		if len(sc.Op) > 3 && sc.Op[:3] == "ld." {
			_ = enc.Encode(runStaleEvictLoad(sc))
			continue
		}
		if len(sc.Op) > 5 && sc.Op[:5] == "mass." {
			_ = enc.Encode(runMassExpiry(sc))
			continue
		}
		if len(sc.Op) > 4 && sc.Op[:4] == "sia." {
			_ = enc.Encode(runSetIfAbsentRace(sc))
			continue
		}
		if len(sc.Op) > 5 && sc.Op[:5] == "gate." {
			_ = enc.Encode(runGateRace(sc))
			continue
		}
		if len(sc.Op) > 5 && sc.Op[:5] == "read." {
			_ = enc.Encode(runReadRace(sc))
			continue
		}
		_ = enc.Encode(runSweepScenario(sc))
	}
}
