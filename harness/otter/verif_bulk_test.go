package otter

// C02 / C15 on large tables at the level of the cache: the same scenario as harness/hashmap/verif_bulk_test.go through
// the public API (Set, Invalidate, ComputeIfAbsent with the callback parked, GetIfPresent, All, EstimatedSize) on a cache
// without a size bound and without expiration, so nothing may disappear without a deletion event.

import (
	"bufio"
	"encoding/json"
	"os"
	"runtime"
	"sync"
	"testing"
	"time"
)

type cbulkScenario struct {
	Procs  int   `json:"procs"`
	N      int   `json:"n"`
	Keep   int   `json:"keep"`
	Parked int   `json:"parked"`
	Seed   int64 `json:"seed"`
}

type cbulkPhase struct {
	Want    int   `json:"want"`
	NMiss   int   `json:"nmiss"`
	Miss    []int `json:"miss"`
	Size    int   `json:"size"`
	Yielded int   `json:"yielded"`
	Dup     int   `json:"dup"`
	Ghost   int   `json:"ghost"`
}

type cbulkResult struct {
	T      string        `json:"t"`
	Level  string        `json:"level"`
	Sc     cbulkScenario `json:"sc"`
	Phases []cbulkPhase  `json:"phases"`
	FnRuns []int         `json:"fnruns"`
	Lost   []int         `json:"lost"` // parked writers: ComputeIfAbsent returned (v, true), no deletion event for the key, GetIfPresent misses
}

func runCacheBulk(sc cbulkScenario) cbulkResult {
	res := cbulkResult{T: "bulk", Level: "cache", Sc: sc, Phases: []cbulkPhase{}, FnRuns: []int{}, Lost: []int{}}
	prev := runtime.GOMAXPROCS(sc.Procs)
	defer runtime.GOMAXPROCS(prev)
	var mu sync.Mutex
	reported := map[int]int{}
	c := Must(&Options[int, int]{OnAtomicDeletion: func(e DeletionEvent[int, int]) {
		mu.Lock()
		reported[e.Key]++
		mu.Unlock()
	}})
	defer c.StopAllGoroutines()
	audit := func(want map[int]bool) cbulkPhase {
		ph := cbulkPhase{Want: len(want), Miss: []int{}}
		for k := range want {
			if v, ok := c.GetIfPresent(k); !ok || v != k {
				ph.NMiss++
				if len(ph.Miss) < 8 {
					ph.Miss = append(ph.Miss, k)
				}
			}
		}
		ph.Size = c.EstimatedSize()
		seen := map[int]int{}
		for k := range c.All() {
			seen[k]++
		}
		ph.Yielded = len(seen)
		for k, n := range seen {
			if n > 1 {
				ph.Dup++
			}
			if !want[k] {
				ph.Ghost++
			}
		}
		return ph
	}
	want := map[int]bool{}
	for k := 0; k < sc.N; k++ {
		c.Set(k, k)
		want[k] = true
	}
	res.Phases = append(res.Phases, audit(want))
	for k := sc.Keep; k < sc.N; k++ {
		c.Invalidate(k)
		delete(want, k)
	}
	res.Phases = append(res.Phases, audit(want))
	release := make(chan struct{})
	inside := make(chan int, sc.Parked)
	runs := make([]int, sc.Parked)
	oks := make([]bool, sc.Parked)
	var wg sync.WaitGroup
	for i := 0; i < sc.Parked; i++ {
		wg.Add(1)
		go func(i int) {
			defer wg.Done()
			k := 1_000_000 + i*7919
			_, oks[i] = c.ComputeIfAbsent(k, func() (int, bool) {
				runs[i]++
				if runs[i] == 1 {
					inside <- i
					<-release
				}
				return k, false
			})
		}(i)
	}
	for i := 0; i < sc.Parked; i++ {
		select {
		case <-inside:
		case <-time.After(5 * time.Second):
		}
	}
	done := make(chan struct{})
	go func() {
		for k := 0; k < sc.Keep; k++ {
			c.Invalidate(k)
		}
		close(done)
	}()
	select {
	case <-done:
	case <-time.After(300 * time.Millisecond):
	}
	close(release)
	wg.Wait()
	<-done
	for k := 0; k < sc.Keep; k++ {
		delete(want, k)
	}
	for i := 0; i < sc.Parked; i++ {
		k := 1_000_000 + i*7919
		mu.Lock()
		rep := reported[k]
		mu.Unlock()
		if oks[i] && rep == 0 {
			want[k] = true
			if _, ok := c.GetIfPresent(k); !ok {
				res.Lost = append(res.Lost, i)
			}
		}
	}
	res.FnRuns = runs
	res.Phases = append(res.Phases, audit(want))
	return res
}

// TestVerifCacheBulk: VERIF_IN = JSON array of scenarios; VERIF_OUT = NDJSON results.
func TestVerifCacheBulk(t *testing.T) {
	out := os.Getenv("VERIF_OUT")
	if out == "" {
		t.Skip("VERIF_OUT not set")
	}
	b, err := os.ReadFile(os.Getenv("VERIF_IN"))
	if err != nil {
		t.Fatal(err)
	}
	var scs []cbulkScenario
	if err := json.Unmarshal(b, &scs); err != nil {
		t.Fatal(err)
	}
	f, err := os.Create(out)
	if err != nil {
		t.Fatal(err)
	}
	defer f.Close()
	w := bufio.NewWriter(f)
	defer w.Flush()
	enc := json.NewEncoder(w)
	for _, sc := range scs {
		_ = enc.Encode(runCacheBulk(sc))
	}
}
