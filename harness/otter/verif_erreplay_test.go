package otter

// B2 for ExpireRace.tla: behaviours of the model (TLC -simulate) replayed on the real cache.  Every process of the model is a
// goroutine; the labels of the model are reached by releasing the goroutine from the point it is parked at:
//   reader   r_now = enters GetIfPresent and is parked inside the clock (sample taken); r_get = lookup, hit, parked inside the
//            expiry calculator's read hook; r_cas = stores the extended deadline, returns
//   sweeper  s_now = enters CleanUp (buffers drained) and is parked inside the clock read of expireNodes; s_wheel = wheel test,
//            parked at ev.beforeDelete if the node is handed over; s_lock = removal (or revival), returns
//   writer   w_now = enters Set / SetIfAbsent, parked inside the clock; w_comp = table computation, parked at set.afterCompute;
//            w_after = publishes its event, returns
//   T0       the clock moves by one tick;  f_wait = a last quiescent maintenance run
// Maintenance handed to the executor is queued and run by f_wait only (the model has no other run).  Records are judged by
// spec/SweepHist.tla; the runner compares the outcome with the model's final state (conformance, not a verdict).

import (
	"bufio"
	"encoding/json"
	"os"
	"sync"
	"sync/atomic"
	"testing"
	"time"

	"github.com/maypok86/otter/v2/internal/verifkit"
)

type erScenario struct {
	Steps []string `json:"steps"`
	WKind string   `json:"wkind"` // set | setifabsent | "" (no writer)
	Sized int      `json:"sized"`
	TTL   int64    `json:"ttl"` // model units
	ID    int      `json:"id"`
}

type erEvent struct {
	H string `json:"h"` // A | D
	V int    `json:"v"`
	C string `json:"c"`
}

type erResult struct {
	T       string     `json:"t"`
	Sc      erScenario `json:"sc"`
	Events  []erEvent  `json:"events"`
	Mapped  int        `json:"mapped"`  // value of the key's node in the table, expired or not (0 = no node)
	Present int        `json:"present"`
	Value   int        `json:"value"`
	Live    int        `json:"live"`
	Cold    int        `json:"cold"`
	Est     int        `json:"est"`
	Drift   int        `json:"drift"`   // steps of the behaviour that could not be followed
	Hang    int        `json:"hang"`
	Notes   []string   `json:"notes"`
}

type erPark struct {
	arrived chan struct{}
	resume  chan struct{}
}

type erClock struct {
	now   atomic.Int64
	never chan time.Time
	mu    sync.Mutex
	parks map[uint64]*erPark
}

func (c *erClock) NowNano() int64 {
	v := c.now.Load()
	c.mu.Lock()
	p := c.parks[verifkit.GoID()]
	delete(c.parks, verifkit.GoID())
	c.mu.Unlock()
	if p != nil {
		close(p.arrived)
		<-p.resume
	}
	return v
}
func (c *erClock) Tick(time.Duration) <-chan time.Time { return c.never }
func (c *erClock) arm() *erPark {
	p := &erPark{arrived: make(chan struct{}), resume: make(chan struct{})}
	c.mu.Lock()
	c.parks[verifkit.GoID()] = p
	c.mu.Unlock()
	return p
}

type erCalc struct {
	ttl  time.Duration
	mu   sync.Mutex
	park map[uint64]*erPark
}

func (p *erCalc) ExpireAfterCreate(Entry[int, int]) time.Duration      { return p.ttl }
func (p *erCalc) ExpireAfterUpdate(Entry[int, int], int) time.Duration { return p.ttl }
func (p *erCalc) ExpireAfterRead(Entry[int, int]) time.Duration {
	p.mu.Lock()
	k := p.park[verifkit.GoID()]
	delete(p.park, verifkit.GoID())
	p.mu.Unlock()
	if k != nil {
		close(k.arrived)
		<-k.resume
	}
	return p.ttl
}

type erActor struct {
	clockPark, midPark *erPark // inside the clock; inside the calculator / at the hook gate
	done               chan struct{}
	started            bool
	stage              int // 0 not started, 1 in clock, 2 at the middle gate, 3 done
}

func erWait(chs ...chan struct{}) int {
	t := time.After(2 * time.Second)
	for {
		for i, ch := range chs {
			select {
			case <-ch:
				return i
			default:
			}
		}
		select {
		case <-t:
			return -1
		default:
			time.Sleep(50 * time.Microsecond)
		}
	}
}

func runExpireReplay(sc erScenario) erResult {
	const unit = int64(1) << 30
	res := erResult{T: "erreplay", Sc: sc, Events: []erEvent{}, Notes: []string{}}
	clk := &erClock{never: make(chan time.Time), parks: map[uint64]*erPark{}}
	clk.now.Store(8 * unit)
	calc := &erCalc{ttl: time.Duration(sc.TTL * unit), park: map[uint64]*erPark{}}
	var mu sync.Mutex
	var qmu sync.Mutex
	var queue []func()
	runQueue := func() {
		for {
			qmu.Lock()
			if len(queue) == 0 {
				qmu.Unlock()
				return
			}
			fn := queue[0]
			queue = queue[1:]
			qmu.Unlock()
			fn()
		}
	}
	o := &Options[int, int]{
		Clock:            clk,
		ExpiryCalculator: calc,
		Executor: func(fn func()) {
			qmu.Lock()
			queue = append(queue, fn)
			qmu.Unlock()
		},
		OnAtomicDeletion: func(e DeletionEvent[int, int]) {
			mu.Lock()
			res.Events = append(res.Events, erEvent{"A", e.Value, e.Cause.String()})
			mu.Unlock()
		},
		OnDeletion: func(e DeletionEvent[int, int]) {
			mu.Lock()
			res.Events = append(res.Events, erEvent{"D", e.Value, e.Cause.String()})
			mu.Unlock()
		},
	}
	if sc.Sized == 1 {
		o.MaximumSize = 50
	}
	c := Must(o)
	defer c.StopAllGoroutines()
	c.Set(1, 11)
	runQueue()
	c.CleanUp()
	// hook gates of the sweeper and the writer, keyed by goroutine
	var gmu sync.Mutex
	gates := map[uint64]*erPark{}
	verifhookInstall(func(id string, v uint64) {
		if id != "ev.beforeDelete" && id != "set.afterCompute" {
			return
		}
		gmu.Lock()
		g := gates[verifkit.GoID()]
		delete(gates, verifkit.GoID())
		gmu.Unlock()
		if g != nil {
			close(g.arrived)
			<-g.resume
		}
	})
	defer verifhookInstall(nil)
	rd, sw, wr := &erActor{done: make(chan struct{})}, &erActor{done: make(chan struct{})}, &erActor{done: make(chan struct{})}
	start := func(a *erActor, kind string) {
		ready := make(chan struct{})
		go func() {
			defer close(a.done)
			a.clockPark = clk.arm()
			mid := &erPark{arrived: make(chan struct{}), resume: make(chan struct{})}
			a.midPark = mid
			switch kind {
			case "reader":
				calc.mu.Lock()
				calc.park[verifkit.GoID()] = mid
				calc.mu.Unlock()
			default:
				gmu.Lock()
				gates[verifkit.GoID()] = mid
				gmu.Unlock()
			}
			close(ready)
			switch kind {
			case "reader":
				c.GetIfPresent(1)
			case "sweeper":
				c.CleanUp()
			case "set":
				c.Set(1, 99)
			case "setifabsent":
				c.SetIfAbsent(1, 99)
			}
		}()
		<-ready
		a.started = true
		if erWait(a.clockPark.arrived, a.done) == 0 {
			a.stage = 1
		} else {
			a.stage = 3
		}
	}
	advance := func(a *erActor, want int) { // release the actor from stage `want` to its next park
		if a.stage != want {
			res.Drift++
			return
		}
		switch want {
		case 1:
			close(a.clockPark.resume)
			switch erWait(a.midPark.arrived, a.done) {
			case 0:
				a.stage = 2
			case 1:
				a.stage = 3
			default:
				res.Hang = 1
			}
		case 2:
			close(a.midPark.resume)
			if erWait(a.done) == 0 {
				a.stage = 3
			} else {
				res.Hang = 1
			}
		}
	}
	final := false
	for _, st := range sc.Steps {
		if res.Hang == 1 {
			break
		}
		switch st {
		case "r_now":
			start(rd, "reader")
		case "r_get":
			advance(rd, 1)
		case "r_cas":
			if rd.stage == 2 {
				advance(rd, 2)
			}
		case "s_now":
			start(sw, "sweeper")
		case "s_wheel":
			advance(sw, 1)
		case "s_lock":
			if sw.stage == 2 {
				advance(sw, 2)
			}
		case "w_now":
			start(wr, sc.WKind)
		case "w_comp":
			advance(wr, 1)
		case "w_after":
			if wr.stage == 2 {
				advance(wr, 2)
			}
		case "T0":
			clk.now.Add(unit)
		case "f_wait":
			final = true
		}
	}
	// whatever the behaviour left unfinished runs to its end now
	for _, a := range []*erActor{rd, sw, wr} {
		if !a.started {
			continue
		}
		if a.stage == 1 {
			advance(a, 1)
		}
		if a.stage == 2 {
			advance(a, 2)
		}
	}
	_ = final
	verifhookInstall(nil)
	if res.Hang == 0 {
		runQueue()
		c.CleanUp()
		runQueue()
		if n := c.cache.hashmap.Get(1); n != nil {
			res.Mapped = n.Value()
		}
		if e, ok := c.GetEntryQuietly(1); ok {
			res.Present, res.Value = 1, e.Value
		}
		res.Est = c.EstimatedSize()
		for range c.All() {
			res.Live++
		}
		if sc.Sized == 1 {
			for range c.Coldest() {
				res.Cold++
			}
		}
	}
	mu.Lock()
	defer mu.Unlock()
	return res
}

func TestVerifExpireReplay(t *testing.T) {
	out := os.Getenv("VERIF_OUT")
	if out == "" {
		t.Skip("VERIF_OUT not set")
	}
	b, err := os.ReadFile(os.Getenv("VERIF_IN"))
	if err != nil {
		t.Fatal(err)
	}
	var scs []erScenario
	if err := json.Unmarshal(b, &scs); err != nil {
		t.Fatal(err)
	}
	f, err := os.Create(out)
	if err != nil {
		t.Fatal(err)
	}
	defer f.Close()
	w := bufio.NewWriter(f)
	defer w.Flush()
	enc := json.NewEncoder(w)
	for _, sc := range scs {
		_ = enc.Encode(runExpireReplay(sc))
	}
}
