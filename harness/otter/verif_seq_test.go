package otter

// Sequential conformance driver (binding B1 of /verif/DESIGN.md).
//
// It interprets an operation script against a real cache built from /repo's
// working tree (single goroutine, same-goroutine executor, manual clock whose
// Tick channel never fires, scripted loaders / calculators / weigher) and
// writes one NDJSON record per operation: arguments, results, callback and
// loader invocations, deletion events raised during the call, a statistics
// snapshot and the projection of every driver key read through
// GetEntryQuietly.  spec/CacheTrace.tla folds the record stream through the
// step functions of spec/Cache.tla.
//
// All numbers written are < 2^31 (TLC integers are 32 bit): time is logged in
// units of cfg.Scale nanoseconds, "effectively never" (>= 2^62 ns) as INF=-1,
// anything negative or not a multiple of the scale as BAD=-2.

import (
	"io"
	"bufio"
	"bytes"
	"context"
	"encoding/json"
	"errors"
	"fmt"
	"math"
	"math/rand"
	"os"
	"sort"
	"strconv"
	"sync/atomic"
	"testing"
	"time"

	"github.com/maypok86/otter/v2/stats"
)

const (
	vINF = int64(-1)
	vBAD = int64(-2)
)

// Maxima of 2^32 and more (C07: "all maxima"): TLC integers are 32 bit, so a real maximum x >= 2^32 is logged as x - hugeOff (>= 2^30);
// scripts keep the total weight far below 2^30, so the model's behaviour under the logged maximum is that of the real one.
const (
	hugeLog = int64(1) << 30
	hugeOff = (int64(1) << 32) - hugeLog
)

func realMax(logged int64) int64 {
	if logged >= hugeLog {
		return logged + hugeOff
	}
	return logged
}

func loggedMax(real int64) int64 {
	if real >= hugeLog+hugeOff {
		return real - hugeOff
	}
	return real
}

// ---------------------------------------------------------------- config / script

type seqCfg struct {
	Size    string  `json:"size"`    // none | count | weight
	Max     int64   `json:"max"`     // maximum (count or weight); 0 when size = none
	Expiry  string  `json:"expiry"`  // none | creating | writing | accessing | custom
	Refresh string  `json:"refresh"` // none | creating | writing | custom
	E       int64   `json:"e"`       // builtin expiry duration in units (vINF = MaxInt64 ns)
	R       int64   `json:"r"`       // builtin refresh duration in units
	DC      []int64 `json:"dc"`      // custom expiry: create  (by value % len), > 0 or vINF
	DU      []int64 `json:"du"`      // custom expiry: update  (0 = keep)
	DR      []int64 `json:"dr"`      // custom expiry: read    (0 = keep)
	RC      []int64 `json:"rc"`      // custom refresh: create
	RU      []int64 `json:"ru"`      // custom refresh: update (0 = keep)
	RR      []int64 `json:"rr"`      // custom refresh: reload (0 = keep)
	RF      []int64 `json:"rf"`      // custom refresh: reload failure (0 = keep)
	WT      []int64 `json:"wt"`      // weigher table (by value % len) when size = weight
	Scale   int64   `json:"scale"`   // ns per unit
	T0      int64   `json:"t0"`      // clock origin in units
	InitCap int     `json:"initcap"` // Options.InitialCapacity
	NK      int     `json:"nk"`      // driver keys are 0..NK-1
	Stats   int     `json:"stats"`   // 1 = stats.Counter attached
	RealClk int     `json:"realclk"` // 1 = origin is the real UnixNano-sized clock value (C12 class check only)
}

type seqOp struct {
	Op       string  `json:"op"`
	K        int     `json:"k"`
	V        int     `json:"v"`
	D        int64   `json:"d"`  // duration / advance in units; vINF = MaxInt64 ns
	DK       string  `json:"dk"` // duration kind: "" | "max" | "maxmnow" | "maxmnow+1" | "maxmnow-1"
	Ks       []int   `json:"ks"`
	Supply   []int   `json:"supply"`
	M        int64   `json:"m"`
	IfFound  string  `json:"iff"` // compute callback: write | inv | cancel | panic | ""
	IfAbsent string  `json:"ifa"`
	Ld       string  `json:"ld"`    // single loader outcome: val | err | nf | nfw | panic | ""
	Shape    string  `json:"shape"` // bulk loader: map | nil | err | errnf | panic | ""
	CC       int     `json:"cc"`    // 1 = the call is made with an already cancelled context (the scripted loaders ignore it)
	Dt       int64   `json:"dt"`    // SaveLoad: clock offset between save and load (units)
	Max2     int64   `json:"max2"`  // SaveLoad: target maximum (0 = same as source)
	Adv      int64   `json:"adv"`   // units by which the first loader invocation of the operation moves the clock (time passes inside user code)
	Slow     int64   `json:"slow"`  // SaveLoad: the target's clock moves by this many units while the stream is half read
}

// slowReader hands out one byte per Read and calls f once, when `at` bytes have been read
type slowReader struct {
	r     *bytes.Buffer
	n, at int
	f     func()
}

func (s *slowReader) Read(p []byte) (int, error) {
	if len(p) == 0 {
		return 0, nil
	}
	if s.n == s.at && s.f != nil {
		s.f()
		s.f = nil
	}
	n, err := s.r.Read(p[:1])
	s.n += n
	return n, err
}

type seqScript struct {
	Cfg seqCfg  `json:"cfg"`
	Ops []seqOp `json:"ops"`
}

// ---------------------------------------------------------------- trace records

type trEv struct {
	H string `json:"h"` // A = OnAtomicDeletion, D = OnDeletion, L = marker: a loader was invoked here
	K int    `json:"k"`
	V int    `json:"v"`
	C string `json:"c"`
}

type trCb struct {
	Found int `json:"found"`
	Old   int `json:"old"`
}

type trLoad struct {
	Fn   string `json:"fn"`
	Ks   []int  `json:"ks"`
	Olds []int  `json:"olds"`
}

type trEnt struct {
	K   int   `json:"k"`
	P   int   `json:"p"`
	V   int   `json:"v"`
	W   int64 `json:"w"`
	Exp int64 `json:"exp"`
	Ref int64 `json:"ref"`
}

type trKV struct {
	K int `json:"k"`
	V int `json:"v"`
}

type trRR struct {
	K   int    `json:"k"`
	V   int    `json:"v"`
	Err string `json:"err"`
}

type trRec struct {
	T      string   `json:"t"` // hdr | op
	Cfg    *seqCfg  `json:"cfg,omitempty"`
	I      int      `json:"i"`
	Op     seqOp    `json:"a"`
	Ok     int      `json:"ok"`
	Val    int      `json:"val"`
	Err    string   `json:"err"`
	Panic  int      `json:"panic"`
	Pmsg   string   `json:"pmsg"`
	Res    []trKV   `json:"res"`
	Ents   []trEnt  `json:"ents"`
	Ch     int      `json:"ch"` // refresh: 1 = channel returned, 0 = nil
	RRs    []trRR   `json:"rrs"`
	Num    int64    `json:"num"`
	Cbs    []trCb   `json:"cbs"`
	Loads  []trLoad `json:"loads"`
	Ev     []trEv   `json:"ev"`
	St     []int64  `json:"st"`
	Now    int64    `json:"now"`
	Est    int      `json:"est"`
	Proj   []trEnt  `json:"proj"`
	Tgt    []trEnt  `json:"tgt"`  // SaveLoad: projection of the target cache
	TgtEst int      `json:"tgtest"`
	TgtNow int64    `json:"tgtnow"`
	TgtMax int64    `json:"tgtmax"`
	Infl   int      `json:"inflight"` // in-flight load records left behind when the call returned (must be 0)
	Hang   int      `json:"hang"` // 1 = the call did not return within the watchdog limit (the script is abandoned)
}

// ---------------------------------------------------------------- manual clock

type manualClock struct {
	now   atomic.Int64
	never chan time.Time
}

func newManualClock(ns int64) *manualClock {
	c := &manualClock{never: make(chan time.Time)}
	c.now.Store(ns)
	return c
}
func (c *manualClock) NowNano() int64                          { return c.now.Load() }
func (c *manualClock) Tick(d time.Duration) <-chan time.Time { return c.never }

// ---------------------------------------------------------------- run state

var errSeqLoad = errors.New("verif: scripted load failure")

type seqRun struct {
	cfg    seqCfg
	clk    *manualClock
	c      *Cache[int, int]
	ctr    *stats.Counter
	ev     []trEv
	cbs    []trCb
	loads  []trLoad
	cur    *seqOp
	origin int64 // ns value of unit 0
}

func tab(t []int64, v int) int64 {
	if len(t) == 0 {
		return 0
	}
	i := v % len(t)
	if i < 0 {
		i += len(t)
	}
	return t[i]
}

func (r *seqRun) durNs(units int64) time.Duration {
	if units == vINF {
		return time.Duration(math.MaxInt64)
	}
	return time.Duration(units * r.cfg.Scale)
}

func (r *seqRun) toUnits(ns int64) int64 {
	if ns >= int64(1)<<62 {
		return vINF
	}
	rel := ns - r.origin
	if ns < 0 || rel < 0 {
		return vBAD
	}
	if rel%r.cfg.Scale != 0 {
		return vBAD
	}
	u := rel / r.cfg.Scale
	if u >= int64(1)<<30 {
		return vBAD
	}
	return u
}

type seqExpiry struct{ r *seqRun }

func (x seqExpiry) ExpireAfterCreate(e Entry[int, int]) time.Duration {
	return x.r.durNs(tab(x.r.cfg.DC, e.Value))
}
func (x seqExpiry) ExpireAfterUpdate(e Entry[int, int], old int) time.Duration {
	d := tab(x.r.cfg.DU, e.Value)
	if d == 0 {
		return e.ExpiresAfter()
	}
	return x.r.durNs(d)
}
func (x seqExpiry) ExpireAfterRead(e Entry[int, int]) time.Duration {
	d := tab(x.r.cfg.DR, e.Value)
	if d == 0 {
		return e.ExpiresAfter()
	}
	return x.r.durNs(d)
}

type seqRefresh struct{ r *seqRun }

func (x seqRefresh) RefreshAfterCreate(e Entry[int, int]) time.Duration {
	return x.r.durNs(tab(x.r.cfg.RC, e.Value))
}
func (x seqRefresh) RefreshAfterUpdate(e Entry[int, int], old int) time.Duration {
	d := tab(x.r.cfg.RU, e.Value)
	if d == 0 {
		return e.RefreshableAfter()
	}
	return x.r.durNs(d)
}
func (x seqRefresh) RefreshAfterReload(e Entry[int, int], old int) time.Duration {
	d := tab(x.r.cfg.RR, e.Value)
	if d == 0 {
		return e.RefreshableAfter()
	}
	return x.r.durNs(d)
}
func (x seqRefresh) RefreshAfterReloadFailure(e Entry[int, int], err error) time.Duration {
	d := tab(x.r.cfg.RF, e.Value)
	if d == 0 {
		return e.RefreshableAfter()
	}
	return x.r.durNs(d)
}

type nopLogger struct{}

func (nopLogger) Warn(ctx context.Context, msg string, err error)  {}
func (nopLogger) Error(ctx context.Context, msg string, err error) {}

func (r *seqRun) options(max int64, clk *manualClock, ctr *stats.Counter, sink *[]trEv) *Options[int, int] {
	o := &Options[int, int]{
		InitialCapacity: r.cfg.InitCap,
		Executor:        func(fn func()) { fn() },
		Clock:           clk,
		Logger:          nopLogger{},
	}
	switch r.cfg.Size {
	case "count":
		o.MaximumSize = int(max)
	case "weight":
		o.MaximumWeight = uint64(max)
		o.Weigher = func(k, v int) uint32 { return uint32(tab(r.cfg.WT, v)) }
	}
	switch r.cfg.Expiry {
	case "creating":
		o.ExpiryCalculator = ExpiryCreating[int, int](r.durNs(r.cfg.E))
	case "writing":
		o.ExpiryCalculator = ExpiryWriting[int, int](r.durNs(r.cfg.E))
	case "accessing":
		o.ExpiryCalculator = ExpiryAccessing[int, int](r.durNs(r.cfg.E))
	case "custom":
		o.ExpiryCalculator = seqExpiry{r}
	}
	switch r.cfg.Refresh {
	case "creating":
		o.RefreshCalculator = RefreshCreating[int, int](r.durNs(r.cfg.R))
	case "writing":
		o.RefreshCalculator = RefreshWriting[int, int](r.durNs(r.cfg.R))
	case "custom":
		o.RefreshCalculator = seqRefresh{r}
	}
	if ctr != nil {
		o.StatsRecorder = ctr
	}
	if sink != nil {
		o.OnDeletion = func(e DeletionEvent[int, int]) {
			*sink = append(*sink, trEv{"D", e.Key, e.Value, e.Cause.String()})
		}
		o.OnAtomicDeletion = func(e DeletionEvent[int, int]) {
			*sink = append(*sink, trEv{"A", e.Key, e.Value, e.Cause.String()})
		}
	}
	return o
}

func newSeqRun(cfg seqCfg) *seqRun {
	r := &seqRun{cfg: cfg}
	if cfg.Scale <= 0 {
		r.cfg.Scale = 1
	}
	if cfg.RealClk == 1 {
		// origin: a fixed UnixNano-sized instant (2027-ish), multiple of the scale
		r.origin = (int64(1_800_000_000_000_000_000) / r.cfg.Scale) * r.cfg.Scale
	}
	r.clk = newManualClock(r.origin + cfg.T0*r.cfg.Scale)
	if cfg.Stats == 1 {
		r.ctr = stats.NewCounter()
	}
	r.c = Must(r.options(realMax(cfg.Max), r.clk, r.ctr, &r.ev))
	return r
}

func (r *seqRun) close() { r.c.StopAllGoroutines() }

func errClass(err error) string {
	switch {
	case err == nil:
		return ""
	case errors.Is(err, ErrNotFound):
		return "nf"
	case errors.Is(err, errSeqLoad):
		return "err"
	default:
		return "other"
	}
}

// ---- scripted loaders

type seqLoader struct{ r *seqRun }

// loaderEntered: the first loader invocation of an operation takes op.Adv units of time
func (r *seqRun) loaderEntered() {
	if len(r.loads) == 1 && r.cur.Adv > 0 {
		r.clk.now.Add(r.cur.Adv * r.cfg.Scale)
	}
}

func (l seqLoader) outcome(k int) (int, error) {
	op := l.r.cur
	switch op.Ld {
	case "val":
		return op.V, nil
	case "err":
		return op.V, errSeqLoad
	case "nf":
		return 0, ErrNotFound
	case "nfw":
		return 0, fmt.Errorf("wrapped: %w", ErrNotFound)
	case "panic":
		panic("verif: scripted loader panic")
	}
	panic("verif: loader called by an operation without a loader script: " + op.Op)
}
func (l seqLoader) Load(ctx context.Context, k int) (int, error) {
	l.r.loads = append(l.r.loads, trLoad{"Load", []int{k}, []int{}})
	l.r.loaderEntered()
	l.r.ev = append(l.r.ev, trEv{"L", -1, 0, "L"})
	return l.outcome(k)
}
func (l seqLoader) Reload(ctx context.Context, k int, old int) (int, error) {
	l.r.loads = append(l.r.loads, trLoad{"Reload", []int{k}, []int{old}})
	l.r.loaderEntered()
	l.r.ev = append(l.r.ev, trEv{"L", -1, 0, "L"})
	return l.outcome(k)
}

type seqBulkLoader struct{ r *seqRun }

func (l seqBulkLoader) outcome() (map[int]int, error) {
	op := l.r.cur
	m := map[int]int{}
	// the n-th bulk loader invocation of one operation supplies distinguishable values
	off := (len(l.r.loads) - 1) * l.r.cfg.NK
	for _, k := range op.Supply {
		m[k] = op.V + k + off
	}
	switch op.Shape {
	case "map":
		return m, nil
	case "nil":
		return nil, nil
	case "err":
		return m, errSeqLoad
	case "errnf":
		// a failure that merely wraps the not-found sentinel is still a failure of the whole bulk call
		return m, fmt.Errorf("verif: backend said: %w", ErrNotFound)
	case "panic":
		panic("verif: scripted bulk loader panic")
	}
	panic("verif: bulk loader called by an operation without a bulk script: " + op.Op)
}
func (l seqBulkLoader) BulkLoad(ctx context.Context, keys []int) (map[int]int, error) {
	ks := append([]int{}, keys...)
	sort.Ints(ks)
	l.r.loads = append(l.r.loads, trLoad{"BulkLoad", ks, []int{}})
	l.r.loaderEntered()
	l.r.ev = append(l.r.ev, trEv{"L", -1, 0, "L"})
	return l.outcome()
}
func (l seqBulkLoader) BulkReload(ctx context.Context, keys []int, olds []int) (map[int]int, error) {
	type kv struct{ k, o int }
	kvs := make([]kv, len(keys))
	for i := range keys {
		o := -1
		if i < len(olds) {
			o = olds[i]
		}
		kvs[i] = kv{keys[i], o}
	}
	sort.Slice(kvs, func(i, j int) bool { return kvs[i].k < kvs[j].k })
	ks := make([]int, len(kvs))
	os_ := make([]int, len(kvs))
	for i := range kvs {
		ks[i], os_[i] = kvs[i].k, kvs[i].o
	}
	l.r.loads = append(l.r.loads, trLoad{"BulkReload", ks, os_})
	l.r.loaderEntered()
	l.r.ev = append(l.r.ev, trEv{"L", -1, 0, "L"})
	return l.outcome()
}

func (r *seqRun) entOf(e Entry[int, int], ok bool, k int) trEnt {
	if !ok {
		return trEnt{K: k, P: 0, V: -1, W: 0, Exp: 0, Ref: 0}
	}
	return trEnt{K: e.Key, P: 1, V: e.Value, W: int64(e.Weight), Exp: r.toUnits(e.ExpiresAtNano), Ref: r.toUnits(e.RefreshableAtNano)}
}

func projOf(r *seqRun, c *Cache[int, int]) []trEnt {
	out := make([]trEnt, 0, r.cfg.NK)
	for k := 0; k < r.cfg.NK; k++ {
		e, ok := c.GetEntryQuietly(k)
		out = append(out, r.entOf(e, ok, k))
	}
	return out
}

func computeOp(s string) ComputeOp {
	switch s {
	case "write":
		return WriteOp
	case "inv":
		return InvalidateOp
	case "cancel":
		return CancelOp
	}
	return ComputeOp(99)
}

func (r *seqRun) opDur(op *seqOp) time.Duration {
	now := r.clk.NowNano()
	switch op.DK {
	case "max":
		return time.Duration(math.MaxInt64)
	case "maxmnow":
		return time.Duration(math.MaxInt64 - now)
	case "maxmnow+1":
		return time.Duration(math.MaxInt64 - now + 1)
	case "maxmnow-1":
		return time.Duration(math.MaxInt64 - now - 1)
	}
	return r.durNs(op.D)
}

func (r *seqRun) step(i int, op seqOp) (rec trRec) {
	r.ev = r.ev[:0]
	r.cbs = r.cbs[:0]
	r.loads = r.loads[:0]
	r.cur = &op
	rec = trRec{T: "op", I: i, Op: op, Val: -1, Res: []trKV{}, Ents: []trEnt{}, RRs: []trRR{}, Tgt: []trEnt{}}
	if rec.Op.Ks == nil {
		rec.Op.Ks = []int{}
	}
	if rec.Op.Supply == nil {
		rec.Op.Supply = []int{}
	}
	c := r.c
	ctx := context.Background()
	ctxOf := func(op seqOp) context.Context {
		if op.CC == 1 {
			cctx, cancel := context.WithCancel(ctx)
			cancel()
			return cctx
		}
		return ctx
	}
	func() {
		defer func() {
			if p := recover(); p != nil {
				rec.Panic = 1
				rec.Pmsg = fmt.Sprint(p)
				if len(rec.Pmsg) > 200 {
					rec.Pmsg = rec.Pmsg[:200]
				}
			}
		}()
		b2i := func(b bool) int {
			if b {
				return 1
			}
			return 0
		}
		switch op.Op {
		case "Set":
			v, ok := c.Set(op.K, op.V)
			rec.Val, rec.Ok = v, b2i(ok)
		case "SetIfAbsent":
			v, ok := c.SetIfAbsent(op.K, op.V)
			rec.Val, rec.Ok = v, b2i(ok)
		case "GetIfPresent":
			v, ok := c.GetIfPresent(op.K)
			rec.Val, rec.Ok = v, b2i(ok)
			if !ok {
				rec.Val = -1
			}
		case "GetEntry":
			e, ok := c.GetEntry(op.K)
			rec.Ok = b2i(ok)
			if ok {
				rec.Val = e.Value
				rec.Ents = append(rec.Ents, r.entOf(e, true, op.K))
				rec.Num = r.toUnits(e.SnapshotAtNano)
			}
		case "GetEntryQuietly":
			e, ok := c.GetEntryQuietly(op.K)
			rec.Ok = b2i(ok)
			if ok {
				rec.Val = e.Value
				rec.Ents = append(rec.Ents, r.entOf(e, true, op.K))
				rec.Num = r.toUnits(e.SnapshotAtNano)
			}
		case "Compute":
			v, ok := c.Compute(op.K, func(old int, found bool) (int, ComputeOp) {
				o := old
				if !found {
					o = -1
				}
				r.cbs = append(r.cbs, trCb{b2i(found), o})
				how := op.IfAbsent
				if found {
					how = op.IfFound
				}
				if how == "panic" {
					panic("verif: scripted compute panic")
				}
				return op.V, computeOp(how)
			})
			rec.Val, rec.Ok = v, b2i(ok)
			if !ok {
				rec.Val = -1
			}
		case "ComputeIfAbsent":
			v, ok := c.ComputeIfAbsent(op.K, func() (int, bool) {
				r.cbs = append(r.cbs, trCb{0, -1})
				if op.IfAbsent == "panic" {
					panic("verif: scripted compute panic")
				}
				return op.V, op.IfAbsent == "cancel"
			})
			rec.Val, rec.Ok = v, b2i(ok)
			if !ok {
				rec.Val = -1
			}
		case "ComputeIfPresent":
			v, ok := c.ComputeIfPresent(op.K, func(old int) (int, ComputeOp) {
				r.cbs = append(r.cbs, trCb{1, old})
				if op.IfFound == "panic" {
					panic("verif: scripted compute panic")
				}
				return op.V, computeOp(op.IfFound)
			})
			rec.Val, rec.Ok = v, b2i(ok)
			if !ok {
				rec.Val = -1
			}
		case "Invalidate":
			v, ok := c.Invalidate(op.K)
			rec.Val, rec.Ok = v, b2i(ok)
			if !ok {
				rec.Val = -1
			}
		case "InvalidateAll":
			c.InvalidateAll()
		case "SetExpiresAfter":
			c.SetExpiresAfter(op.K, r.opDur(&op))
		case "SetRefreshableAfter":
			c.SetRefreshableAfter(op.K, r.opDur(&op))
		case "Get":
			v, err := c.Get(ctxOf(op), op.K, seqLoader{r})
			rec.Val, rec.Err = v, errClass(err)
			rec.Ok = b2i(err == nil)
		case "BulkGet":
			m, err := c.BulkGet(ctxOf(op), op.Ks, seqBulkLoader{r})
			rec.Err = errClass(err)
			rec.Ok = b2i(err == nil)
			for k, v := range m {
				rec.Res = append(rec.Res, trKV{k, v})
			}
		case "Refresh":
			ch := c.Refresh(ctxOf(op), op.K, seqLoader{r})
			if ch != nil {
				rec.Ch = 1
				rec.RRs = drainRR(ch)
			}
		case "BulkRefresh":
			ch := c.BulkRefresh(ctxOf(op), op.Ks, seqBulkLoader{r})
			if ch != nil {
				rec.Ch = 1
				select {
				case rs := <-ch:
					for _, x := range rs {
						rec.RRs = append(rec.RRs, trRR{x.Key, x.Value, errClass(x.Err)})
					}
					// a second delivery would violate "exactly one result per call"
					select {
					case <-ch:
						rec.Num = 2
					default:
						rec.Num = 1
					}
				case <-time.After(2 * time.Second):
					rec.Num = 0
				}
			}
		case "All":
			for k, v := range c.All() {
				rec.Res = append(rec.Res, trKV{k, v})
			}
		case "Keys":
			for k := range c.Keys() {
				rec.Res = append(rec.Res, trKV{k, 0})
			}
		case "Values":
			for v := range c.Values() {
				rec.Res = append(rec.Res, trKV{0, v})
			}
		case "Hottest":
			for e := range c.Hottest() {
				rec.Ents = append(rec.Ents, r.entOf(e, true, e.Key))
			}
		case "Coldest":
			for e := range c.Coldest() {
				rec.Ents = append(rec.Ents, r.entOf(e, true, e.Key))
			}
		case "SetMaximum":
			if op.DK == "fit" {
				// the maximum becomes exactly what the cache holds right now (the record carries the value actually used)
				if c.IsWeighted() {
					op.M = int64(c.WeightedSize())
				} else {
					op.M = int64(c.EstimatedSize())
				}
				rec.Op.M = op.M
			}
			c.SetMaximum(uint64(realMax(op.M)))
		case "GetMaximum":
			m := c.GetMaximum()
			if m == math.MaxUint64 {
				rec.Num = vINF
			} else {
				rec.Num = loggedMax(int64(m))
			}
		case "WeightedSize":
			rec.Num = int64(c.WeightedSize())
		case "EstimatedSize":
			rec.Num = int64(c.EstimatedSize())
		case "IsWeighted":
			rec.Num = int64(b2i(c.IsWeighted()))
		case "CleanUp":
			c.CleanUp()
		case "Advance":
			r.clk.now.Add(op.D * r.cfg.Scale)
		case "Stats":
			// the snapshot is logged with every record
		case "SaveLoad":
			r.saveLoad(&op, &rec)
		default:
			panic("verif: unknown op " + op.Op)
		}
	}()
	sort.Slice(rec.Res, func(a, b int) bool {
		if rec.Res[a].K != rec.Res[b].K {
			return rec.Res[a].K < rec.Res[b].K
		}
		return rec.Res[a].V < rec.Res[b].V
	})
	sort.Slice(rec.RRs, func(a, b int) bool { return rec.RRs[a].K < rec.RRs[b].K })
	rec.Cbs = append([]trCb{}, r.cbs...)
	rec.Loads = append([]trLoad{}, r.loads...)
	rec.Ev = append([]trEv{}, r.ev...)
	rec.St = r.statsVec()
	rec.Now = r.toUnits(r.clk.NowNano())
	rec.Proj = projOf(r, c)
	rec.Est = c.EstimatedSize()
	if g := c.cache.singleflight; g.isInitialized.Load() {
		rec.Infl = g.calls.Size()
	}
	// the projection itself must not have produced deletion events
	if len(r.ev) != len(rec.Ev) {
		rec.Ev = append([]trEv{}, r.ev...)
	}
	return rec
}

func drainRR(ch <-chan RefreshResult[int, int]) []trRR {
	out := []trRR{}
	select {
	case x := <-ch:
		out = append(out, trRR{x.Key, x.Value, errClass(x.Err)})
	case <-time.After(2 * time.Second):
		return out
	}
	select {
	case x := <-ch:
		out = append(out, trRR{x.Key, x.Value, errClass(x.Err)})
	default:
	}
	return out
}

func (r *seqRun) statsVec() []int64 {
	if r.ctr == nil {
		return []int64{0, 0, 0, 0, 0, 0}
	}
	s := r.c.Stats()
	return []int64{int64(s.Hits), int64(s.Misses), int64(s.Evictions), int64(s.EvictionWeight), int64(s.LoadSuccesses), int64(s.LoadFailures)}
}

// saveLoad writes the current cache with SaveCacheTo and reads it with
// LoadCacheFrom into an empty cache of the same configuration whose clock is
// dt units ahead; the target's projection is logged for C19.
func (r *seqRun) saveLoad(op *seqOp, rec *trRec) {
	var buf bytes.Buffer
	if err := SaveCacheTo(r.c, &buf); err != nil {
		rec.Err = "other"
		return
	}
	max2 := realMax(r.cfg.Max)
	if r.cfg.Size != "none" {
		max2 = int64(r.c.GetMaximum())
	}
	if op.Max2 > 0 {
		max2 = realMax(op.Max2)
	}
	clk2 := newManualClock(r.clk.NowNano() + op.Dt*r.cfg.Scale)
	t := Must(r.options(max(max2, 1), clk2, nil, nil))
	defer t.StopAllGoroutines()
	if r.cfg.Size != "none" {
		t.SetMaximum(uint64(max2))
	}
	var src io.Reader = &buf
	if op.Slow > 0 {
		src = &slowReader{r: &buf, at: buf.Len() / 2, f: func() { clk2.now.Add(op.Slow * r.cfg.Scale) }}
	}
	if err := LoadCacheFrom(t, src); err != nil {
		rec.Err = "other"
		return
	}
	t.CleanUp()
	rec.Tgt = projOf(r, t)
	rec.TgtEst = 0
	for range t.All() {
		rec.TgtEst++
	}
	rec.TgtNow = r.toUnits(clk2.NowNano())
	rec.TgtMax = loggedMax(max2)
}

func runSeqScript(sc seqScript, w *bufio.Writer) {
	r := newSeqRun(sc.Cfg)
	defer r.close()
	enc := json.NewEncoder(w)
	cfg := r.cfg
	for _, p := range []*[]int64{&cfg.DC, &cfg.DU, &cfg.DR, &cfg.RC, &cfg.RU, &cfg.RR, &cfg.RF, &cfg.WT} {
		if *p == nil {
			*p = []int64{}
		}
	}
	hdr := trRec{T: "hdr", Cfg: &cfg, Res: []trKV{}, Ents: []trEnt{}, RRs: []trRR{}, Cbs: []trCb{}, Loads: []trLoad{}, Ev: []trEv{}, St: r.statsVec(), Tgt: []trEnt{}}
	hdr.Op.Ks, hdr.Op.Supply = []int{}, []int{}
	hdr.Now = r.toUnits(r.clk.NowNano())
	hdr.Proj = projOf(r, r.c)
	_ = enc.Encode(hdr)
	for i, op := range sc.Ops {
		// every call runs to completion before the next one starts; the helper goroutine only
		// exists so that a call that never returns is reported instead of wedging the driver
		done := make(chan trRec, 1)
		go func() { done <- r.step(i, op) }()
		select {
		case rec := <-done:
			_ = enc.Encode(rec)
			if rec.Infl != 0 {
				return // every later load of those keys would block forever; the leak itself is the finding
			}
		case <-time.After(seqWatchdog):
			rec := trRec{T: "op", I: i, Op: op, Val: -1, Hang: 1, Res: []trKV{}, Ents: []trEnt{}, RRs: []trRR{}, Tgt: []trEnt{},
				Cbs: []trCb{}, Loads: []trLoad{}, Ev: []trEv{}, St: []int64{0, 0, 0, 0, 0, 0}, Proj: []trEnt{}}
			if rec.Op.Ks == nil {
				rec.Op.Ks = []int{}
			}
			if rec.Op.Supply == nil {
				rec.Op.Supply = []int{}
			}
			_ = enc.Encode(rec)
			_ = w.Flush()
			return
		}
	}
}

const seqWatchdog = 10 * time.Second

// TestVerifSeq is the entry point used by /verif/bin/check.
//
//	VERIF_IN   scripts (JSON array of seqScript) to run; if empty they are generated
//	VERIF_OUT  NDJSON trace output
//	VERIF_SEED, VERIF_PROFILE, VERIF_N, VERIF_LEN  generation parameters
func TestVerifSeq(t *testing.T) {
	out := os.Getenv("VERIF_OUT")
	if out == "" {
		t.Skip("VERIF_OUT not set")
	}
	var scripts []seqScript
	if in := os.Getenv("VERIF_IN"); in != "" {
		b, err := os.ReadFile(in)
		if err != nil {
			t.Fatal(err)
		}
		if err := json.Unmarshal(b, &scripts); err != nil {
			t.Fatal(err)
		}
	} else {
		seed, _ := strconv.ParseInt(os.Getenv("VERIF_SEED"), 10, 64)
		n, _ := strconv.Atoi(os.Getenv("VERIF_N"))
		ln, _ := strconv.Atoi(os.Getenv("VERIF_LEN"))
		if n == 0 {
			n = 10
		}
		if ln == 0 {
			ln = 100
		}
		rng := rand.New(rand.NewSource(seed))
		for i := 0; i < n; i++ {
			scripts = append(scripts, genSeqScript(rng, os.Getenv("VERIF_PROFILE"), i, ln))
		}
		if sp := os.Getenv("VERIF_SCRIPTS_OUT"); sp != "" {
			b, _ := json.Marshal(scripts)
			_ = os.WriteFile(sp, b, 0o644)
		}
	}
	f, err := os.Create(out)
	if err != nil {
		t.Fatal(err)
	}
	defer f.Close()
	w := bufio.NewWriterSize(f, 1<<20)
	defer w.Flush()
	for _, sc := range scripts {
		runSeqScript(sc, w)
	}
}
