package otter

// C08 / C09 driver: single-flight loads racing explicit writes, invalidations and evictions under the gate
// scheduler.  The scripted loader is itself a gate (it parks at "ld.enter" and "ld.exit"), as are the lookup, the
// installation computation and the write paths.  The history (call / return of every operation, loader entry /
// exit, installs, atomic deletion events, final contents, leftover in-flight records) is judged by
// spec/LoadHist.tla.

import (
	"github.com/maypok86/otter/v2/stats"
	"sync/atomic"
	"strings"
	"bufio"
	"context"
	"encoding/json"
	"errors"
	"math/rand"
	"os"
	"strconv"
	"sync"
	"testing"
	"time"

	"github.com/maypok86/otter/v2/internal/verifkit"
)

type ldScenario struct {
	Getters    int      `json:"getters"`
	Bulk       int      `json:"bulk"`       // BulkGet callers over keys {1,2}
	Refreshers int      `json:"refreshers"` // Refresh callers
	Writers    []string `json:"writers"`    // set | setifabsent | invalidate | compute | computeinv | evict | invalidateAll
	Preload    int      `json:"preload"`    // 1 = key 1 holds a value before the race (needed for reloads)
	Outcomes   []string `json:"outcomes"`   // loader outcomes drawn per invocation
	Policy     string   `json:"policy"`
	Seed       int64    `json:"seed"`
	Script     []verifkit.Step `json:"script"`
	Refresh    int      `json:"refresh"`    // 1 = refresh configured (RefreshWriting 1h on a frozen clock)
	BulkKeys   int      `json:"bulkkeys"`   // keys requested by a BulkGet caller: 1 = {1}, otherwise {1,2}
	BulkRef    int      `json:"bulkref"`    // BulkRefresh callers over keys {1,2}
	InLoader   []string `json:"inloader"`   // writes performed by the first single-key loader run itself, before it returns
	Expiry     int      `json:"expiry"`     // 1 = ExpiryWriting(1h); the writer kind "advance" moves the clock by 2h
	OutSeq     []string `json:"outseq"`     // outcome of the i-th loader run (script replay of LoadRace.tla behaviours); then Outcomes at random
	HGate      int      `json:"hgate"`      // 1 = the atomic deletion handler is a gate ("h.atomic"): user code inside the table computation
	Stale      int      `json:"stale"`      // 1 = the preloaded entry is due for refresh when the race starts (the clock moved past its refresh time) and the
	                                        // refresh calculator's reload hook is a gate ("rc.reload"): user code that runs while a reload is being installed
	Bare       int      `json:"bare"`       // 1 = a plain cache: no size bound, no expiry, no deletion handlers (fast paths that exist only there)
	Dead       int      `json:"dead"`       // 1 = key 1 holds an EXPIRED value that maintenance has not removed yet when the race starts (needs expiry = 1);
	                                        // the writer kind "sweep" is a maintenance run (CleanUp) that removes such dead nodes: not a write
	Extra      int      `json:"extra"`      // 1 = the bulk loader fetches "the whole page": it also supplies the key of {1,2} it was not asked for
}

type ldEvent struct {
	Seq  int    `json:"seq"`
	G    string `json:"g"`
	T    string `json:"t"` // call | ret | ldenter | ldexit | wcall | wret | A | install
	Op   string `json:"op"`
	K    int    `json:"k"`
	V    int    `json:"v"`
	Err  string `json:"err"`
	Run  int    `json:"run"` // loader run id
}

type ldResult struct {
	T        string     `json:"t"`
	Sc       ldScenario `json:"sc"`
	Diag     string     `json:"diag"`
	Events   []ldEvent  `json:"events"`
	Final    []trKV     `json:"final"`   // visible entries of keys 1,2 at the end
	Inflight int        `json:"inflight"`
	Afresh   int        `json:"afresh"`  // 1 = a Get issued after quiescence on an absent key invoked the loader and returned
	Hung     int        `json:"hung"`
	LoaderRuns    int   `json:"loaderruns"`    // loader invocations (single and bulk) until quiescence
	LoadsRecorded int   `json:"loadsrecorded"` // load successes + failures in the statistics snapshot at that moment
	EmptyBulk     int   `json:"emptybulk"`     // invocations of the bulk loader with an empty key list
	Drift    int        `json:"drift"`   // script steps that could not be followed
	ScriptN  int        `json:"scriptn"`
	Dropped  []verifkit.Step `json:"dropped"`
	Log      []string   `json:"log"`
}

var ldPoints = map[string]bool{
	"get.afterLookup": true, "ld.enter": true, "ld.exit": true, "ld.beforeInstall": true, "ld.afterInstall": true,
	"set.afterCompute": true, "inv.afterCompute": true, "cmp.afterCompute": true, "ev.beforeDelete": true, "db.enter": true,
	"cp.lock": true, "h.atomic": true, "exec.start": true, "rc.reload": true,
}

var errLdScripted = errors.New("verif: scripted failure")

func runLoadScenario(sc ldScenario) ldResult {
	// JSON null is not a TLA+ value: echo empty lists, never nil
	if sc.OutSeq == nil {
		sc.OutSeq = []string{}
	}
	if sc.InLoader == nil {
		sc.InLoader = []string{}
	}
	if sc.Writers == nil {
		sc.Writers = []string{}
	}
	if sc.Outcomes == nil {
		sc.Outcomes = []string{"val"}
	}
	if sc.Script == nil {
		sc.Script = []verifkit.Step{}
	}
	res := ldResult{T: "ld", Sc: sc, Events: []ldEvent{}, Final: []trKV{}, Dropped: []verifkit.Step{}}
	var mu sync.Mutex
	s := verifkit.NewSched(sc.Seed)
	s.Adopt = true
	s.Policy = sc.Policy
	s.Script = append([]verifkit.Step{}, sc.Script...)
	s.Filter = func(id string) bool { return ldPoints[id] }
	if sc.Policy == "script" {
		s.Transparent = map[string]bool{"cp.lock": true} // bucket locks of the cache table and of the in-flight table
		s.StepTimeout = 15 * time.Millisecond // a scripted step waits for the released goroutine itself; only a blocked one runs into this
	}
	if i := strings.Index(sc.Policy, "+"); i >= 0 {
		target := map[string]string{"+inflight": "ld.exit", "+atinstall": "ld.beforeInstall", "+atcalc": "rc.reload"}[sc.Policy[i:]]
		sc.Policy = sc.Policy[:i]
		// bias towards the window C09 is about: first let a load get in flight (a goroutine parked inside the loader),
		// then let the writers run to completion while it is parked, then continue with the base policy
		// ("+atinstall": the loader has returned and its result is about to be installed)
		s.Policy = sc.Policy
		lateWaits := 0
		s.Choose = func(parked []*verifkit.G, rnd *rand.Rand) *verifkit.G {
			if rnd.Intn(10) == 0 {
				return nil
			}
			inLoader := false
			var ws, others []*verifkit.G
			// one caller arrives late: it is CALLED only after a flight has reached the target window (a Get called after
			// the waiters of a failed load were released must load afresh)
			late := ""
			if sc.Getters >= 3 {
				late = "g" + strconv.Itoa(sc.Getters)
			}
			for _, g := range parked {
				if g.At == target {
					inLoader = true
				}
			}
			for _, g := range parked {
				if !inLoader && g.Name == late && g.At == "start" {
					continue
				}
				if g.At == target {
					inLoader = true
					continue
				}
				if strings.HasPrefix(g.Name, "w") {
					ws = append(ws, g)
				} else {
					others = append(others, g)
				}
			}
			if !inLoader {
				if len(others) > 0 {
					return others[rnd.Intn(len(others))]
				}
				return nil
			}
			if late != "" && len(ws) == 0 && lateWaits < 40 {
				// before the late caller is called, let the callers that are running (released waiters) return
				for _, g := range parked {
					if g.Name == late && g.At == "start" && len(s.RunningNamedLocked()) > 0 {
						lateWaits++
						return verifkit.Wait
					}
				}
			}
			if len(ws) > 0 {
				return ws[rnd.Intn(len(ws))]
			}
			// writers are done (or running maintenance through adopted goroutines): anything but the loader first
			if len(others) > 0 && rnd.Intn(4) != 0 {
				return others[rnd.Intn(len(others))]
			}
			return nil
		}
	}
	note := func(e ldEvent) {
		mu.Lock()
		e.Seq = s.Note(e.T, 0, nil)
		e.G = s.Name()
		res.Events = append(res.Events, e)
		mu.Unlock()
	}
	var c *Cache[int, int]
	clk := newManualClock(1_000_000_000)
	o := &Options[int, int]{
		MaximumSize: 10,
		Clock:       clk,
		Logger:      nopLogger{},
		OnAtomicDeletion: func(e DeletionEvent[int, int]) {
			note(ldEvent{T: "A", K: e.Key, V: e.Value, Err: e.Cause.String()})
			if sc.HGate == 1 {
				// the handler runs inside the key's table computation: the removal is published only after it returns
				s.Point("h.atomic", 0)
				note(ldEvent{T: "hret", K: e.Key, V: e.Value, Err: e.Cause.String()})
			}
		},
	}
	if sc.Bare == 1 {
		o.MaximumSize = 0
		o.OnAtomicDeletion = nil
	}
	ctrLd := stats.NewCounter()
	o.StatsRecorder = ctrLd
	if sc.Refresh == 1 {
		o.RefreshCalculator = RefreshWriting[int, int](time.Hour)
		if sc.Stale == 1 {
			o.RefreshCalculator = ldRefreshCalc{reload: func() { s.Point("rc.reload", 0) }}
		}
	}
	if sc.Expiry == 1 {
		o.ExpiryCalculator = ExpiryWriting[int, int](time.Hour)
	}
	// asynchronous like the default executor, but a panicking reload must not take the test process down
	var execN atomic.Int64
	var namedOnce sync.Map
	o.Executor = func(fn func()) {
		execN.Add(1)
		// the first task handed over by a Refresh caller is its reload: a managed goroutine with a stable name ("x" + caller),
		// parked at the virtual point "start" until scheduled - the step "start" of a refresher in LoadRace.tla
		if caller := s.Name(); strings.HasPrefix(caller, "r") || strings.HasPrefix(caller, "q") {
			if _, dup := namedOnce.LoadOrStore(caller, true); !dup {
				s.Go("x"+caller, func() {
					defer execN.Add(-1)
					defer func() { _ = recover() }()
					fn()
				})
				return
			}
		}
		go func() {
			defer execN.Add(-1)
			defer func() { _ = recover() }()
			// a task handed to the executor starts when the executor gets round to it: a gate (the step "start" of a
			// refresher in LoadRace.tla is the registration done by this goroutine)
			s.Point("exec.start", 0)
			fn()
		}()
	}
	c = Must(o)
	defer c.StopAllGoroutines()
	if sc.Preload == 1 {
		c.Set(1, 50)
		c.CleanUp()
		// the goroutines of the preload must be gone before the scheduler starts adopting (names x1, x2, ... are scripted)
		for i := 0; i < 2000 && execN.Load() != 0; i++ {
			time.Sleep(100 * time.Microsecond)
		}
		if sc.Stale == 1 {
			clk.now.Add(int64(2 * time.Hour)) // due for refresh (nothing expires in these scenarios)
		}
	}
	if sc.Dead == 1 {
		// an expired entry that no maintenance run has removed yet: lookups miss, the node is still in the table and in the wheel
		c.Set(1, 40)
		c.CleanUp()
		for i := 0; i < 2000 && execN.Load() != 0; i++ {
			time.Sleep(100 * time.Microsecond)
		}
		clk.now.Add(int64(2 * time.Hour))
	}
	runs := 0
	rng := rand.New(rand.NewSource(sc.Seed * 977))
	pickOutcome := func(id int) string {
		mu.Lock()
		defer mu.Unlock()
		if id-1 < len(sc.OutSeq) {
			return sc.OutSeq[id-1]
		}
		return sc.Outcomes[rng.Intn(len(sc.Outcomes))]
	}
	newRun := func() int {
		mu.Lock()
		defer mu.Unlock()
		runs++
		return runs
	}
	doWrite := func(kind string, wv int) {
		note(ldEvent{T: "wcall", Op: kind, K: 1, V: wv})
		switch kind {
		case "set":
			c.Set(1, wv)
		case "setifabsent":
			if _, ok := c.SetIfAbsent(1, wv); !ok {
				kind = "setifabsent-noop"
			}
		case "invalidate":
			c.Invalidate(1)
		case "compute":
			c.Compute(1, func(old int, found bool) (int, ComputeOp) { return wv, WriteOp })
		case "computeinv":
			c.Compute(1, func(old int, found bool) (int, ComputeOp) { return 0, InvalidateOp })
		case "evict":
			c.SetMaximum(0)
			c.SetMaximum(10)
		case "invalidateAll":
			c.InvalidateAll()
		case "computecancel":
			// a computation that decides to do nothing: no write, nothing cleared
			c.Compute(1, func(old int, found bool) (int, ComputeOp) { return 0, CancelOp })
		case "sweep":
			c.CleanUp() // not a write: a maintenance run; it removes the nodes of entries that have expired
		case "advance":
			clk.now.Add(int64(2 * time.Hour)) // not a write: entries written before it expire (unswept)
		}
		note(ldEvent{T: "wret", Op: kind, K: 1, V: wv})
	}
	single := func(fn string) func(ctx context.Context, k int) (int, error) {
		return func(ctx context.Context, k int) (int, error) {
			id := newRun()
			oc := pickOutcome(id)
			note(ldEvent{T: "ldenter", Op: fn, K: k, Run: id})
			s.Point("ld.enter", uint64(id))
			if id == 1 {
				for i, kind := range sc.InLoader {
					doWrite(kind, 600+i)
				}
			}
			s.Point("ld.exit", uint64(id))
			v := 1000 + id
			switch oc {
			case "val":
				note(ldEvent{T: "ldexit", Op: fn, K: k, V: v, Run: id})
				return v, nil
			case "err":
				note(ldEvent{T: "ldexit", Op: fn, K: k, V: v, Err: "err", Run: id})
				return v, errLdScripted
			case "nf":
				note(ldEvent{T: "ldexit", Op: fn, K: k, Err: "nf", Run: id})
				return 0, ErrNotFound
			default:
				note(ldEvent{T: "ldexit", Op: fn, K: k, Err: "panic", Run: id})
				panic("verif: scripted loader panic")
			}
		}
	}
	loader := ldLoader{load: single("Load"), reload: single("Reload"), onReload: func(k, old int) {
		note(ldEvent{T: "reloadof", Op: "Reload", K: k, V: old})
	}}
	bulk := BulkLoaderFunc[int, int](func(ctx context.Context, keys []int) (map[int]int, error) {
		id := newRun()
		oc := pickOutcome(id)
		if len(keys) == 0 {
			mu.Lock()
			res.EmptyBulk++
			mu.Unlock()
		}
		for _, k := range keys {
			note(ldEvent{T: "ldenter", Op: "BulkLoad", K: k, Run: id})
		}
		s.Point("ld.enter", uint64(id))
		s.Point("ld.exit", uint64(id))
		m := map[int]int{}
		for _, k := range keys {
			v := 1000 + id*10 + k
			switch oc {
			case "val":
				m[k] = v
				note(ldEvent{T: "ldexit", Op: "BulkLoad", K: k, V: v, Run: id})
			case "nf":
				note(ldEvent{T: "ldexit", Op: "BulkLoad", K: k, Err: "nf", Run: id})
			default:
				note(ldEvent{T: "ldexit", Op: "BulkLoad", K: k, Err: oc, Run: id})
			}
		}
		if sc.Extra == 1 && oc == "val" {
			for _, k := range []int{1, 2} {
				if _, asked := m[k]; !asked {
					v := 1000 + id*10 + k + 5
					m[k] = v // volunteered: may be cached, is never handed to this run's caller
					note(ldEvent{T: "ldexit", Op: "BulkLoad", K: k, V: v, Err: "vol", Run: id})
				}
			}
		}
		switch oc {
		case "err":
			return nil, errLdScripted
		case "panic":
			panic("verif: scripted bulk loader panic")
		}
		return m, nil
	})
	ctx := context.Background()
	guard := func(name string, fn func()) func() {
		return func() {
			defer func() {
				if p := recover(); p != nil {
					note(ldEvent{T: "ret", Op: name, K: 1, Err: "panic"})
				}
			}()
			fn()
		}
	}
	for i := 1; i <= sc.Getters; i++ {
		s.Go("g"+strconv.Itoa(i), guard("Get", func() {
			note(ldEvent{T: "call", Op: "Get", K: 1})
			v, err := c.Get(ctx, 1, loader)
			note(ldEvent{T: "ret", Op: "Get", K: 1, V: v, Err: errClassLd(err)})
			if err == nil {
				// what the cache holds right after the call returned a loaded (or cached) value
				pv, ok := c.GetIfPresent(1)
				e := ""
				if !ok {
					e = "miss"
				}
				note(ldEvent{T: "post", Op: "Get", K: 1, V: pv, Err: e})
			}
		}))
	}
	for i := 1; i <= sc.Bulk; i++ {
		s.Go("b"+strconv.Itoa(i), guard("BulkGet", func() {
			note(ldEvent{T: "call", Op: "BulkGet", K: 1})
			req := []int{1, 2}
			if sc.BulkKeys == 1 {
				req = []int{1}
			}
			m, err := c.BulkGet(ctx, req, bulk)
			for _, k := range req {
				v, ok := m[k]
				e := errClassLd(err)
				if !ok && e == "" {
					e = "absent"
				}
				note(ldEvent{T: "ret", Op: "BulkGet", K: k, V: v, Err: e})
			}
		}))
	}
	var lateRefresh []<-chan RefreshResult[int, int]
	for i := 1; i <= sc.Refreshers; i++ {
		s.Go("r"+strconv.Itoa(i), guard("Refresh", func() {
			note(ldEvent{T: "call", Op: "Refresh", K: 1})
			ch := c.Refresh(ctx, 1, loader)
			if ch == nil {
				note(ldEvent{T: "ret", Op: "Refresh", K: 1, Err: "nochan"})
				return
			}
			select {
			case r := <-ch:
				note(ldEvent{T: "ret", Op: "Refresh", K: 1, V: r.Value, Err: errClassLd(r.Err)})
				if r.Err == nil {
					pv, ok := c.GetIfPresent(1)
					e := ""
					if !ok {
						e = "miss"
					}
					note(ldEvent{T: "post", Op: "Refresh", K: 1, V: pv, Err: e})
				}
			case <-time.After(2 * time.Second):
				// not a verdict yet: on a starved machine the reload may merely be slow; the channel is looked at again after
				// the scheduler has finished and every gate is open (lateRefresh)
				mu.Lock()
				lateRefresh = append(lateRefresh, ch)
				mu.Unlock()
			}
		}))
	}
	for i, kind := range sc.Writers {
		kind := kind
		wv := 500 + i
		s.Go("w"+strconv.Itoa(i+1), func() { doWrite(kind, wv) })
	}
	for i := 1; i <= sc.BulkRef; i++ {
		s.Go("q"+strconv.Itoa(i), guard("BulkRefresh", func() {
			note(ldEvent{T: "call", Op: "BulkRefresh", K: 1})
			ch := c.BulkRefresh(ctx, []int{1, 2}, bulk)
			if ch == nil {
				note(ldEvent{T: "ret", Op: "BulkRefresh", K: 1, Err: "nochan"})
				return
			}
			select {
			case rs := <-ch:
				seen := map[int]bool{}
				for _, r := range rs {
					seen[r.Key] = true
					note(ldEvent{T: "ret", Op: "BulkRefresh", K: r.Key, V: r.Value, Err: errClassLd(r.Err)})
				}
				if !seen[1] {
					note(ldEvent{T: "ret", Op: "BulkRefresh", K: 1, Err: "absent"})
				}
			case <-time.After(3 * time.Second):
				note(ldEvent{T: "ret", Op: "BulkRefresh", K: 1, Err: "timeout"})
			}
		}))
	}
	res.ScriptN = len(sc.Script)
	res.Diag = s.Run()
	res.Drift = s.Drift
	res.Dropped = append([]verifkit.Step{}, s.Dropped...)
	res.Log = []string{}
	if os.Getenv("VERIF_KEEPLOG") == "1" {
		for _, ev := range s.Log {
			res.Log = append(res.Log, ev.G+"@"+ev.At)
		}
	}
	if res.Diag != "" && res.Diag != "step limit" && !strings.HasPrefix(res.Diag, "panic") && s.WaitDone(5*time.Second) {
		res.Diag = ""
	}
	mu.Lock()
	late := append([]<-chan RefreshResult[int, int]{}, lateRefresh...)
	mu.Unlock()
	for _, ch := range late {
		select {
		case r := <-ch:
			note(ldEvent{T: "ret", Op: "Refresh", K: 1, V: r.Value, Err: errClassLd(r.Err)})
		case <-time.After(5 * time.Second):
			note(ldEvent{T: "ret", Op: "Refresh", K: 1, Err: "timeout"})
		}
	}
	// Run may give up while goroutines are merely slow (loaded machine): a call counts as hung only if it
	// has still not returned after a generous wait with every gate open
	for wait := 0; wait < 1500; wait++ {
		mu.Lock()
		nc, nr := 0, 0
		for _, e := range res.Events {
			switch e.T {
			case "call", "wcall":
				nc++
			case "ret", "wret":
				if (e.Op != "BulkGet" && e.Op != "BulkRefresh") || e.K == 1 {
					nr++
				}
			}
		}
		mu.Unlock()
		if nr >= nc {
			break
		}
		time.Sleep(2 * time.Millisecond)
	}
	time.Sleep(3 * time.Millisecond)
	mu.Lock()
	defer mu.Unlock()
	for _, ev := range s.Log {
		if ev.At == "ld.afterInstall" {
			res.Events = append(res.Events, ldEvent{Seq: ev.Seq, G: ev.G, T: "install"})
		}
	}
	for k := 1; k <= 2; k++ {
		if e, ok := c.GetEntryQuietly(k); ok {
			res.Final = append(res.Final, trKV{k, e.Value})
		}
	}
	if g := c.cache.singleflight; g.isInitialized.Load() {
		res.Inflight = g.calls.Size()
	}
	res.LoaderRuns = runs
	res.LoadsRecorded = int(ctrLd.Snapshot().Loads())
	mu.Unlock()
	defer mu.Lock()
	// a later Get loads afresh
	if res.Inflight == 0 {
		c.Invalidate(1)
		called := false
		done := make(chan struct{})
		go func() {
			defer close(done)
			v, err := c.Get(ctx, 1, LoaderFunc[int, int](func(ctx context.Context, k int) (int, error) { called = true; return 7777, nil }))
			if err == nil && v == 7777 && called {
				res.Afresh = 1
			}
		}()
		select {
		case <-done:
		case <-time.After(2 * time.Second):
			res.Hung = 1
		}
	}
	return res
}

type ldLoader struct {
	load   func(ctx context.Context, k int) (int, error)
	reload func(ctx context.Context, k int) (int, error)
	// onReload is told the value a reload starts from
	onReload func(k, old int)
}

func (l ldLoader) Load(ctx context.Context, k int) (int, error) { return l.load(ctx, k) }
func (l ldLoader) Reload(ctx context.Context, k int, old int) (int, error) {
	if l.onReload != nil {
		l.onReload(k, old)
	}
	return l.reload(ctx, k)
}

// ldRefreshCalc: RefreshWriting(1h) whose reload hook is user code the scheduler can park
type ldRefreshCalc struct{ reload func() }

func (ldRefreshCalc) RefreshAfterCreate(Entry[int, int]) time.Duration      { return time.Hour }
func (ldRefreshCalc) RefreshAfterUpdate(Entry[int, int], int) time.Duration { return time.Hour }
func (c ldRefreshCalc) RefreshAfterReload(Entry[int, int], int) time.Duration {
	c.reload()
	return time.Hour
}
func (ldRefreshCalc) RefreshAfterReloadFailure(e Entry[int, int], _ error) time.Duration {
	return e.RefreshableAfter()
}

func errClassLd(err error) string {
	switch {
	case err == nil:
		return ""
	case errors.Is(err, ErrNotFound):
		return "nf"
	case errors.Is(err, errLdScripted):
		return "err"
	default:
		return "other"
	}
}

// TestVerifLoad: VERIF_IN = JSON array of scenarios; VERIF_OUT = NDJSON histories.
func TestVerifLoad(t *testing.T) {
	out := os.Getenv("VERIF_OUT")
	if out == "" {
		t.Skip("VERIF_OUT not set")
	}
	b, err := os.ReadFile(os.Getenv("VERIF_IN"))
	if err != nil {
		t.Fatal(err)
	}
	var scs []ldScenario
	if err := json.Unmarshal(b, &scs); err != nil {
		t.Fatal(err)
	}
	f, err := os.Create(out)
	if err != nil {
		t.Fatal(err)
	}
	defer f.Close()
	w := bufio.NewWriter(f)
	defer w.Flush()
	enc := json.NewEncoder(w)
	for _, sc := range scs {
		r := runLoadScenario(sc)
		_ = enc.Encode(r)
		if strings.HasPrefix(r.Diag, "panic") || strings.HasPrefix(r.Diag, "hang") {
			break
		}
	}
}
