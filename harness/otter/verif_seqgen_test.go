package otter

// Seeded generator of sequential operation scripts (see verif_seq_test.go).
// Profiles bias the operation mix towards the states a property is about;
// every profile can produce every operation, so one spec validates them all.

import (
	"math/rand"
)

type seqGen struct {
	rng  *rand.Rand
	cfg  seqCfg
	next int
	prof string
}

var seqLayouts = []struct {
	size string
	e, r bool
}{
	{"none", false, false}, {"none", true, false}, {"none", true, true}, {"weight", true, true},
	{"weight", true, false}, {"none", false, true}, {"weight", false, true}, {"count", false, false},
	{"count", true, false}, {"count", true, true}, {"count", false, true}, {"weight", false, false},
}

func pick[T any](rng *rand.Rand, xs ...T) T { return xs[rng.Intn(len(xs))] }

func (g *seqGen) durTable(n int, zeroOK bool, infOK bool) []int64 {
	t := make([]int64, n)
	for i := range t {
		switch x := g.rng.Intn(10); {
		case x == 0 && zeroOK:
			t[i] = 0
		case x == 1 && infOK:
			t[i] = vINF
		case x == 2 && zeroOK:
			t[i] = 0
		default:
			t[i] = int64(1 + g.rng.Intn(6))
		}
	}
	return t
}

func genSeqCfg(rng *rand.Rand, prof string, idx int) seqCfg {
	g := &seqGen{rng: rng}
	lay := seqLayouts[idx%len(seqLayouts)]
	cfg := seqCfg{Size: lay.size, Expiry: "none", Refresh: "none", Stats: 1}
	switch prof {
	case "expiry", "deadline", "sweep":
		// force an expiring layout
		for !lay.e {
			lay = seqLayouts[rng.Intn(len(seqLayouts))]
		}
		cfg.Size = lay.size
	case "size":
		for lay.size == "none" && rng.Intn(8) != 0 {
			lay = seqLayouts[rng.Intn(len(seqLayouts))]
		}
		cfg.Size = lay.size
	case "load":
		if rng.Intn(3) != 0 {
			for !lay.r {
				lay = seqLayouts[rng.Intn(len(seqLayouts))]
			}
			cfg.Size = lay.size
		}
	}
	cfg.NK = 4 + rng.Intn(5)
	cfg.Scale = pick(rng, int64(1), int64(1)<<10, int64(1)<<20, int64(1)<<30, int64(1)<<30)
	if prof == "sweep" {
		cfg.Scale = pick(rng, int64(1)<<28, int64(1)<<30, int64(1)<<30, int64(1)<<20)
	}
	cfg.T0 = pick(rng, int64(1), int64(1), int64(7), int64(1000), int64(123456))
	cfg.InitCap = pick(rng, 0, 0, 1, 64, 1000)
	switch cfg.Size {
	case "count":
		cfg.Max = int64(1 + rng.Intn(cfg.NK+2))
	case "weight":
		n := 3 + rng.Intn(5)
		cfg.WT = make([]int64, n)
		for i := range cfg.WT {
			cfg.WT[i] = pick(rng, int64(0), int64(1), int64(1), int64(2), int64(3), int64(5))
		}
		cfg.Max = int64(2 + rng.Intn(12))
		if rng.Intn(6) == 0 {
			cfg.WT[rng.Intn(n)] = cfg.Max + 1 + int64(rng.Intn(3)) // an entry heavier than the maximum
		}
	}
	if cfg.Size != "none" && (prof == "size" || prof == "mix") && rng.Intn(5) == 0 {
		cfg.Max += hugeLog // a maximum of 2^32 + k (logged as 2^30 + k): nothing is ever evicted for size
	}
	if lay.e {
		cfg.Expiry = pick(rng, "creating", "writing", "accessing", "custom")
		cfg.E = int64(1 + rng.Intn(6))
		if prof == "deadline" && rng.Intn(4) == 0 {
			cfg.E = vINF
		}
		if prof == "sweep" {
			cfg.E = pick(rng, int64(1), int64(2), int64(3), int64(70), int64(5000), int64(90000), int64(700000))
		}
		if cfg.Expiry == "custom" {
			n := 3 + rng.Intn(4)
			g.rng = rng
			cfg.DC = g.durTable(n, false, prof == "deadline")
			cfg.DU = g.durTable(n, true, prof == "deadline")
			cfg.DR = g.durTable(n, true, false)
			if prof == "sweep" {
				for i := range cfg.DC {
					cfg.DC[i] = pick(rng, int64(1), int64(3), int64(65), int64(4100), int64(90000), int64(400000))
				}
			}
		}
	}
	if lay.r {
		cfg.Refresh = pick(rng, "creating", "writing", "custom")
		cfg.R = int64(1 + rng.Intn(4))
		if (prof == "deadline" || prof == "persist") && rng.Intn(4) == 0 {
			cfg.R = vINF // entries that are never due for refresh (saved as such, restored as such whatever the clock does meanwhile)
		}
		if cfg.Refresh == "custom" {
			n := 3 + rng.Intn(4)
			g.rng = rng
			cfg.RC = g.durTable(n, false, prof == "deadline" || prof == "persist")
			cfg.RU = g.durTable(n, true, false)
			cfg.RR = g.durTable(n, true, false)
			cfg.RF = g.durTable(n, true, false)
		}
	}
	if prof == "deadline" && rng.Intn(5) == 0 {
		cfg.RealClk = 1
	}
	return cfg
}

func (g *seqGen) val() int { g.next++; return g.next }
func (g *seqGen) key() int { return g.rng.Intn(g.cfg.NK) }
func (g *seqGen) how() string {
	if g.rng.Intn(40) == 0 {
		return "panic"
	}
	return pick(g.rng, "write", "write", "inv", "cancel")
}

func (g *seqGen) keys() []int {
	n := 1 + g.rng.Intn(4)
	ks := make([]int, n)
	for i := range ks {
		ks[i] = g.key()
	}
	if g.rng.Intn(5) == 0 {
		ks = append(ks, ks[0]) // duplicate
	}
	return ks
}

func (g *seqGen) supply(req []int) []int {
	s := []int{}
	switch g.rng.Intn(6) {
	case 0: // full
		s = append(s, req...)
	case 1: // empty
	case 2: // partial
		for _, k := range req {
			if g.rng.Intn(2) == 0 {
				s = append(s, k)
			}
		}
	case 3: // full + extras
		s = append(s, req...)
		s = append(s, g.key(), g.key())
	default: // arbitrary
		for k := 0; k < g.cfg.NK; k++ {
			if g.rng.Intn(2) == 0 {
				s = append(s, k)
			}
		}
	}
	// distinct
	seen := map[int]bool{}
	out := []int{}
	for _, k := range s {
		if !seen[k] {
			seen[k] = true
			out = append(out, k)
		}
	}
	return out
}

func (g *seqGen) dur() (int64, string) {
	if g.prof == "deadline" || g.rng.Intn(25) == 0 {
		switch g.rng.Intn(8) {
		case 0:
			return vINF, "max"
		case 1:
			return vINF, "maxmnow"
		case 2:
			return vINF, "maxmnow+1"
		case 3:
			return vINF, "maxmnow-1"
		}
	}
	if g.rng.Intn(12) == 0 {
		return 0, ""
	}
	return int64(1 + g.rng.Intn(6)), ""
}

type wop struct {
	w  int
	op string
}

func (g *seqGen) table() []wop {
	base := []wop{
		{10, "Set"}, {4, "SetIfAbsent"}, {8, "GetIfPresent"}, {3, "GetEntry"}, {2, "GetEntryQuietly"},
		{5, "Compute"}, {3, "ComputeIfAbsent"}, {3, "ComputeIfPresent"}, {5, "Invalidate"}, {1, "InvalidateAll"},
		{2, "SetExpiresAfter"}, {2, "SetRefreshableAfter"}, {5, "Get"}, {4, "BulkGet"}, {2, "Refresh"}, {2, "BulkRefresh"},
		{2, "All"}, {1, "Keys"}, {1, "Values"}, {1, "Hottest"}, {1, "Coldest"},
		{1, "SetMaximum"}, {1, "GetMaximum"}, {1, "WeightedSize"}, {1, "EstimatedSize"}, {1, "IsWeighted"},
		{3, "CleanUp"}, {8, "Advance"}, {1, "SaveLoad"},
	}
	bump := func(names map[string]int) {
		for i := range base {
			if f, ok := names[base[i].op]; ok {
				base[i].w *= f
			}
		}
	}
	switch g.prof {
	case "expiry":
		bump(map[string]int{"Advance": 2, "SetExpiresAfter": 3, "SetRefreshableAfter": 2, "Invalidate": 2, "SetIfAbsent": 2, "All": 2, "Hottest": 2, "Coldest": 2, "SaveLoad": 2})
		bump(map[string]int{"CleanUp": 0})
	case "size":
		bump(map[string]int{"Set": 3, "SetMaximum": 4, "Compute": 2, "WeightedSize": 2, "CleanUp": 2, "Hottest": 2})
	case "load":
		bump(map[string]int{"Get": 4, "BulkGet": 5, "Refresh": 4, "BulkRefresh": 4, "Advance": 2})
	case "deadline":
		bump(map[string]int{"SetExpiresAfter": 5, "SetRefreshableAfter": 5, "GetEntry": 3, "Set": 2})
	case "sweep":
		bump(map[string]int{"Advance": 3, "CleanUp": 5, "Set": 2, "SetExpiresAfter": 3, "GetIfPresent": 2})
	case "persist":
		bump(map[string]int{"SaveLoad": 12, "Set": 2, "Advance": 2, "SetMaximum": 5})
	case "stats":
		bump(map[string]int{"Get": 2, "BulkGet": 3, "Compute": 2, "ComputeIfAbsent": 2, "ComputeIfPresent": 2, "GetEntryQuietly": 2, "Refresh": 2})
	}
	return base
}

func (g *seqGen) genOp() seqOp {
	tb := g.table()
	tot := 0
	for _, x := range tb {
		tot += x.w
	}
	n := g.rng.Intn(tot)
	name := ""
	for _, x := range tb {
		if n < x.w {
			name = x.op
			break
		}
		n -= x.w
	}
	op := seqOp{Op: name, K: g.key(), Ks: []int{}, Supply: []int{}}
	switch name {
	case "Set", "SetIfAbsent":
		op.V = g.val()
	case "Compute":
		op.V, op.IfFound, op.IfAbsent = g.val(), g.how(), g.how()
	case "ComputeIfAbsent":
		op.V, op.IfAbsent = g.val(), pick(g.rng, "write", "write", "write", "cancel")
		if g.rng.Intn(40) == 0 {
			op.IfAbsent = "panic"
		}
	case "ComputeIfPresent":
		op.V, op.IfFound = g.val(), g.how()
	case "SetExpiresAfter", "SetRefreshableAfter":
		op.D, op.DK = g.dur()
	case "Get", "Refresh":
		if g.rng.Intn(6) == 0 {
			op.CC = 1
		}
		op.V = g.val()
		op.Ld = pick(g.rng, "val", "val", "val", "err", "nf", "nfw")
		if g.rng.Intn(30) == 0 {
			op.Ld = "panic"
		}
		g.adv(&op)
	case "BulkGet", "BulkRefresh":
		if g.rng.Intn(6) == 0 {
			op.CC = 1
		}
		op.V = g.val()
		g.next += 2 * g.cfg.NK // bulk values are op.V + key (+ NK for the second loader invocation of the call)
		op.Ks = g.keys()
		op.Supply = g.supply(op.Ks)
		op.Shape = pick(g.rng, "map", "map", "map", "map", "nil", "err", "errnf")
		if g.rng.Intn(30) == 0 {
			op.Shape = "panic"
		}
		g.adv(&op)
	case "SetMaximum":
		if g.cfg.Max >= hugeLog {
			op.M = hugeLog + int64(g.rng.Intn(int(g.cfg.Max-hugeLog)+4))
			if g.rng.Intn(6) == 0 {
				op.M -= hugeLog // back to a small maximum
			}
		} else {
			op.M = int64(g.rng.Intn(int(g.cfg.Max) + 4))
		}
		if (g.prof == "persist" || g.prof == "size") && g.rng.Intn(3) == 0 {
			op.DK = "fit" // exactly full: resolved by the driver at run time
		}
	case "Advance":
		switch g.rng.Intn(10) {
		case 0:
			op.D = int64(5 + g.rng.Intn(10))
		case 1:
			if g.prof == "sweep" {
				op.D = pick(g.rng, int64(64), int64(100), int64(4096), int64(70000), int64(300000))
			} else {
				op.D = int64(1 + g.rng.Intn(3))
			}
		default:
			op.D = int64(1 + g.rng.Intn(3))
		}
	case "SaveLoad":
		op.Dt = pick(g.rng, int64(0), int64(0), int64(1), int64(2), int64(3), int64(5), int64(9))
		switch g.rng.Intn(4) {
		case 0:
			op.Max2 = 0
		case 1:
			op.Max2 = int64(1 + g.rng.Intn(3))
		case 2:
			op.Max2 = g.cfg.Max + int64(1+g.rng.Intn(5))
		}
		if g.cfg.Size == "none" {
			op.Max2 = 0
		}
		if g.rng.Intn(3) == 0 {
			op.Slow = pick(g.rng, int64(1), int64(2), int64(3), int64(6))
		}
	}
	return op
}

func genSeqScript(rng *rand.Rand, prof string, idx, ln int) seqScript {
	if prof == "" {
		prof = "mix"
	}
	g := &seqGen{rng: rng, prof: prof}
	g.cfg = genSeqCfg(rng, prof, idx)
	sc := seqScript{Cfg: g.cfg}
	total := int64(0)
	motifAt := -1
	if g.cfg.Size == "count" && g.cfg.Expiry != "none" && rng.Intn(2) == 0 && ln > 20 {
		motifAt = rng.Intn(ln - 10)
	}
	// motif "slow bulk load over expired, unswept entries" (finding F24): every key is written with a lifetime of one unit, the deadline passes
	// without a maintenance run, and a BulkGet of all keys is served by a loader that takes more than two timer ticks: the maintenance that
	// follows the first installation sweeps the dead nodes of the other keys while their loads are still registered
	slowAt := -1
	if g.cfg.Expiry != "none" && g.cfg.Scale >= (1<<20) && rng.Intn(2) == 0 && ln > 20 {
		slowAt = rng.Intn(ln - 10)
	}
	// motif "full stripe, then a shortened deadline": sixteen recorded reads fill the (single) stripe of the lossy read buffer, the next event -
	// that of a SetExpiresAfter which SHORTENS a deadline - is the one that gets dropped; the deadline passes by more than two timer ticks and
	// maintenance runs: the entry must be gone and reported (C13), whatever the read buffer dropped (C17: "dropping reads never changes what any
	// cache operation returns")
	fullAt := -1
	if g.cfg.Expiry != "none" && g.cfg.NK >= 2 && g.cfg.Scale >= (1<<20) && rng.Intn(2) == 0 && ln > 20 {
		fullAt = rng.Intn(ln - 10)
	}
	for i := 0; i < ln; i++ {
		if i == fullAt {
			k := g.key()
			k2 := (k + 1) % g.cfg.NK // the recorded reads are reads of ANOTHER entry (replaying a read of the same node would move its timer anyway)
			sc.Ops = append(sc.Ops, seqOp{Op: "SetMaximum", M: int64(g.cfg.NK), Ks: []int{}, Supply: []int{}},
				seqOp{Op: "Set", K: k, V: g.val(), Ks: []int{}, Supply: []int{}},
				seqOp{Op: "SetExpiresAfter", K: k, D: 1 << 18, Ks: []int{}, Supply: []int{}},
				seqOp{Op: "Set", K: k2, V: g.val(), Ks: []int{}, Supply: []int{}},
				seqOp{Op: "SetExpiresAfter", K: k2, D: 1 << 18, Ks: []int{}, Supply: []int{}},
				seqOp{Op: "CleanUp", Ks: []int{}, Supply: []int{}})
			for j := 0; j < 16; j++ {
				sc.Ops = append(sc.Ops, seqOp{Op: "GetIfPresent", K: k2, Ks: []int{}, Supply: []int{}})
			}
			adv := (int64(3) << 30) / g.cfg.Scale
			if adv < 3 {
				adv = 3
			}
			sc.Ops = append(sc.Ops, seqOp{Op: "SetExpiresAfter", K: k, D: 1, Ks: []int{}, Supply: []int{}},
				seqOp{Op: "Advance", D: adv, Ks: []int{}, Supply: []int{}},
				seqOp{Op: "CleanUp", Ks: []int{}, Supply: []int{}},
				seqOp{Op: "EstimatedSize", Ks: []int{}, Supply: []int{}})
			total += adv
		}
		if i == slowAt {
			all := []int{}
			for j := 0; j < g.cfg.NK; j++ {
				all = append(all, j)
				sc.Ops = append(sc.Ops, seqOp{Op: "Set", K: j, V: g.val(), Ks: []int{}, Supply: []int{}},
					seqOp{Op: "SetExpiresAfter", K: j, D: 1, Ks: []int{}, Supply: []int{}})
			}
			adv := (int64(2) << 30) / g.cfg.Scale
			if adv < 2 {
				adv = 2
			}
			sc.Ops = append(sc.Ops, seqOp{Op: "Advance", D: 1, Ks: []int{}, Supply: []int{}})
			bv := g.val()
			g.next += 2 * g.cfg.NK
			sc.Ops = append(sc.Ops, seqOp{Op: "BulkGet", V: bv, Ks: all, Supply: append([]int{}, all...), Shape: "map", Adv: adv})
			total += 1 + adv
		}
		if i == motifAt {
			// motif "full cache, one entry dies early and is looked at before it is swept, then one more arrival": the cache is
			// exactly full of live entries, so nothing may be lost to size eviction
			k := g.key()
			sc.Ops = append(sc.Ops, seqOp{Op: "SetMaximum", M: int64(g.cfg.NK), Ks: []int{}, Supply: []int{}})
			for j := 0; j < g.cfg.NK; j++ {
				if j != k {
					sc.Ops = append(sc.Ops, seqOp{Op: "Set", K: j, V: g.val(), Ks: []int{}, Supply: []int{}})
				}
			}
			sc.Ops = append(sc.Ops, seqOp{Op: "Set", K: k, V: g.val(), Ks: []int{}, Supply: []int{}},
				seqOp{Op: "SetExpiresAfter", K: k, D: 1, Ks: []int{}, Supply: []int{}},
				seqOp{Op: "Advance", D: 1, Ks: []int{}, Supply: []int{}})
			total++
			switch rng.Intn(4) {
			case 0:
				sc.Ops = append(sc.Ops, seqOp{Op: "Compute", K: k, V: g.val(), IfFound: "cancel", IfAbsent: "cancel", Ks: []int{}, Supply: []int{}})
			case 1:
				sc.Ops = append(sc.Ops, seqOp{Op: "ComputeIfAbsent", K: k, V: g.val(), IfAbsent: "cancel", Ks: []int{}, Supply: []int{}})
			case 2:
				sc.Ops = append(sc.Ops, seqOp{Op: "GetIfPresent", K: k, Ks: []int{}, Supply: []int{}})
			default:
				sc.Ops = append(sc.Ops, seqOp{Op: "Invalidate", K: k, Ks: []int{}, Supply: []int{}})
			}
			sc.Ops = append(sc.Ops, seqOp{Op: "Set", K: k, V: g.val(), Ks: []int{}, Supply: []int{}})
		}
		op := g.genOp()
		if op.Op == "Advance" {
			if total+op.D > (int64(1)<<20) {
				continue
			}
			total += op.D
		}
		sc.Ops = append(sc.Ops, op)
	}
	return sc
}

// adv: in a quarter of the loading operations the loader itself takes time (the clock moves inside user code): entries that were
// expired but unswept at the lookup are swept by the maintenance that follows the first installation, deadlines count from the later instant
func (g *seqGen) adv(op *seqOp) {
	if op.CC == 1 || g.rng.Intn(4) != 0 {
		return
	}
	if g.prof == "sweep" && g.rng.Intn(2) == 0 {
		op.Adv = pick(g.rng, int64(64), int64(100), int64(4096))
		return
	}
	op.Adv = int64(1 + g.rng.Intn(3))
}
