package otter

// Policy driver (C04 C05 C07 C18): the real eviction policy object (policy.go, internal/deque/linked.go) is driven the
// way the cache drives it - writes and invalidations of keys create add / update / delete tasks that are applied
// possibly out of order, reads are replayed, eviction passes run with a pinned random source (and, sometimes, with a
// node invalidated by "another goroutine" in the middle of the pass), the hill climber is given adjustments, the maximum
// changes.  After every call the complete state of the policy is logged (the three deques walked through the node
// pointers, the running totals, the maxima, every node's state and queue flag, the eviction callbacks with the total at
// that moment).  spec/PolicyTrace.tla replays the same calls on spec/Policy.tla (a pointer-level transliteration) and
// judges the logged state by the properties; a difference between model and code that breaks no property is drift.

import (
	"bufio"
	"encoding/json"
	"math/rand"
	"os"
	"strconv"
	"sync"
	"sync/atomic"
	"testing"
	"time"

	"github.com/maypok86/otter/v2/internal/deque"
	"github.com/maypok86/otter/v2/internal/generated/node"
)

const polN = 24 // node ids per run (Policy.tla: N)

type polPost struct {
	W    []int `json:"W"`
	P    []int `json:"P"`
	T    []int `json:"T"`
	Len  []int `json:"len"`
	Tail []int `json:"tail"`
	Max  int64 `json:"max"`
	WMax int64 `json:"wmax"`
	PMax int64 `json:"pmax"`
	WS   int64 `json:"ws"`
	WWS  int64 `json:"wws"`
	PWS  int64 `json:"pws"`
	Adj  int64 `json:"adj"`
	St   []int `json:"st"` // per id: 0 none, 1 alive, 2 retired, 3 dead
	Q    []int `json:"q"`  // per id: 0 window, 1 probation, 2 protected
	Cyc  int   `json:"cyc"`
}

type polRec struct {
	Op   string  `json:"op"` // reset new retire add upd del acc evict climb setmax
	N    int     `json:"n"`
	Old  int     `json:"old"`
	W    int     `json:"w"`
	K    int     `json:"k"`
	A    int     `json:"a"`
	R    int     `json:"r"`
	M    int     `json:"m"`
	F    []int   `json:"f"`
	RD   []int   `json:"rd"` // [after how many callbacks, node] or [0, 0]
	Pend int     `json:"pend"`
	Evs  [][]int `json:"evs"`
	Post polPost `json:"post"`
}

type polTask struct {
	t      string
	n, old int
}

type encFunc func(v any) error

func (f encFunc) Encode(v any) error { return f(v) }

func clampI64(v uint64) int64 {
	x := int64(v) //nolint:gosec // wrapped totals are logged as negative numbers
	if x > 1<<30 {
		return 1 << 30
	}
	if x < -(1 << 30) {
		return -(1 << 30)
	}
	return x
}

func TestVerifPolicy(t *testing.T) {
	out := os.Getenv("VERIF_OUT")
	if out == "" {
		t.Skip("VERIF_OUT not set")
	}
	seed, _ := strconv.ParseInt(os.Getenv("VERIF_SEED"), 10, 64)
	nruns, _ := strconv.Atoi(os.Getenv("VERIF_N"))
	nops, _ := strconv.Atoi(os.Getenv("VERIF_LEN"))
	if nruns == 0 {
		nruns = 40
	}
	if nops == 0 {
		nops = 120
	}
	f, err := os.Create(out)
	if err != nil {
		t.Fatal(err)
	}
	defer f.Close()
	bw := bufio.NewWriterSize(f, 1<<20)
	defer bw.Flush()
	enc0 := json.NewEncoder(bw)
	// a call of the code under test that never returns (a deque linked into a cycle) is an observation as well: the records
	// logged so far are flushed and judged, the run ends with a "panic" marker
	var wmu sync.Mutex
	var progress atomic.Int64
	enc := encFunc(func(v any) error {
		wmu.Lock()
		defer wmu.Unlock()
		progress.Add(1)
		return enc0.Encode(v)
	})
	go func() {
		last, stalled := int64(-1), 0
		for {
			time.Sleep(500 * time.Millisecond)
			if cur := progress.Load(); cur != last {
				last, stalled = cur, 0
				continue
			}
			if stalled++; stalled >= 10 {
				wmu.Lock()
				_ = enc0.Encode(polRec{Op: "panic", F: make([]int, polN), RD: []int{0, 0}, Evs: [][]int{},
					Post: polPost{W: []int{}, P: []int{}, T: []int{}, Len: []int{0, 0, 0}, Tail: []int{0, 0, 0}, St: make([]int, polN), Q: make([]int, polN), Cyc: 1}})
				_ = bw.Flush()
				os.Exit(0)
			}
		}
	}()
	rng := rand.New(rand.NewSource(seed))
	nm := node.NewManager[int, int](node.Config{WithWeight: true})

	for run := 0; run < nruns; run++ {
		maxima := []uint64{3, 4, 5, 6, 8, 10, 12, 16, 20, 40, 100, 200}
		maximum := maxima[rng.Intn(len(maxima))]
		// every fifth run is a burst run: a small maximum, more keys than it admits, writes in bursts and few eviction passes, so
		// that one pass has several candidates and several victims to go through
		burst := run%5 == 2
		if burst {
			maximum = uint64(5 + rng.Intn(6)) //nolint:gosec // small
		}
		heavy := run%3 == 1 // heterogeneous weights (the climber's quota then fits some heads and not others)
		p := newPolicy[int, int](run%2 == 0)
		p.setMaximumSize(maximum)
		nodes := make([]node.Node[int, int], polN+1)
		ids := map[node.Node[int, int]]int{}
		keyOf := make([]int, polN+1)
		wOf := make([]int, polN+1)
		used := 0
		nkeys := 3 + rng.Intn(4)
		if burst {
			nkeys = 16
		}
		th := []int{28, 34, 66, 80, 90, 97}
		if burst {
			th = []int{42, 44, 78, 92, 97, 99}
		} else if heavy {
			th = []int{26, 30, 60, 74, 82, 97} // more climbing: the quota then fits some heads and not others
		}
		cur := make([]int, nkeys+1)
		var pend []polTask
		var evs [][]int
		rdAfter, rdNode := 0, 0
		extraPend := 0

		idOf := func(n node.Node[int, int]) int {
			if node.Equals(n, nil) {
				return 0
			}
			return ids[n]
		}
		walk := func(d *deque.Linked[int, int]) ([]int, int) {
			l := []int{}
			cyc := 0
			c := d.Head()
			for !node.Equals(c, nil) {
				l = append(l, idOf(c))
				if len(l) > polN+2 {
					cyc = 1
					break
				}
				c = c.Next()
			}
			return l, cyc
		}
		post := func() polPost {
			var ps polPost
			var c1, c2, c3 int
			ps.W, c1 = walk(p.window)
			ps.P, c2 = walk(p.probation)
			ps.T, c3 = walk(p.protected)
			ps.Cyc = c1 + c2 + c3
			ps.Len = []int{p.window.Len(), p.probation.Len(), p.protected.Len()}
			ps.Tail = []int{idOf(p.window.Tail()), idOf(p.probation.Tail()), idOf(p.protected.Tail())}
			ps.Max, ps.WMax, ps.PMax = clampI64(p.maximum), clampI64(p.windowMaximum), clampI64(p.mainProtectedMaximum)
			ps.WS, ps.WWS, ps.PWS = clampI64(p.weightedSize), clampI64(p.windowWeightedSize), clampI64(p.mainProtectedWeightedSize)
			ps.Adj = p.adjustment
			ps.St = make([]int, polN)
			ps.Q = make([]int, polN)
			for i := 1; i <= polN; i++ {
				if nodes[i] == nil {
					continue
				}
				switch {
				case nodes[i].IsAlive():
					ps.St[i-1] = 1
				case nodes[i].IsRetired():
					ps.St[i-1] = 2
				default:
					ps.St[i-1] = 3
				}
				ps.Q[i-1] = int(nodes[i].GetQueueType())
			}
			return ps
		}
		emit := func(r polRec) {
			if r.F == nil {
				r.F = make([]int, polN)
			}
			if r.RD == nil {
				r.RD = []int{0, 0}
			}
			if r.Evs == nil {
				r.Evs = [][]int{}
			}
			r.Pend = len(pend) + extraPend
			r.Post = post()
			_ = enc.Encode(r)
		}
		// cache.evictNode as the policy sees it
		evict := func(n node.Node[int, int], _ int64) {
			id := idOf(n)
			alive := 0
			if n.IsAlive() {
				alive = 1
			}
			evs = append(evs, []int{id, int(clampI64(p.weightedSize)), alive})
			if alive == 1 {
				n.Retire() // removed from the table
				if cur[keyOf[id]] == id {
					cur[keyOf[id]] = 0
				}
			}
			p.delete(n)
			n.Die()
			if rdAfter > 0 && len(evs) == rdAfter && nodes[rdNode].IsAlive() {
				// "another goroutine" invalidates a key while the eviction pass is under way
				nodes[rdNode].Retire()
				if cur[keyOf[rdNode]] == rdNode {
					cur[keyOf[rdNode]] = 0
				}
				pend = append(pend, polTask{"del", rdNode, 0})
			}
		}

		reorder := run%4 != 0 // three runs in four apply tasks out of order now and then (the concurrent setting)
		ro := 0
		if reorder {
			ro = 1
		}
		emit(polRec{Op: "reset", M: int(maximum), A: ro})
		weight := func() int {
			if burst {
				return 1 + rng.Intn(8)/7
			}
			if !heavy {
				x := rng.Intn(12)
				switch {
				case x == 0:
					return 0
				case x == 1:
					return 2
				case x == 2:
					return int(p.maximum) + 1
				}
				return 1
			}
			x := rng.Intn(14)
			switch {
			case x == 0:
				return 0
			case x == 1:
				return int(p.maximum) + 1
			case x < 5:
				return 1
			case x < 8:
				return 2
			case x < 10:
				return 3
			case x < 12:
				return 1 + int(p.maximum)/4
			}
			return 1 + int(p.maximum)/2
		}
		doWrite := func(k, w int) int {
			if cur[k] != 0 {
				// the table computation retires the old node; its update task is recorded below
				nodes[cur[k]].Retire()
				extraPend = 1
				emit(polRec{Op: "retire", N: cur[k]})
				extraPend = 0
			}
			used++
			id := used
			nodes[id] = nm.Create(k, id, 0, 0, uint32(w)) //nolint:gosec // small
			ids[nodes[id]] = id
			keyOf[id], wOf[id] = k, w
			if cur[k] == 0 {
				pend = append(pend, polTask{"add", id, 0})
			} else {
				pend = append(pend, polTask{"upd", id, cur[k]})
			}
			emit(polRec{Op: "new", N: id, W: w, K: k})
			cur[k] = id
			return id
		}
		doApply := func(i int) {
			tk := pend[i]
			pend = append(pend[:i:i], pend[i+1:]...)
			evs = nil
			rdAfter = 0
			switch tk.t {
			case "add":
				p.add(nodes[tk.n], evict)
			case "upd":
				p.update(nodes[tk.n], nodes[tk.old], evict)
			default:
				p.delete(nodes[tk.n])
			}
			emit(polRec{Op: tk.t, N: tk.n, Old: tk.old, Evs: evs})
		}
		doAccess := func(id int) {
			p.access(nodes[id])
			emit(polRec{Op: "acc", N: id})
		}
		doEvict := func(r, after, target int) {
			p.rand = func() uint32 { return uint32(r) } //nolint:gosec // small
			fr := make([]int, polN)
			for i := 1; i <= used; i++ {
				fr[i-1] = int(p.sketch.frequency(keyOf[i])) //nolint:gosec // <= 15
			}
			evs = nil
			rdAfter, rdNode = after, target
			rd := []int{rdAfter, rdNode}
			p.evictNodes(evict)
			rdAfter = 0
			emit(polRec{Op: "evict", R: r, F: fr, RD: rd, Evs: evs})
		}
		// directed prelude of the burst runs: a full cache, a cold victim at the head of the probation deque followed by a
		// warm one, three arrivals of which the second is lukewarm, and the cold victim is invalidated by "another
		// goroutine" right after the pass has turned the first arrival away
		prelude := func() {
			m := int(p.maximum)
			stale := map[int]int{}
			for k := 1; k <= m; k++ {
				doWrite(k, 1)
				doApply(0)
				if k <= 2 {
					// rewritten while still in the window: the replaced node stays behind as a handle for stale reads
					stale[k] = cur[k]
					doWrite(k, 1)
					doApply(0)
				}
				doEvict(1, 0, 0)
			}
			// stale reads of the replaced nodes count for the popularity of their keys: key 1 is cold, key 2 warm
			for j := 0; j < 1+rng.Intn(2); j++ {
				doAccess(stale[1])
			}
			for j := 0; j < 6+rng.Intn(4); j++ {
				doAccess(stale[2])
			}
			// the last key of the fill is still in the window and is the first candidate; the lukewarm arrival is the second
			c2 := doWrite(m+1, 1)
			doApply(0)
			for j := 0; j < 2+rng.Intn(3); j++ {
				doAccess(c2)
			}
			doWrite(m+2, 1)
			doApply(0)
			doWrite(m+3, 1)
			doApply(0)
			target := 0
			if h := p.probation.Head(); !node.Equals(h, nil) {
				target = idOf(h)
			}
			after := 0
			if target != 0 {
				after = 1
			}
			doEvict(1, after, target)
		}
		runOps := func() {
			if burst && run%10 == 2 {
				prelude()
			}
			for op := 0; op < nops; op++ {
				x := rng.Intn(100)
				switch {
				case x < th[0] && used < polN:
					doWrite(1+rng.Intn(nkeys), weight())
				case x < th[1]:
					k := 1 + rng.Intn(nkeys)
					if cur[k] == 0 {
						continue
					}
					nodes[cur[k]].Retire()
					pend = append(pend, polTask{"del", cur[k], 0})
					emit(polRec{Op: "retire", N: cur[k]})
					cur[k] = 0
				case x < th[2]:
					if len(pend) == 0 {
						continue
					}
					i := 0
					if reorder && len(pend) > 1 && rng.Intn(5) == 0 {
						i = 1
					}
					doApply(i)
				case x < th[3]:
					if used == 0 {
						continue
					}
					id := 1 + rng.Intn(used)
					if rng.Intn(3) != 0 {
						// mostly the current nodes, mostly a hot subset
						k := 1 + rng.Intn(nkeys)
						if rng.Intn(2) == 0 {
							k = 1 + rng.Intn(2)
						}
						if cur[k] != 0 {
							id = cur[k]
						}
					}
					reps := 1
					if rng.Intn(4) == 0 {
						reps = 1 + rng.Intn(8)
					}
					for j := 0; j < reps; j++ {
						doAccess(id)
					}
				case x < th[4]:
					if rng.Intn(4) == 0 && p.maximum > 4 && len(pend) == 0 {
						m := p.maximum - 2 - uint64(rng.Intn(int(p.maximum)/2)) //nolint:gosec // small
						p.setMaximumSize(m)
						emit(polRec{Op: "setmax", M: int(m)}) //nolint:gosec // small
					}
					r := rng.Intn(1024)
					if rng.Intn(3) == 0 {
						r = rng.Intn(8) * 128
					}
					after, target := 0, 0
					if rng.Intn(2) == 0 {
						// a current node is invalidated after the first or second callback of this pass: mostly the node the
						// pass is about to use as its victim (the head of the probation deque or its successor)
						k := 1 + rng.Intn(nkeys)
						cand := cur[k]
						if h := p.probation.Head(); !node.Equals(h, nil) && rng.Intn(4) != 0 {
							cand = idOf(h)
							if nx := h.Next(); !node.Equals(nx, nil) && rng.Intn(3) == 0 {
								cand = idOf(nx)
							}
						}
						if cand != 0 && nodes[cand].IsAlive() {
							after, target = 1+rng.Intn(2), cand
						}
					}
					doEvict(r, after, target)
				case x < th[5]:
					a := rng.Intn(9) - 4
					if rng.Intn(4) == 0 {
						a = rng.Intn(2*int(p.maximum)+1) - int(p.maximum)
					}
					if heavy && rng.Intn(2) == 0 {
						a = 1 + rng.Intn(int(p.maximum)/3+1) // the window grows: entries move out of probation / protected
					}
					p.hitsInSample, p.missesInSample = 0, 0
					p.adjustment = int64(a)
					p.climb()
					emit(polRec{Op: "climb", A: a})
				default:
					m := maxima[rng.Intn(len(maxima))]
					p.setMaximumSize(m)
					emit(polRec{Op: "setmax", M: int(m)}) //nolint:gosec // small
				}
			}
			// epilogue: every recorded task is applied, then the maximum is lowered to 1 - every entry must still be reachable as
			// an eviction victim, so the pass that follows brings the total within the new maximum
			for len(pend) > 0 {
				doApply(0)
			}
			p.setMaximumSize(1)
			emit(polRec{Op: "setmax", M: 1})
			doEvict(1, 0, 0)
		}
		func() {
			// a panic of the code under test ends the run; it is an observation, the records before it are judged
			defer func() {
				if r := recover(); r != nil {
					_ = enc.Encode(polRec{Op: "panic", F: make([]int, polN), RD: []int{0, 0}, Evs: [][]int{},
						Post: polPost{W: []int{}, P: []int{}, T: []int{}, Len: []int{0, 0, 0}, Tail: []int{0, 0, 0}, St: make([]int, polN), Q: make([]int, polN), Cyc: 1}})
				}
			}()
			runOps()
		}()
	}
}
