package otter

// C04 / C05 / C06 driver: concurrent writers whose task publication is reordered by the gate scheduler
// (binding B2 for spec/WriteReplay.tla), followed by a consistency audit of the real cache: the table, the
// three policy deques with their running totals, the timer wheel, the public derived views and the
// deletion events.  The audit record is judged by spec/WRAudit.tla (Agree, Bound, Conservation).

import (
	"sync/atomic"
	"fmt"
	"strings"
	"bufio"
	"encoding/json"
	"math/rand"
	"os"
	"sort"
	"strconv"
	"sync"
	"testing"
	"time"
	"unsafe"

	"github.com/maypok86/otter/v2/internal/deque/queue"
	"github.com/maypok86/otter/v2/internal/generated/node"
	"github.com/maypok86/otter/v2/internal/verifkit"
)

type wrScenario struct {
	Size     string  `json:"size"`   // count | weight | none
	Max      int     `json:"max"`
	Expiry   int     `json:"expiry"` // 1 = ExpiryWriting(1h) on a frozen manual clock (timer wheel in play)
	Writers  int     `json:"writers"`
	Ops      int     `json:"ops"`
	Keys     int     `json:"keys"`
	WT       []int64 `json:"wt"`
	SetMax   []int   `json:"setmax"`   // maxima applied by an extra goroutine at run time
	SyncExec int     `json:"syncexec"` // 1 = same-goroutine executor
	Policy   string  `json:"policy"`   // random | pct | free
	Seed     int64   `json:"seed"`
	Points   string  `json:"points"`   // all | pub
	InvAll   int     `json:"invall"`   // InvalidateAll calls by an extra goroutine
	Reads    int     `json:"reads"`    // 1 = read-heavy mix (stale read-buffer entries for replaced nodes)
	SmallBuf int     `json:"smallbuf"` // 1 = write buffer of 8 events and a foreign holder of the eviction mutex at the start of the race:
	                                   // writers overflow the buffer and fall back to running maintenance themselves (afterWriteTask)
	HWrite   int     `json:"hwrite"`   // 1 = the OnDeletion handler itself writes once (key 900) - user code that writes from inside a maintenance run
	Stale    int     `json:"stale"`    // 1 = after the race, one reader per key is stalled between its table lookup and its
	                                   // read-buffer append across a rewrite of the key that maintenance has already applied
}

type wrWrite struct {
	K    int    `json:"k"`
	V    int    `json:"v"`
	Prev int    `json:"prev"` // value this write replaced (-1 = none), as returned to the caller
	Op   string `json:"op"`
}

type wrEvent struct {
	Seq int    `json:"seq"`
	H   string `json:"h"`
	K   int    `json:"k"`
	V   int    `json:"v"`
	C   string `json:"c"`
}

type wrNode struct {
	ID     int   `json:"id"`
	K      int   `json:"k"`
	V      int   `json:"v"`
	W      int64 `json:"w"`
	State  string `json:"state"` // alive | retired | dead
	Mapped int   `json:"mapped"`
	QType  int   `json:"qtype"`
	InWin  int   `json:"inwin"`
	InProb int   `json:"inprob"`
	InProt int   `json:"inprot"`
	InWheel int  `json:"inwheel"`
}

type wrKV struct {
	K int   `json:"k"`
	V int   `json:"v"`
	W int64 `json:"w"`
}

type wrAudit struct {
	T        string     `json:"t"`
	Sc       wrScenario `json:"sc"`
	Diag     string     `json:"diag"`
	Nodes    []wrNode   `json:"nodes"`
	WSize    int64      `json:"wsize"`
	WinSize  int64      `json:"winsize"`
	ProtSize int64      `json:"protsize"`
	Max      int64      `json:"max"`
	MapSize  int        `json:"mapsize"`
	Status   int        `json:"status"`
	Wbuf     int        `json:"wbuf"`
	Rbuf     int        `json:"rbuf"` // entries still held by the read buffer after the final clean-up
	PubWSize int64      `json:"pubwsize"`
	PubEst   int        `json:"pubest"`
	PubMax   int64      `json:"pubmax"`
	All      []wrKV     `json:"all"`
	Hottest  []int      `json:"hottest"`
	Coldest  []int      `json:"coldest"`
	Writes   []wrWrite  `json:"writes"`
	Events   []wrEvent  `json:"events"`
	Steps    int        `json:"steps"`
	// C14: what the cache looks like once every call has returned and the goroutines it started have finished, BEFORE any further
	// call is made (read from the unexported state, no cache method is called)
	PreWbuf  int        `json:"prewbuf"`  // events in the write buffer when every call had returned (before the audit calls anything)
	PreIdle  int        `json:"preidle"`  // 1 = drain status idle and write buffer empty at that moment
	PreOver  int        `json:"preover"`  // 1 = the policy's own total exceeded its maximum at that moment
	PostOver int        `json:"postover"` // 1 = it still did after one explicit CleanUp
	LibPanic string     `json:"libpanic"` // panic raised by the code under test in a goroutine the cache started
}

var wrPubPoints = map[string]bool{
	"set.afterCompute": true, "inv.afterCompute": true, "cmp.afterCompute": true, "aw.push": true,
	"mt.task": true, "ev.beforeDelete": true, "db.enter": true, "mt.pop": true, "ld.beforeInstall": true,
	"get.afterLookup": true, // a reader between the table lookup and the read-buffer append
}

func nodeState(n node.Node[int, int]) string {
	switch {
	case n.IsAlive():
		return "alive"
	case n.IsRetired():
		return "retired"
	default:
		return "dead"
	}
}

// auditCache walks every structure that can reference a node. The caller guarantees quiescence.
func auditCache(c *Cache[int, int], a *wrAudit) {
	ci := c.cache
	ids := map[unsafe.Pointer]*wrNode{}
	get := func(n node.Node[int, int]) *wrNode {
		p := n.AsPointer()
		if x, ok := ids[p]; ok {
			return x
		}
		x := &wrNode{ID: len(ids) + 1, K: n.Key(), V: n.Value(), W: int64(n.Weight()), State: nodeState(n)}
		if ci.withEviction {
			x.QType = int(n.GetQueueType())
		}
		ids[p] = x
		return x
	}
	ci.hashmap.Range(func(n node.Node[int, int]) bool {
		get(n).Mapped++
		return true
	})
	if ci.withEviction {
		p := ci.evictionPolicy
		guard := 0
		for n := range p.window.All() {
			get(n).InWin++
			if guard++; guard > 100000 {
				break
			}
		}
		for n := range p.probation.All() {
			get(n).InProb++
			if guard++; guard > 100000 {
				break
			}
		}
		for n := range p.protected.All() {
			get(n).InProt++
			if guard++; guard > 100000 {
				break
			}
		}
		a.WSize = int64(p.weightedSize)
		a.WinSize = int64(p.windowWeightedSize)
		a.ProtSize = int64(p.mainProtectedWeightedSize)
		a.Max = int64(p.maximum)
	}
	if ci.withExpiration {
		if root := ci.expirationPolicy.DueForVerif(); root != nil { // timers that were due when they were scheduled
			guard := 0
			for n := root.NextExp(); !node.Equals(n, root) && n != nil; n = n.NextExp() {
				get(n).InWheel++
				if guard++; guard > 100000 {
					break
				}
			}
		}
		for _, level := range ci.expirationPolicy.WheelForVerif() {
			for _, root := range level {
				guard := 0
				for n := root.NextExp(); !node.Equals(n, root) && n != nil; n = n.NextExp() {
					get(n).InWheel++
					if guard++; guard > 100000 {
						break
					}
				}
			}
		}
	}
	a.MapSize = ci.hashmap.Size()
	a.Status = int(ci.drainStatus.Load())
	if ci.writeBuffer != nil {
		a.Wbuf = int(ci.writeBuffer.Size())
	}
	if ci.withMaintenance && ci.readBuffer != nil && !ci.skipReadBuffer() {
		a.Rbuf = ci.readBuffer.Len()
	}
	for _, x := range ids {
		a.Nodes = append(a.Nodes, *x)
	}
	sort.Slice(a.Nodes, func(i, j int) bool { return a.Nodes[i].ID < a.Nodes[j].ID })
	// public derived views
	a.PubWSize = int64(c.WeightedSize())
	a.PubEst = c.EstimatedSize()
	if m := c.GetMaximum(); m > 1<<40 {
		a.PubMax = -1
	} else {
		a.PubMax = int64(m)
	}
	for e := range c.Coldest() {
		a.Coldest = append(a.Coldest, e.Key)
	}
	for e := range c.Hottest() {
		a.Hottest = append(a.Hottest, e.Key)
	}
	ents := map[int]wrKV{}
	for k, v := range c.All() {
		ents[k] = wrKV{K: k, V: v}
	}
	for k := range ents {
		if e, ok := c.GetEntryQuietly(k); ok {
			ents[k] = wrKV{K: k, V: e.Value, W: int64(e.Weight)}
		}
	}
	for _, e := range ents {
		a.All = append(a.All, e)
	}
	sort.Slice(a.All, func(i, j int) bool { return a.All[i].K < a.All[j].K })
	sort.Ints(a.Coldest)
	sort.Ints(a.Hottest)
}

func runWRScenario(sc wrScenario) (a wrAudit) {
	var mu sync.Mutex
	seq := 0
	defer func() {
		// a panic of the code under test on the driver's own goroutine (caller-runs maintenance in CleanUp, the audit's
		// iteration over corrupt policy structures) is an observation as well
		if r := recover(); r != nil {
			a.LibPanic = fmt.Sprintf("%v", r)
			a.Nodes, a.All, a.Hottest, a.Coldest = []wrNode{}, []wrKV{}, []int{}, []int{}
		}
	}()
	a = wrAudit{T: "audit", Sc: sc, Nodes: []wrNode{}, All: []wrKV{}, Hottest: []int{}, Coldest: []int{}, Writes: []wrWrite{}, Events: []wrEvent{}}
	clk := newManualClock(1_000_000_000)
	var hwOnce atomic.Bool
	var cref atomic.Pointer[Cache[int, int]]
	hwRecord := func(w wrWrite) {
		mu.Lock()
		a.Writes = append(a.Writes, w)
		mu.Unlock()
	}
	o := &Options[int, int]{
		Clock: clk,
		OnAtomicDeletion: func(e DeletionEvent[int, int]) {
			mu.Lock()
			seq++
			a.Events = append(a.Events, wrEvent{seq, "A", e.Key, e.Value, e.Cause.String()})
			mu.Unlock()
		},
		OnDeletion: func(e DeletionEvent[int, int]) {
			mu.Lock()
			seq++
			a.Events = append(a.Events, wrEvent{seq, "D", e.Key, e.Value, e.Cause.String()})
			mu.Unlock()
			if sc.HWrite == 1 && e.Key != 900 && hwOnce.CompareAndSwap(false, true) {
				// a write made by user code that runs inside a maintenance run (with a same-goroutine executor): that run ends "required"
				if _, fresh := cref.Load().Set(900, 900900); fresh {
					hwRecord(wrWrite{900, 900900, -1, "Set"})
				}
			}
		},
	}
	switch sc.Size {
	case "count":
		o.MaximumSize = sc.Max
	case "weight":
		o.MaximumWeight = uint64(sc.Max)
		o.Weigher = func(k, v int) uint32 { return uint32(tab(sc.WT, v)) }
	}
	if sc.Expiry == 1 {
		o.ExpiryCalculator = ExpiryWriting[int, int](time.Hour)
	}
	if sc.SyncExec == 1 {
		o.Executor = func(fn func()) { fn() }
	}
	if sc.SmallBuf == 2 {
		// "long pass": one maintenance pass may replay at most maxWriteBufferSize + 1 events; with the bound at 8 and a pass
		// that is slowed down (the deletion handler dawdles) while producers keep writing, a pass meets more than that
		oldMax := maxWriteBufferSize
		maxWriteBufferSize = 8
		defer func() { maxWriteBufferSize = oldMax }()
		inner := o.OnDeletion
		var nD atomic.Int64
		o.OnDeletion = func(e DeletionEvent[int, int]) {
			if n := nD.Add(1); n == 2 || n == 5 {
				time.Sleep(8 * time.Millisecond)
			}
			inner(e)
		}
	}
	c := Must(o)
	cref.Store(c)
	defer c.StopAllGoroutines()
	if sc.SmallBuf >= 1 && c.cache.withMaintenance {
		c.cache.writeBuffer = queue.NewMPSC[task[int, int]](4, 8)
		c.cache.evictionMutex.Lock()
		go func() {
			for i := 0; i < 40 && c.cache.writeBuffer.Size() < 8; i++ {
				time.Sleep(500 * time.Microsecond)
			}
			time.Sleep(time.Millisecond)
			c.cache.evictionMutex.Unlock()
			if sc.SmallBuf == 3 {
				// like every holder of the eviction mutex inside the library: look for work that arrived meanwhile
				c.cache.rescheduleCleanUpIfIncomplete()
			}
		}()
	}
	var libPanic atomic.Value
	if sc.SyncExec != 1 {
		// the default executor (go fn()), except that a panic of the code under test is an observation, not a crash of
		// the driver; hasDefaultExecutor stays true, so the rescheduling behaviour is the default one
		c.cache.executor = func(fn func()) {
			go func() {
				defer func() {
					if r := recover(); r != nil {
						libPanic.CompareAndSwap(nil, fmt.Sprintf("%v", r))
					}
				}()
				fn()
			}()
		}
	}
	record := func(w wrWrite) {
		mu.Lock()
		a.Writes = append(a.Writes, w)
		mu.Unlock()
	}
	body := func(w int, rng *rand.Rand) func() {
		return func() {
			for j := 0; j < sc.Ops; j++ {
				k := rng.Intn(sc.Keys)
				v := w*1000 + j + 1
				x := rng.Intn(10)
				if sc.Reads == 1 && rng.Intn(3) == 0 {
					x = 9
				}
				if sc.Seed%3 == 0 && rng.Intn(3) == 0 {
					x = 10 + rng.Intn(4) // the other writing operations
				}
				if sc.HWrite == 1 && (x == 9 || x == 13) {
					x = 0 // a write-only phase: any read would ask for the drain the writes are supposed to ask for themselves
				}
				switch {
				case x == 10:
					if _, fresh := c.SetIfAbsent(k, v); fresh {
						record(wrWrite{k, v, -1, "SetIfAbsent"})
					}
				case x == 11:
					wrote := false
					c.ComputeIfAbsent(k, func() (int, bool) { wrote = true; return v, false })
					if wrote {
						record(wrWrite{k, v, -1, "ComputeIfAbsent"})
					}
				case x == 12:
					wrote, prev := false, -1
					c.ComputeIfPresent(k, func(old int) (int, ComputeOp) {
						prev = old
						if old%3 == 0 {
							return 0, InvalidateOp
						}
						if old%3 == 1 {
							return old, CancelOp
						}
						wrote = true
						return v, WriteOp
					})
					if wrote {
						record(wrWrite{k, v, prev, "ComputeIfPresent"})
					}
				case x == 13:
					if sc.Expiry == 1 {
						c.SetExpiresAfter(k, time.Duration(1+rng.Intn(3))*time.Hour)
					} else {
						c.GetEntry(k)
					}
				case x < 6:
					old, fresh := c.Set(k, v)
					prev := -1
					if !fresh {
						prev = old
					}
					record(wrWrite{k, v, prev, "Set"})
				case x < 8:
					c.Invalidate(k)
				case x < 9:
					prev := -1
					wrote := false
					c.Compute(k, func(old int, found bool) (int, ComputeOp) {
						if found {
							prev = old
							if old%2 == 0 {
								return 0, InvalidateOp
							}
						}
						wrote = true
						return v, WriteOp
					})
					if wrote {
						record(wrWrite{k, v, prev, "Compute"})
					}
				default:
					c.GetIfPresent(k)
				}
			}
		}
	}
	if sc.Policy == "free" {
		verifhookInstall(verifkit.Yielder(sc.Seed, 0.3))
		var wg sync.WaitGroup
		for w := 1; w <= sc.Writers; w++ {
			wg.Add(1)
			fn := body(w, rand.New(rand.NewSource(sc.Seed*31+int64(w))))
			go func() { defer wg.Done(); fn() }()
		}
		for _, m := range sc.SetMax {
			wg.Add(1)
			m := m
			go func() { defer wg.Done(); c.SetMaximum(uint64(m)) }()
		}
		if sc.InvAll > 0 {
			wg.Add(1)
			go func() {
				defer wg.Done()
				for i := 0; i < sc.InvAll; i++ {
					c.InvalidateAll()
				}
			}()
		}
		wg.Wait()
		verifhookInstall(nil)
	} else {
		s := verifkit.NewSched(sc.Seed)
		s.Adopt = true
		s.Policy = strings.TrimSuffix(sc.Policy, "+stallread")
		if strings.HasSuffix(sc.Policy, "+stallread") {
			// readers stay between the table lookup and the read-buffer append while writers and maintenance move on:
			// the read buffer then receives nodes that have been replaced or removed in the meantime
			s.Choose = func(parked []*verifkit.G, rnd *rand.Rand) *verifkit.G {
				var rest []*verifkit.G
				for _, g := range parked {
					if g.At != "get.afterLookup" {
						rest = append(rest, g)
					}
				}
				if len(rest) == 0 || len(rest) == len(parked) || rnd.Intn(10) == 0 {
					return nil
				}
				return rest[rnd.Intn(len(rest))]
			}
		}
		if sc.Points != "all" {
			s.Filter = func(id string) bool { return wrPubPoints[id] }
		} else {
			s.Filter = func(id string) bool { return wrPubPoints[id] || drainPoints[id] }
		}
		if sc.InvAll > 0 {
			// InvalidateAll snapshots the table and then removes node by node: writers must be able to run in between
			inner := s.Filter
			s.Filter = func(id string) bool { return inner(id) || id == "cp.lock" || id == "ia.lock" || id == "ia.unlock" }
			s.Go("ia", func() {
				for i := 0; i < sc.InvAll; i++ {
					c.InvalidateAll()
				}
			})
		}
		for w := 1; w <= sc.Writers; w++ {
			s.Go("w"+strconv.Itoa(w), body(w, rand.New(rand.NewSource(sc.Seed*31+int64(w)))))
		}
		for i, m := range sc.SetMax {
			m := m
			s.Go("m"+strconv.Itoa(i+1), func() { c.SetMaximum(uint64(m)) })
		}
		a.Diag = s.Run()
	if a.Diag != "" && a.Diag != "step limit" && !strings.HasPrefix(a.Diag, "panic") && s.WaitDone(5*time.Second) {
		a.Diag = ""
	}
		a.Steps = len(s.Log)
	}
	if p := libPanic.Load(); p != nil {
		// maintenance died holding the eviction mutex: nothing further can be asked of this cache
		a.LibPanic = p.(string)
		return a
	}
	// everything after the race runs under a watchdog: if maintenance died in a goroutine of the cache it left the
	// eviction mutex locked and every further call that needs it blocks for ever
	post := make(chan string, 1)
	go func() {
		defer func() {
			if r := recover(); r != nil {
				post <- fmt.Sprintf("%v", r)
				return
			}
			post <- ""
		}()
		runWRPost(sc, c, &a, &mu, record, clk)
	}()
	select {
	case msg := <-post:
		if msg != "" {
			a.LibPanic = msg
			a.Nodes, a.All, a.Hottest, a.Coldest = []wrNode{}, []wrKV{}, []int{}, []int{}
		}
	case <-time.After(20 * time.Second):
		msg := "the cache does not respond any more after the race (CleanUp / SetMaximum / iteration blocked for 20 s)"
		if p := libPanic.Load(); p != nil {
			msg = p.(string) + " - and the eviction mutex was never released"
		}
		a = wrAudit{T: "audit", Sc: sc, Nodes: []wrNode{}, All: []wrKV{}, Hottest: []int{}, Coldest: []int{}, Writes: []wrWrite{}, Events: []wrEvent{}, LibPanic: msg}
	}
	if a.LibPanic == "" {
		if p := libPanic.Load(); p != nil {
			a.LibPanic = p.(string)
		}
	}
	return a
}

func runWRPost(sc wrScenario, c *Cache[int, int], a *wrAudit, mu *sync.Mutex, record func(wrWrite), clk *manualClock) {
	if sc.SyncExec == 1 {
		// with a same-goroutine executor nothing runs behind the callers' backs: what is in the write buffer now stays there until a further call
		a.PreWbuf = int(c.cache.writeBuffer.Size())
	}
	if c.cache.withEviction {
		// C14: all calls have returned; give the goroutines the cache started time to finish, then look without calling anything
		for i := 0; i < 300 && c.cache.drainStatus.Load() != idle; i++ {
			time.Sleep(time.Millisecond)
		}
		time.Sleep(3 * time.Millisecond)
		if c.cache.evictionMutex.TryLock() { // (nobody is inside maintenance)
			if c.cache.drainStatus.Load() == idle && c.cache.writeBuffer.Size() == 0 {
				a.PreIdle = 1
				if c.cache.evictionPolicy.weightedSize > c.cache.evictionPolicy.maximum {
					a.PreOver = 1
				}
			}
			c.cache.evictionMutex.Unlock()
		}
		if a.PreOver == 1 {
			c.CleanUp()
			time.Sleep(2 * time.Millisecond)
			c.cache.evictionMutex.Lock()
			if c.cache.evictionPolicy.weightedSize > c.cache.evictionPolicy.maximum {
				a.PostOver = 1
			}
			c.cache.evictionMutex.Unlock()
		}
	}
	if sc.Stale == 1 {
		type held struct {
			n node.Node[int, int]
		}
		var hs []held
		for k := 0; k < sc.Keys; k++ {
			if n := c.cache.hashmap.Get(k); n != nil { // the reader's lookup (GetIfPresent up to the hook get.afterLookup)
				hs = append(hs, held{n})
				v := 90000 + k
				old, fresh := c.Set(k, v)
				prev := -1
				if !fresh {
					prev = old
				}
				record(wrWrite{k, v, prev, "Set"})
			}
		}
		for i := 0; i < 200 && c.cache.drainStatus.Load() != idle; i++ {
			time.Sleep(time.Millisecond)
		}
		c.CleanUp()
		for _, h := range hs { // the readers resume: hit accounting and read-buffer append for nodes that were replaced
			c.cache.afterRead(h.n, clk.NowNano(), false, false)
		}
		if sc.Size != "none" && sc.Seed%2 == 0 {
			// and the maximum is lowered afterwards: every entry must still be reachable as an eviction victim
			c.CleanUp()
			c.SetMaximum(1)
		}
	}
	if sc.SmallBuf >= 1 && sc.Size != "none" && sc.Seed%4 != 3 {
		// lower the maximum after the race: an entry the policy never heard of cannot be chosen as a victim
		for i := 0; i < 200 && c.cache.drainStatus.Load() != idle; i++ {
			time.Sleep(time.Millisecond)
		}
		c.CleanUp()
		c.SetMaximum(1)
	}
	// quiescence: every call has returned; wait for the goroutines the cache started, then let pending maintenance run
	deadline := time.Now().Add(500 * time.Millisecond)
	for time.Now().Before(deadline) {
		if c.cache.drainStatus.Load() == idle {
			break
		}
		time.Sleep(time.Millisecond)
	}
	time.Sleep(3 * time.Millisecond)
	c.CleanUp()
	time.Sleep(2 * time.Millisecond) // asynchronous OnDeletion deliveries of the default executor
	for i := 0; i < 50; i++ {
		mu.Lock()
		na, nd := 0, 0
		for _, e := range a.Events {
			if e.H == "A" {
				na++
			} else {
				nd++
			}
		}
		mu.Unlock()
		if na == nd {
			break
		}
		time.Sleep(2 * time.Millisecond)
	}
	mu.Lock()
	defer mu.Unlock()
	auditCache(c, a)
}

// TestVerifWR: VERIF_IN = JSON array of scenarios; VERIF_OUT = NDJSON audit records.
func TestVerifWR(t *testing.T) {
	out := os.Getenv("VERIF_OUT")
	if out == "" {
		t.Skip("VERIF_OUT not set")
	}
	b, err := os.ReadFile(os.Getenv("VERIF_IN"))
	if err != nil {
		t.Fatal(err)
	}
	var scs []wrScenario
	if err := json.Unmarshal(b, &scs); err != nil {
		t.Fatal(err)
	}
	f, err := os.Create(out)
	if err != nil {
		t.Fatal(err)
	}
	defer f.Close()
	w := bufio.NewWriter(f)
	defer w.Flush()
	enc := json.NewEncoder(w)
	for _, sc := range scs {
		r := runWRScenario(sc)
		_ = enc.Encode(r)
		if strings.HasPrefix(r.Diag, "panic") || strings.HasPrefix(r.Diag, "hang") {
			break
		}
	}
}
