package otter

// C02 driver: concurrent key-value operations on the real cache (small maximum so that it is evicting, a churn
// goroutine so that the table grows and shrinks, a frozen clock).  Every call and return is logged with a global
// sequence number; OnAtomicDeletion logs automatic removals (Overflow / Expiration) from inside the table
// computation, the instant the property names.  Histories are judged by spec/LinTrace.tla.

import (
	"bufio"
	"context"
	"encoding/json"
	"math/rand"
	"os"
	"sort"
	"strconv"
	"strings"
	"sync"
	"sync/atomic"
	"testing"
	"time"

	"github.com/maypok86/otter/v2/internal/verifkit"
	"github.com/maypok86/otter/v2/stats"
)

type c02Scenario struct {
	Clients  int    `json:"clients"`
	Ops      int    `json:"ops"`
	Keys     int    `json:"keys"`
	Max      int    `json:"max"`      // MaximumSize (0 = unbounded)
	Churn    int    `json:"churn"`    // filler keys written and invalidated by an extra goroutine
	Expiry   int    `json:"expiry"`
	InitCap  int    `json:"initcap"`
	Policy   string `json:"policy"`   // free | random | pct
	Seed     int64  `json:"seed"`
	Loader   int    `json:"loader"`   // 1 = include loader-backed Get
}

type c02Ev struct {
	Seq int    `json:"seq"`
	C   int    `json:"c"`
	T   string `json:"t"`
	Op  string `json:"op"`
	K   int    `json:"k"`
	V   int    `json:"v"`
	RV  int    `json:"rv"`
	ROK int    `json:"rok"`
	Saw int    `json:"saw"`
	Act string `json:"act"`
	NC  int    `json:"nc"`
	Hit int    `json:"hit"`
	RI  int    `json:"ri"`
	G   uint64 `json:"g"` // goroutine that logged the record (bounds the instant of an automatic removal)
	BI  int    `json:"bi"`
}

type c02Result struct {
	T      string      `json:"t"`
	Sc     c02Scenario `json:"sc"`
	Diag   string      `json:"diag"`
	Events []c02Ev     `json:"events"`
	Autos  int         `json:"autos"`
	Final  int         `json:"final"`
	// C20, concurrent form: tallies kept by the driver vs the recorder's snapshot at quiescence
	Lookups  int64   `json:"lookups"`
	Loads    int64   `json:"loads"`
	NOver    int64   `json:"nover"`  // Overflow removals reported (all keys)
	NExp     int64   `json:"nexp"`   // Expiration removals reported (all keys)
	St       []int64 `json:"st"`     // hits, misses, evictions, evictionWeight, loadOk, loadFail
	StMid    []int64 `json:"stmid"`  // a snapshot taken while the clients were running (monotonicity)
	ChurnNC  int64   `json:"churnnc"` // filler Computes whose callback did not run exactly once
}

var c02Points = map[string]bool{
	"get.afterLookup": true, "set.afterCompute": true, "inv.afterCompute": true, "cmp.afterCompute": true, "ev.beforeDelete": true,
	"ld.beforeInstall": true, "ld.afterInstall": true, "db.enter": true, "mt.task": true, "cp.lock": true, "cp.locked": true,
	"get.ldMeta": true, "get.ldNode": true, "cp.delNode": true, "cp.replNode": true, "cp.insNode": true,
	"cp.decSize": true, "cp.incSize": true, "ld.enter": true,
}

func runC02Scenario(sc c02Scenario) c02Result {
	res := c02Result{T: "c02", Sc: sc, Events: []c02Ev{}, St: []int64{0, 0, 0, 0, 0, 0}, StMid: []int64{0, 0, 0, 0, 0, 0}}
	var seq atomic.Int64
	var mu sync.Mutex
	log := func(e c02Ev) {
		e.G = verifkit.GoID()
		mu.Lock()
		e.Seq = int(seq.Add(1))
		res.Events = append(res.Events, e)
		mu.Unlock()
	}
	clk := newManualClock(1_000_000_000)
	ctr := stats.NewCounter()
	var lookups, nover, nexp atomic.Int64
	o := &Options[int, int]{
		Clock:           clk,
		InitialCapacity: sc.InitCap,
		StatsRecorder:   ctr,
		OnAtomicDeletion: func(e DeletionEvent[int, int]) {
			if e.Cause == CauseOverflow {
				nover.Add(1)
			} else if e.Cause == CauseExpiration {
				nexp.Add(1)
			}
			if e.Key >= 1000 || !e.Cause.IsEviction() {
				return
			}
			if sc.Expiry == 2 && e.Value < 10000 {
				return // the dead entries left behind by the prelude were never part of the history
			}
			log(c02Ev{C: 0, T: "auto", Op: e.Cause.String(), K: e.Key, V: e.Value, RV: -1, Saw: -1})
		},
	}
	if sc.Max > 0 {
		o.MaximumSize = sc.Max
	}
	if sc.Expiry == 1 {
		o.ExpiryCalculator = ExpiryWriting[int, int](time.Hour)
	}
	if sc.Expiry == 2 {
		// per-value lifetimes: odd values live for an hour, even values get no deadline at all (the calculator answers 0)
		o.ExpiryCalculator = c02ParityCalc{}
	}
	c := Must(o)
	defer c.StopAllGoroutines()
	if sc.Expiry == 2 {
		// every key starts with an EXPIRED entry that no maintenance run has removed: absent for every operation of the history,
		// but the first write of the key finds a dead node in the table
		for k := 0; k < sc.Keys; k++ {
			c.Set(k, 1+2*k)
		}
		c.CleanUp()
		time.Sleep(2 * time.Millisecond)
		clk.now.Add(int64(2 * time.Hour))
	}
	var loads, churnNC atomic.Int64
	loaderOf := func(cid int) Loader[int, int] {
		return LoaderFunc[int, int](func(ctx context.Context, k int) (int, error) {
			// the load has started: the in-flight record exists; writes called from now on must win over its result
			log(c02Ev{C: cid, T: "ldstart", Op: "ldget", K: k, RV: -1, Saw: -1})
			verifhookPoint("ld.enter")
			return 500000 + int(loads.Add(1)), nil
		})
	}
	ctx := context.Background()
	b2i := func(b bool) int {
		if b {
			return 1
		}
		return 0
	}
	client := func(cid int) func() {
		rng := rand.New(rand.NewSource(sc.Seed*977 + int64(cid)))
		return func() {
			for j := 0; j < sc.Ops; j++ {
				if cid == 1 && j == sc.Ops/2 {
					st := c.Stats()
					mu.Lock()
					res.StMid = []int64{int64(st.Hits), int64(st.Misses), int64(st.Evictions), int64(st.EvictionWeight), int64(st.LoadSuccesses), int64(st.LoadFailures)}
					mu.Unlock()
				}
				k := rng.Intn(sc.Keys)
				v := cid*10000 + j + 1
				nops := 9
				if sc.Loader == 1 {
					nops = 10
				}
				x := rng.Intn(nops)
				if sc.Loader == 1 && strings.HasSuffix(sc.Policy, "+stall") {
					// mostly loads and reads: 45% loader-backed Get, 35% reads, the rest as usual
					switch y := rng.Intn(20); {
					case y < 9:
						x = 9
					case y < 16:
						x = 3 + y%2
					}
				}
				switch x {
				case 0, 1:
					log(c02Ev{C: cid, T: "call", Op: "set", K: k, V: v})
					old, fresh := c.Set(k, v)
					log(c02Ev{C: cid, T: "ret", Op: "set", K: k, V: v, RV: old, ROK: b2i(fresh), Saw: -1})
				case 2:
					log(c02Ev{C: cid, T: "call", Op: "sia", K: k, V: v})
					old, fresh := c.SetIfAbsent(k, v)
					log(c02Ev{C: cid, T: "ret", Op: "sia", K: k, V: v, RV: old, ROK: b2i(fresh), Saw: -1})
				case 3, 4:
					log(c02Ev{C: cid, T: "call", Op: "get", K: k})
					var got int
					var ok bool
					if x == 4 && j%3 == 0 {
						// a quiet read first: no lookup is counted (C20).  Its answer is not part of the history: C02 does not
						// list GetEntryQuietly, and it reports a key absent while a replacement of its value is in progress
						// (the retired node is still in the table) - see DESIGN.md 12.2
						_, _ = c.GetEntryQuietly(k)
					}
					if lookups.Add(1); x == 3 {
						got, ok = c.GetIfPresent(k)
					} else {
						var e Entry[int, int]
						e, ok = c.GetEntry(k)
						got = e.Value
					}
					if !ok {
						got = -1
					}
					log(c02Ev{C: cid, T: "ret", Op: "get", K: k, RV: got, ROK: b2i(ok), Saw: -1})
				case 5:
					act := []string{"write", "inv", "cancel"}[rng.Intn(3)]
					log(c02Ev{C: cid, T: "call", Op: "cmp", K: k, V: v})
					saw, nc := -1, 0
					lookups.Add(1)
					got, ok := c.Compute(k, func(old int, found bool) (int, ComputeOp) {
						nc++
						saw = -1
						if found {
							saw = old
						}
						switch act {
						case "write":
							return v, WriteOp
						case "inv":
							return 0, InvalidateOp
						}
						return 0, CancelOp
					})
					if !ok {
						got = -1
					}
					log(c02Ev{C: cid, T: "ret", Op: "cmp", K: k, V: v, RV: got, ROK: b2i(ok), Saw: saw, Act: act, NC: nc})
				case 6:
					act := []string{"write", "write", "cancel"}[rng.Intn(3)]
					log(c02Ev{C: cid, T: "call", Op: "cia", K: k, V: v})
					nc := 0
					lookups.Add(1)
					got, ok := c.ComputeIfAbsent(k, func() (int, bool) {
						nc++
						return v, act == "cancel"
					})
					if !ok {
						got = -1
					}
					log(c02Ev{C: cid, T: "ret", Op: "cia", K: k, V: v, RV: got, ROK: b2i(ok), Saw: -1, Act: act, NC: nc})
				case 7:
					act := []string{"write", "inv", "cancel"}[rng.Intn(3)]
					log(c02Ev{C: cid, T: "call", Op: "cip", K: k, V: v})
					saw, nc := -1, 0
					lookups.Add(1)
					got, ok := c.ComputeIfPresent(k, func(old int) (int, ComputeOp) {
						nc++
						saw = old
						switch act {
						case "write":
							return v, WriteOp
						case "inv":
							return 0, InvalidateOp
						}
						return 0, CancelOp
					})
					if !ok {
						got = -1
					}
					log(c02Ev{C: cid, T: "ret", Op: "cip", K: k, V: v, RV: got, ROK: b2i(ok), Saw: saw, Act: act, NC: nc})
				case 8:
					log(c02Ev{C: cid, T: "call", Op: "inv", K: k})
					old, ok := c.Invalidate(k)
					if !ok {
						old = -1
					}
					log(c02Ev{C: cid, T: "ret", Op: "inv", K: k, RV: old, ROK: b2i(ok), Saw: -1})
				default:
					log(c02Ev{C: cid, T: "call", Op: "ldget", K: k})
					lookups.Add(1)
					got, err := c.Get(ctx, k, loaderOf(cid))
					hit := 1
					if got >= 500000 {
						hit = 0 // a loaded value: this call loaded it, joined its flight, or hit it after it was installed
					}
					log(c02Ev{C: cid, T: "ret", Op: "ldget", K: k, RV: got, ROK: b2i(err == nil), Saw: -1, Hit: hit})
				}
			}
		}
	}
	var stop atomic.Bool
	churn := func() {
		for round := 0; round < 2 && !stop.Load(); round++ {
			for i := 0; i < sc.Churn; i++ {
				if i%2 == 0 {
					c.Set(1000+i, i)
					continue
				}
				// every other filler is written by Compute: its callback must run exactly once, also in the call
				// that makes the table grow
				nc := 0
				lookups.Add(1) // Compute is a counting operation (C20)
				c.Compute(1000+i, func(old int, found bool) (int, ComputeOp) { nc++; return i, WriteOp })
				if nc != 1 {
					churnNC.Add(1)
				}
			}
			for i := 0; i < sc.Churn; i++ {
				c.Invalidate(1000 + i)
			}
		}
	}
	var fns []func()
	for i := 1; i <= sc.Clients; i++ {
		fns = append(fns, client(i))
	}
	if sc.Churn > 0 {
		fns = append(fns, churn)
	}
	if sc.Policy == "free" {
		verifhookInstall(verifkit.Yielder(sc.Seed, 0.15))
		var wg sync.WaitGroup
		for _, fn := range fns {
			wg.Add(1)
			fn := fn
			go func() {
				defer wg.Done()
				if msg := verifkit.Guard(fn); msg != "" {
					mu.Lock()
					res.Diag = msg
					mu.Unlock()
				}
			}()
		}
		done := make(chan struct{})
		go func() { wg.Wait(); close(done) }()
		select {
		case <-done:
		case <-time.After(30 * time.Second):
			res.Diag = "hang: free-running goroutines did not finish"
		}
		verifhookInstall(nil)
	} else {
		s := verifkit.NewSched(sc.Seed)
		s.Adopt = true
		s.Policy = strings.TrimSuffix(sc.Policy, "+stall")
		if strings.HasSuffix(sc.Policy, "+stall") {
			// stall installations: a goroutine that is about to install a loaded value is released last (most of the time),
			// so that joined calls return and later operations run while the value is not yet in the table
			s.Choose = func(parked []*verifkit.G, rnd *rand.Rand) *verifkit.G {
				var rest []*verifkit.G
				for _, g := range parked {
					if g.At != "ld.beforeInstall" {
						rest = append(rest, g)
					}
				}
				if len(rest) == 0 || len(rest) == len(parked) || rnd.Intn(12) == 0 {
					return nil
				}
				return rest[rnd.Intn(len(rest))]
			}
		}
		s.MaxSteps = 2000000
		s.Filter = func(id string) bool { return c02Points[id] }
		for i, fn := range fns {
			s.Go("g"+strconv.Itoa(i+1), fn)
		}
		res.Diag = s.Run()
		if res.Diag != "" && res.Diag != "step limit" && !strings.HasPrefix(res.Diag, "panic") && s.WaitDone(10*time.Second) {
			res.Diag = ""
		}
	}
	stop.Store(true)
	time.Sleep(2 * time.Millisecond)
	c.CleanUp()
	time.Sleep(2 * time.Millisecond)
	vec := func() []int64 {
		st := c.Stats()
		return []int64{int64(st.Hits), int64(st.Misses), int64(st.Evictions), int64(st.EvictionWeight), int64(st.LoadSuccesses), int64(st.LoadFailures)}
	}
	res.St = vec()
	res.Lookups, res.Loads, res.NOver, res.NExp = lookups.Load(), loads.Load(), nover.Load(), nexp.Load()
	res.ChurnNC = churnNC.Load()
	mu.Lock()
	sort.Slice(res.Events, func(i, j int) bool { return res.Events[i].Seq < res.Events[j].Seq })
	for _, e := range res.Events {
		if e.T == "auto" {
			res.Autos++
		}
	}
	mu.Unlock()
	for k := 0; k < sc.Keys; k++ {
		if _, ok := c.GetEntryQuietly(k); ok {
			res.Final++
		}
	}
	return res
}

func TestVerifC02(t *testing.T) {
	out := os.Getenv("VERIF_OUT")
	if out == "" {
		t.Skip("VERIF_OUT not set")
	}
	b, err := os.ReadFile(os.Getenv("VERIF_IN"))
	if err != nil {
		t.Fatal(err)
	}
	var scs []c02Scenario
	if err := json.Unmarshal(b, &scs); err != nil {
		t.Fatal(err)
	}
	f, err := os.Create(out)
	if err != nil {
		t.Fatal(err)
	}
	defer f.Close()
	w := bufio.NewWriter(f)
	defer w.Flush()
	enc := json.NewEncoder(w)
	for _, sc := range scs {
		r := runC02Scenario(sc)
		_ = enc.Encode(r)
		if strings.HasPrefix(r.Diag, "panic") || strings.HasPrefix(r.Diag, "hang") {
			break
		}
	}
}

// c02ParityCalc: odd values expire an hour after they were written, even values never (a non-positive answer leaves a new entry without deadline)
type c02ParityCalc struct{}

func (c02ParityCalc) ExpireAfterCreate(e Entry[int, int]) time.Duration {
	if e.Value%2 == 0 {
		return 0
	}
	return time.Hour
}
func (p c02ParityCalc) ExpireAfterUpdate(e Entry[int, int], _ int) time.Duration {
	if e.Value%2 == 0 {
		return time.Duration(1<<63 - 1)
	}
	return time.Hour
}
func (c02ParityCalc) ExpireAfterRead(e Entry[int, int]) time.Duration { return e.ExpiresAfter() }
