package otter

// C19 with maintenance pending: SaveCacheTo is called while drain tasks handed to the executor have not run yet (an executor
// that queues work: the first `runfirst` tasks run at once, the rest is parked until the save is over).  Every write had
// returned before the save, so every live entry must be in the stream and come back from LoadCacheFrom with its value and
// deadline.  Judged by spec/SaveHist.tla.

import (
	"bufio"
	"bytes"
	"encoding/json"
	"os"
	"sync"
	"testing"
	"time"
)

type saveScenario struct {
	N        int   `json:"n"`        // keys 0..N-1 written before the save
	Max      int   `json:"max"`      // MaximumSize of source and target (>= N: everything fits)
	RunFirst int   `json:"runfirst"` // executor tasks that run immediately; later ones are parked until after the save
	Rewrite  int   `json:"rewrite"`  // keys 0..Rewrite-1 are written a second time (update tasks)
	TTL      int64 `json:"ttl"`      // seconds, ExpiryWriting
	Seed     int64 `json:"seed"`
}

type saveResult struct {
	T      string       `json:"t"`
	Sc     saveScenario `json:"sc"`
	Src    [][]int64    `json:"src"` // [key, value, deadline in seconds] of every live entry of the source (GetEntryQuietly), sorted by key
	Tgt    [][]int64    `json:"tgt"` // the same for the target after LoadCacheFrom
	Parked int          `json:"parked"`
	Err    string       `json:"err"`
}

func runSaveScenario(sc saveScenario) saveResult {
	const sec = int64(time.Second)
	base := int64(1_000_000_000)
	res := saveResult{T: "save", Sc: sc, Src: [][]int64{}, Tgt: [][]int64{}}
	var mu sync.Mutex
	var parked []func()
	ran := 0
	exec := func(fn func()) {
		mu.Lock()
		if ran < sc.RunFirst {
			ran++
			mu.Unlock()
			fn()
			return
		}
		parked = append(parked, fn)
		mu.Unlock()
	}
	clk := newManualClock(base)
	mk := func(e func(func())) *Cache[int, int] {
		return Must(&Options[int, int]{MaximumSize: sc.Max, Clock: clk, Executor: e,
			ExpiryCalculator: ExpiryWriting[int, int](time.Duration(sc.TTL) * time.Second)})
	}
	src := mk(exec)
	defer src.StopAllGoroutines()
	for k := 0; k < sc.N; k++ {
		src.Set(k, 100+k)
		clk.now.Add(sec)
	}
	for k := 0; k < sc.Rewrite && k < sc.N; k++ {
		src.Set(k, 200+k)
	}
	proj := func(c *Cache[int, int]) [][]int64 {
		out := [][]int64{}
		for k := 0; k < sc.N; k++ {
			if e, ok := c.GetEntryQuietly(k); ok {
				out = append(out, []int64{int64(k), int64(e.Value), (e.ExpiresAtNano - base) / sec})
			}
		}
		return out
	}
	res.Src = proj(src)
	var buf bytes.Buffer
	if err := SaveCacheTo(src, &buf); err != nil {
		res.Err = "save"
		return res
	}
	mu.Lock()
	res.Parked = len(parked)
	todo := append([]func(){}, parked...)
	parked = nil
	ran = -1 << 30
	mu.Unlock()
	tgt := mk(func(fn func()) { fn() })
	defer tgt.StopAllGoroutines()
	if err := LoadCacheFrom(tgt, &buf); err != nil {
		res.Err = "load"
		return res
	}
	tgt.CleanUp()
	res.Tgt = proj(tgt)
	for _, fn := range todo {
		fn()
	}
	return res
}

func TestVerifSave(t *testing.T) {
	out := os.Getenv("VERIF_OUT")
	if out == "" {
		t.Skip("VERIF_OUT not set")
	}
	b, err := os.ReadFile(os.Getenv("VERIF_IN"))
	if err != nil {
		t.Fatal(err)
	}
	var scs []saveScenario
	if err := json.Unmarshal(b, &scs); err != nil {
		t.Fatal(err)
	}
	f, err := os.Create(out)
	if err != nil {
		t.Fatal(err)
	}
	defer f.Close()
	w := bufio.NewWriter(f)
	defer w.Flush()
	enc := json.NewEncoder(w)
	for _, sc := range scs {
		_ = enc.Encode(runSaveScenario(sc))
	}
}
