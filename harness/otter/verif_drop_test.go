package otter

// C17 "dropping reads never changes what any cache operation returns": the same script is run twice on caches of the same
// configuration (expire-after-access, same-goroutine executor, one goroutine).  In run A reads pile up in the read buffer
// until it is full; the read that finds it full is dropped and makes the caller run maintenance.  In run B maintenance runs
// before every read, so every read is recorded.  The clock moves DURING an operation: the first sample of an operation
// returns T, every later sample of the same operation (the maintenance a dropped read triggers) returns T + delta, and the
// next operation starts at T + delta.  The results of all operations must be the same in both runs (spec/DropHist.tla).

import (
	"bufio"
	"encoding/json"
	"math/rand"
	"os"
	"sync/atomic"
	"testing"
	"time"
)

type opClock struct {
	t     atomic.Int64
	delta int64
	calls atomic.Int64
	flat  atomic.Bool
	never chan time.Time
}

func (c *opClock) NowNano() int64 {
	if c.calls.Add(1) == 1 || c.flat.Load() {
		return c.t.Load()
	}
	return c.t.Load() + c.delta
}
func (c *opClock) Tick(time.Duration) <-chan time.Time { return c.never }

type dropScenario struct {
	Seed  int64 `json:"seed"`
	NKeys int   `json:"nkeys"`
	TTL   int64 `json:"ttl"`   // units
	Delta int64 `json:"delta"` // units the clock moves inside / after every operation
	NOps  int   `json:"nops"`
	Sized int   `json:"sized"`
}

type dropOp struct {
	Op string `json:"op"`
	K  int    `json:"k"`
	V  int    `json:"v"`
	D  int64  `json:"d"`
}

type dropResult struct {
	T   string       `json:"t"`
	Sc  dropScenario `json:"sc"`
	Ops []dropOp     `json:"ops"`
	A   [][]int      `json:"a"` // [found / inserted flag, value] per operation, reads dropped when the buffer is full
	B   [][]int      `json:"b"` // the same script with every read recorded
}

func runDropOnce(sc dropScenario, ops []dropOp, recordAll bool) [][]int {
	const unit = int64(1) << 30 // one unit = one tick of the timer wheel
	clk := &opClock{delta: sc.Delta * unit, never: make(chan time.Time)}
	clk.t.Store(100 * unit)
	o := &Options[int, int]{Clock: clk, Executor: func(fn func()) { fn() },
		ExpiryCalculator: ExpiryAccessing[int, int](time.Duration(sc.TTL * unit))}
	if sc.Sized == 1 {
		o.MaximumSize = 1 << 16
	}
	c := Must(o)
	defer c.StopAllGoroutines()
	out := [][]int{}
	b2i := func(b bool) int {
		if b {
			return 1
		}
		return 0
	}
	for _, op := range ops {
		clk.t.Add(clk.delta)
		if op.Op == "adv" {
			clk.t.Add(op.D * unit)
			out = append(out, []int{0, 0})
			continue
		}
		if recordAll && (op.Op == "get" || op.Op == "getentry") {
			clk.flat.Store(true)
			clk.calls.Store(0)
			c.CleanUp()
			clk.flat.Store(false)
		}
		clk.calls.Store(0)
		switch op.Op {
		case "get":
			v, ok := c.GetIfPresent(op.K)
			out = append(out, []int{b2i(ok), v})
			if !ok {
				// cache-aside: a miss is followed by a write, so that the keys are present most of the time
				clk.t.Add(clk.delta)
				clk.calls.Store(0)
				c.Set(op.K, op.V)
			}
		case "getentry":
			e, ok := c.GetEntry(op.K)
			out = append(out, []int{b2i(ok), e.Value})
		case "set":
			v, ok := c.Set(op.K, op.V)
			out = append(out, []int{b2i(ok), v})
		case "setifabsent":
			v, ok := c.SetIfAbsent(op.K, op.V)
			out = append(out, []int{b2i(ok), v})
		case "inv":
			v, ok := c.Invalidate(op.K)
			out = append(out, []int{b2i(ok), v})
		}
	}
	return out
}

func runDropScenario(sc dropScenario) dropResult {
	rng := rand.New(rand.NewSource(sc.Seed))
	ops := make([]dropOp, 0, sc.NOps)
	for i := 0; i < sc.NOps; i++ {
		if sc.TTL == 18*sc.Delta-1 && i%97 == 40 {
			// motif: B is written (the write drains the read buffer), sixteen reads of A fill the buffer, the seventeenth read
			// is B's, shortly before B's deadline - it finds the buffer full, is dropped, and makes its caller run maintenance
			a, b := rng.Intn(sc.NKeys), rng.Intn(sc.NKeys)
			for b == a {
				b = rng.Intn(sc.NKeys)
			}
			ops = append(ops, dropOp{Op: "set", K: a, V: 7000 + i}, dropOp{Op: "set", K: b, V: 8000 + i})
			for j := 0; j < 16; j++ {
				ops = append(ops, dropOp{Op: "get", K: a, V: 9000 + i})
			}
			ops = append(ops, dropOp{Op: "get", K: b, V: 9100 + i}, dropOp{Op: "get", K: b, V: 9200 + i}, dropOp{Op: "get", K: a, V: 9300 + i})
		}
		x := rng.Intn(100)
		k := rng.Intn(sc.NKeys)
		switch {
		case x < 80:
			ops = append(ops, dropOp{Op: "get", K: k, V: 5000 + i})
		case x < 86:
			ops = append(ops, dropOp{Op: "getentry", K: k})
		case x < 92:
			ops = append(ops, dropOp{Op: "set", K: k, V: 1000 + i})
		case x < 94:
			ops = append(ops, dropOp{Op: "setifabsent", K: k, V: 1000 + i})
		case x < 95:
			ops = append(ops, dropOp{Op: "inv", K: k})
		default:
			ops = append(ops, dropOp{Op: "adv", D: int64(1 + rng.Intn(int(sc.TTL)/2+1))})
		}
	}
	return dropResult{T: "drop", Sc: sc, Ops: ops, A: runDropOnce(sc, ops, false), B: runDropOnce(sc, ops, true)}
}

func TestVerifDrop(t *testing.T) {
	out := os.Getenv("VERIF_OUT")
	if out == "" {
		t.Skip("VERIF_OUT not set")
	}
	b, err := os.ReadFile(os.Getenv("VERIF_IN"))
	if err != nil {
		t.Fatal(err)
	}
	var scs []dropScenario
	if err := json.Unmarshal(b, &scs); err != nil {
		t.Fatal(err)
	}
	f, err := os.Create(out)
	if err != nil {
		t.Fatal(err)
	}
	defer f.Close()
	w := bufio.NewWriter(f)
	defer w.Flush()
	enc := json.NewEncoder(w)
	for _, sc := range scs {
		_ = enc.Encode(runDropScenario(sc))
	}
}
