package otter

import "github.com/maypok86/otter/v2/internal/verifhook"

func verifhookInstall(f func(id string, v uint64)) { verifhook.Install(f) }

// verifhookPoint lets harness callbacks (a loader) be a scheduling point like a library hook.
func verifhookPoint(id string) { verifhook.Point(id) }
