package otter

// C18 driver: the real frequency sketch (all capacities incl. non powers of two and growth through
// ensureCapacity, fresh hash seeds per run) and policy.admit with an injected random source.  After every call
// the estimates of all driver keys are logged; spec/SketchTrace.tla folds the abstract lower bounds of Sketch.tla.

import (
	"bufio"
	"encoding/json"
	"math"
	"math/rand"
	"os"
	"strconv"
	"testing"
)

type skRec struct {
	Tp     string `json:"tp"` // reset | ensure | inc | admit
	K      int    `json:"k"`
	Cap    int64  `json:"cap"`
	Grew   int    `json:"grew"`   // ensure: 1 = the table was re-allocated
	Inited int    `json:"inited"`
	Size   int64  `json:"size"`
	Sample int64  `json:"sample"`
	Aged   int    `json:"aged"`   // inc: 1 = the increment triggered the aging step
	Est    []int  `json:"est"`
	FC     int    `json:"fc"`
	FV     int    `json:"fv"`
	R      int64  `json:"r"`
	Admit  int    `json:"admit"`
}

func TestVerifSketch(t *testing.T) {
	out := os.Getenv("VERIF_OUT")
	if out == "" {
		t.Skip("VERIF_OUT not set")
	}
	seed, _ := strconv.ParseInt(os.Getenv("VERIF_SEED"), 10, 64)
	nruns, _ := strconv.Atoi(os.Getenv("VERIF_N"))
	nops, _ := strconv.Atoi(os.Getenv("VERIF_LEN"))
	if nruns == 0 {
		nruns = 20
	}
	if nops == 0 {
		nops = 300
	}
	f, err := os.Create(out)
	if err != nil {
		t.Fatal(err)
	}
	defer f.Close()
	w := bufio.NewWriterSize(f, 1<<20)
	defer w.Flush()
	enc := json.NewEncoder(w)
	rng := rand.New(rand.NewSource(seed))
	caps := []int64{1, 2, 3, 5, 7, 8, 9, 13, 16, 17, 31, 33, 64, 70, 100, 1000, 4097}
	for run := 0; run < nruns; run++ {
		switch {
		case run%6 == 4: // floating-point keys with both spellings of zero
			sketchRun[float64](enc, rng, run, nops, caps, func(i int) float64 {
				if i == 0 {
					if rng.Intn(2) == 0 {
						return math.Copysign(0, -1)
					}
					return 0
				}
				return float64(i) + 0.5
			})
		case run%6 == 5: // string keys built afresh for every call (equal contents, different backing arrays)
			sketchRun[string](enc, rng, run, nops, caps, func(i int) string { return string(append([]byte("key-"), byte('a'+i))) })
		default:
			sketchRun[int](enc, rng, run, nops, caps, func(i int) int { return i })
		}
	}
}

// sketchRun: one run of the driver for key type K.  The driver thinks in key indices 0..nkeys-1; key(i) spells the key (for
// floating-point keys index 0 is zero, spelled +0 or -0 at random: the two compare equal, they are one key).
func sketchRun[K comparable](enc *json.Encoder, rng *rand.Rand, run, nops int, caps []int64, key func(i int) K) {
	const nkeys = 12
	{
		s := newSketch[K]()
		ests := func() []int {
			e := make([]int, nkeys)
			for k := 0; k < nkeys; k++ {
				e[k] = int(s.frequency(key(k)))
			}
			return e
		}
		_ = enc.Encode(skRec{Tp: "reset", Est: ests()})
		p := newPolicy[K, int](false)
		p.sketch = s
		// a hot subset so that estimates saturate, a cold tail so that collisions matter
		// every fourth run is sparse: a tiny table and (almost) a single key, so that whole table words hold nothing but
		// the counters of that key - all of them even or all of them odd when the aging step fires
		sparse := run%4 == 3
		main := rng.Intn(nkeys)
		for op := 0; op < nops; op++ {
			rec := skRec{}
			x := rng.Intn(20)
			if sparse && x < 3 && op > 1 && rng.Intn(4) != 0 {
				x = 10
			}
			switch {
			case x == 0 || op == 1:
				c := caps[rng.Intn(len(caps))]
				if sparse {
					c = caps[rng.Intn(3)]
				}
				before := len(s.table)
				s.ensureCapacity(uint64(c))
				rec.Tp, rec.Cap = "ensure", c
				if len(s.table) != before {
					rec.Grew = 1
				}
			case x < 3:
				ck, vk := rng.Intn(nkeys), rng.Intn(nkeys)
				r := uint32(rng.Intn(1024))
				if rng.Intn(3) == 0 {
					r = uint32(rng.Intn(8)) * 128
				}
				p.rand = func() uint32 { return r }
				rec.Tp, rec.K = "admit", ck
				rec.FC, rec.FV, rec.R = int(s.frequency(key(ck))), int(s.frequency(key(vk))), int64(r)
				if p.admit(key(ck), key(vk)) {
					rec.Admit = 1
				}
			default:
				k := rng.Intn(nkeys)
				if rng.Intn(3) != 0 {
					k = rng.Intn(3) // hot keys
				}
				if sparse && rng.Intn(12) != 0 {
					k = main
				}
				before := s.size
				s.increment(key(k))
				rec.Tp, rec.K = "inc", k
				if s.size < before {
					rec.Aged = 1
				}
			}
			if s.isInitialized.Load() {
				rec.Inited = 1
			}
			rec.Size, rec.Sample = int64(s.size), int64(s.sampleSize)
			rec.Est = ests()
			_ = enc.Encode(rec)
		}
	}
}
