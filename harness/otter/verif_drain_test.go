package otter

// C14 driver: the drain-status / eviction-mutex / token protocol under controlled schedules (binding B2).
//
// A scenario (writers x writes, optional extra holders of the eviction mutex) is run on a real cache with
// the DEFAULT executor and a size-only configuration.  All goroutines - including the ones the cache's
// executor spawns, adopted when they reach their first hook - are serialised by verifkit.Sched at the
// verifhook points that carry the labels of spec/Drain.tla; the order is a script derived from a TLC
// behaviour of Drain.tla, or a seeded random / PCT policy.  After the last goroutine has finished and
// WITHOUT any further cache call the audit reads drainStatus, the write buffer, the delivered deletion
// notifications and the contents.

import (
	"strings"
	"bufio"
	"encoding/json"
	"os"
	"strconv"
	"sync"
	"sync/atomic"
	"testing"
	"time"

	"github.com/maypok86/otter/v2/internal/verifkit"
)

type drainScenario struct {
	Writers int             `json:"writers"`
	Writes  int             `json:"writes"`
	Holders []string        `json:"holders"` // invalidateAll | order | getmax | cleanup | reader | setmax | wsize
	Max     int             `json:"max"`
	Policy  string          `json:"policy"` // random | pct | script
	Seed    int64           `json:"seed"`
	Script  []verifkit.Step `json:"script"`
	SameKey bool            `json:"samekey"`
}

type drainResult struct {
	T        string           `json:"t"`
	Sc       drainScenario    `json:"sc"`
	Diag     string           `json:"diag"`
	Status   uint32           `json:"status"`
	Wbuf     uint64           `json:"wbuf"`
	NA       int64            `json:"na"`
	ND       int64            `json:"nd"`
	Size     int              `json:"size"`
	Max      int              `json:"max"`
	Drift    int              `json:"drift"`
	Blocked  int              `json:"blocked"`
	Steps    int              `json:"steps"`
	ScriptN  int              `json:"scriptn"`
	Size2    int              `json:"size2"` // size after an explicit CleanUp (tells a stranded run from a bookkeeping defect)
	Stranded int              `json:"stranded"`
	Log      []verifkit.Event `json:"log"`
}

var drainPoints = map[string]bool{
	"aw.push": true, "saw.load": true, "saw.casIdle": true, "saw.casP2I": true,
	"sdb.load1": true, "sdb.tryLock": true, "sdb.load2": true, "sdb.unlockBusy": true, "sdb.storeP2I": true,
	"sdb.exec": true, "sdb.token": true, "sdb.unlock": true,
	"db.enter": true, "db.token": true, "db.unlock": true, "pc.lock": true, "pc.unlock": true,
	"mt.storeP2I": true, "mt.pop": true, "mt.final": true, "mt.storeReq": true, "mt.storeP2R": true,
	"rs.load": true, "ia.lock": true, "ia.drained": true, "ia.unlock": true, "eo.lock": true, "eo.unlock": true,
	"sm.lock": true, "sm.unlock": true, "get.afterLookup": true,
}

func runDrainScenario(sc drainScenario, keepLog bool) drainResult {
	var na, nd atomic.Int64
	c := Must(&Options[int, int]{
		MaximumSize:      sc.Max,
		OnAtomicDeletion: func(e DeletionEvent[int, int]) { na.Add(1) },
		OnDeletion:       func(e DeletionEvent[int, int]) { nd.Add(1) },
	})
	s := verifkit.NewSched(sc.Seed)
	s.Adopt = true
	s.Policy = sc.Policy
	s.Script = append([]verifkit.Step{}, sc.Script...)
	s.Filter = func(id string) bool { return drainPoints[id] }
	s.Observe = func() []int64 {
		return []int64{int64(c.cache.drainStatus.Load()), int64(c.cache.writeBuffer.Size())}
	}
	for w := 1; w <= sc.Writers; w++ {
		w := w
		s.Go("w"+strconv.Itoa(w), func() {
			for j := 0; j < sc.Writes; j++ {
				k := w*100 + j
				if sc.SameKey {
					k = j
				}
				c.Set(k, w*1000+j)
			}
		})
	}
	for i, kind := range sc.Holders {
		kind := kind
		s.Go("h"+strconv.Itoa(i+1), func() {
			switch kind {
			case "invalidateAll":
				c.InvalidateAll()
			case "order":
				for range c.Coldest() {
				}
			case "orderbreak":
				// the consumer leaves the iteration early: the unlock on that path must reschedule as well
				for range c.Hottest() {
					break
				}
			case "getmax":
				c.GetMaximum()
			case "cleanup":
				c.CleanUp()
			case "reader":
				c.GetIfPresent(-1)
			case "setmax":
				c.SetMaximum(uint64(sc.Max))
			case "wsize":
				c.WeightedSize()
			}
		})
	}
	diag := s.Run()
	if diag != "" && diag != "step limit" && !strings.HasPrefix(diag, "panic") && s.WaitDone(5*time.Second) {
		diag = ""
	}
	// let goroutines released at the end of Run drain away; no cache call is made from here on
	deadline := time.Now().Add(300 * time.Millisecond)
	for time.Now().Before(deadline) {
		if c.cache.drainStatus.Load() == idle && c.cache.writeBuffer.Size() == 0 && na.Load() == nd.Load() {
			break
		}
		time.Sleep(2 * time.Millisecond)
	}
	time.Sleep(5 * time.Millisecond)
	r := drainResult{T: "run", Sc: sc, Diag: diag, Status: c.cache.drainStatus.Load(), Wbuf: c.cache.writeBuffer.Size(),
		NA: na.Load(), ND: nd.Load(), Size: c.cache.hashmap.Size(), Max: sc.Max, Drift: s.Drift, Blocked: s.Blocked,
		Steps: len(s.Log), ScriptN: len(sc.Script)}
	c.CleanUp()
	r.Size2 = c.cache.hashmap.Size()
	// the bound counts as "not restored by the protocol" only if an explicit maintenance run does restore it;
	// otherwise the policy bookkeeping is at fault (C04/C05), not the wake-up protocol
	if r.Status != idle || r.Wbuf != 0 || r.NA != r.ND || (r.Size > r.Max && r.Size2 <= r.Max) {
		r.Stranded = 1
	}
	if keepLog || r.Stranded == 1 {
		r.Log = s.Log
	}
	r.Sc.Script = nil
	if r.Stranded == 1 {
		r.Sc.Script = sc.Script
	}
	return r
}

// TestVerifDrain: VERIF_IN = JSON array of scenarios; VERIF_OUT = NDJSON results.
func TestVerifDrain(t *testing.T) {
	out := os.Getenv("VERIF_OUT")
	if out == "" {
		t.Skip("VERIF_OUT not set")
	}
	b, err := os.ReadFile(os.Getenv("VERIF_IN"))
	if err != nil {
		t.Fatal(err)
	}
	var scs []drainScenario
	if err := json.Unmarshal(b, &scs); err != nil {
		t.Fatal(err)
	}
	f, err := os.Create(out)
	if err != nil {
		t.Fatal(err)
	}
	defer f.Close()
	w := bufio.NewWriter(f)
	defer w.Flush()
	enc := json.NewEncoder(w)
	var mu sync.Mutex
	_ = mu
	keep := os.Getenv("VERIF_KEEPLOG") == "1"
	for i, sc := range scs {
		r := runDrainScenario(sc, keep && i < 3)
		_ = enc.Encode(r)
		if strings.HasPrefix(r.Diag, "panic") || strings.HasPrefix(r.Diag, "hang") {
			break
		}
	}
}
