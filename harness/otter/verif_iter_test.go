package otter

// C15 at the level of the cache's iterators (All / Keys / Values go through cache.nodes()): while writers keep REPLACING the
// values of a set of stable keys (present for the whole run) and churn other keys, every iteration must yield every stable
// key exactly once and no key twice.  Judged by spec/IterHist.tla.

import (
	"iter"
	"bufio"
	"encoding/json"
	"os"
	"sync"
	"sync/atomic"
	"testing"
	"time"

	"github.com/maypok86/otter/v2/stats"
)

type itScenario struct {
	Stable  int    `json:"stable"`  // keys 0..Stable-1 are written before the race and only ever replaced during it
	Churn   int    `json:"churn"`   // keys 1000.. are inserted and invalidated during the race
	Writers int    `json:"writers"`
	Iters   int    `json:"iters"`
	Bounded int    `json:"bounded"` // 1 = MaximumSize far above the population (nodes carry a life-cycle state)
	Expiry  int    `json:"expiry"`  // 1 = ExpiryWriting(1h) on a frozen clock
	Kind    string `json:"kind"`    // all | keys | values | coldest | hottest
	Seed    int64  `json:"seed"`
	// loop-body scenarios (sequential): the consumer of the iterator acts between two yields
	Body int     `json:"body"` // 1 = loop-body scenario
	N    int     `json:"n"`    // keys 0..N-1, key k written at second k*Step with a lifetime of TTL seconds
	TTL  int64   `json:"ttl"`
	Step int64   `json:"step"`
	Acts []itAct `json:"acts"`
	Pre  int64   `json:"pre"` // the iterator is obtained first, the clock moves by Pre seconds, only then is it consumed
}

// itAct: what the loop body does after the At-th yield (0-based): adv = the clock moves by D seconds, set = Set(K, new
// value), inv = Invalidate(K)
type itAct struct {
	At  int    `json:"at"`
	Act string `json:"act"`
	K   int    `json:"k"`
	D   int64  `json:"d"`
}

type itBodyResult struct {
	T      string     `json:"t"`
	Sc     itScenario `json:"sc"`
	Exp    []int64    `json:"exp"`    // deadline of key k in seconds when the iteration starts (-1: absent)
	T0     int64      `json:"t0"`     // clock when the iteration starts
	Yields [][]int64  `json:"yields"` // [key, value (or -1), clock at the yield]
	St0    []int64    `json:"st0"`    // hits, misses before
	St1    []int64    `json:"st1"`    // hits, misses after
	Done   [][]int64  `json:"done"`   // the loop body's writes as performed: [key, 1 = set / 0 = invalidate, new value, clock, new deadline]
}

// runIterBody: one goroutine, same-goroutine executor, manual clock.  The loop body of the iteration moves the clock,
// replaces values and invalidates keys; every yield is logged with the clock at that moment.
func runIterBody(sc itScenario) itBodyResult {
	const sec = int64(time.Second)
	base := int64(1_000_000_000)
	clk := newManualClock(base)
	ctr := stats.NewCounter()
	o := &Options[int, int]{Clock: clk, Executor: func(fn func()) { fn() }, StatsRecorder: ctr,
		ExpiryCalculator: ExpiryWritingFunc[int, int](func(e Entry[int, int]) time.Duration {
			if e.Value >= 5_000_000 {
				return 2 * time.Second // a rewrite marked "short": the new value dies long before the old one would have
			}
			return time.Duration(sc.TTL) * time.Second
		})}
	if sc.Bounded == 1 {
		o.MaximumSize = 1 << 20
	}
	c := Must(o)
	defer c.StopAllGoroutines()
	res := itBodyResult{T: "iterbody", Sc: sc, Exp: []int64{}, Yields: [][]int64{}, Done: [][]int64{}}
	for k := 0; k < sc.N; k++ {
		c.Set(k, k)
		clk.now.Add(sc.Step * sec)
	}
	for k := 0; k < sc.N; k++ {
		if e, ok := c.GetEntryQuietly(k); ok {
			res.Exp = append(res.Exp, (e.ExpiresAtNano-base)/sec)
		} else {
			res.Exp = append(res.Exp, -1)
		}
	}
	snap := func() []int64 {
		st := c.Stats()
		return []int64{int64(st.Hits), int64(st.Misses)} //nolint:gosec // small
	}
	res.St0 = snap()
	res.T0 = (clk.NowNano() - base) / sec
	idx := 0
	ver := 1
	body := func(k, v int) {
		res.Yields = append(res.Yields, []int64{int64(k), int64(v), (clk.NowNano() - base) / sec})
		for _, a := range sc.Acts {
			if a.At != idx {
				continue
			}
			switch a.Act {
			case "adv":
				clk.now.Add(a.D * sec)
			case "set", "setshort":
				v := a.K + 10000*ver
				life := sc.TTL
				if a.Act == "setshort" {
					v += 5_000_000
					life = 2
				}
				c.Set(a.K, v)
				ver++
				now := (clk.NowNano() - base) / sec
				res.Done = append(res.Done, []int64{int64(a.K), 1, int64(v), now, now + life})
			case "inv":
				c.Invalidate(a.K)
				res.Done = append(res.Done, []int64{int64(a.K), 0, 0, (clk.NowNano() - base) / sec, 0})
			}
		}
		idx++
	}
	// the iterator is obtained ... (an iterator is a value: it may be kept and consumed later)
	var (
		itAll  iter.Seq2[int, int]
		itKeys iter.Seq[int]
		itVals iter.Seq[int]
		itEnts iter.Seq[Entry[int, int]]
	)
	switch sc.Kind {
	case "keys":
		itKeys = c.Keys()
	case "values":
		itVals = c.Values()
	case "coldest":
		itEnts = c.Coldest()
	case "hottest":
		itEnts = c.Hottest()
	default:
		itAll = c.All()
	}
	// ... time passes ...
	if sc.Pre > 0 {
		clk.now.Add(sc.Pre * sec)
		res.T0 = (clk.NowNano() - base) / sec
	}
	// ... and only now is it consumed
	switch sc.Kind {
	case "keys":
		for k := range itKeys {
			body(k, -1)
		}
	case "values":
		for v := range itVals {
			body(v%10000, v)
		}
	case "coldest", "hottest":
		for e := range itEnts {
			body(e.Key, e.Value)
		}
	default:
		for k, v := range itAll {
			body(k, v)
		}
	}
	res.St1 = snap()
	return res
}

type itResult struct {
	T     string     `json:"t"`
	Sc    itScenario `json:"sc"`
	Iters [][]int    `json:"iters"` // stable keys yielded by each iteration, in order (values: the key is recovered from the value)
}

func runIterScenario(sc itScenario) itResult {
	res := itResult{T: "iter", Sc: sc, Iters: [][]int{}}
	o := &Options[int, int]{Clock: newManualClock(1_000_000_000)}
	if sc.Bounded == 1 {
		o.MaximumSize = 1 << 20
	}
	if sc.Expiry == 1 {
		o.ExpiryCalculator = ExpiryWriting[int, int](time.Hour)
	}
	c := Must(o)
	defer c.StopAllGoroutines()
	// a value encodes its key: v = key + 10000 * version
	for k := 0; k < sc.Stable; k++ {
		c.Set(k, k)
	}
	var stop atomic.Bool
	var wg sync.WaitGroup
	for w := 0; w < sc.Writers; w++ {
		wg.Add(1)
		go func(w int) {
			defer wg.Done()
			ver := 1
			for !stop.Load() {
				for k := 0; k < sc.Stable; k++ {
					if (k+w)%2 == 0 {
						c.Set(k, k+10000*ver)
					} else {
						c.Compute(k, func(old int, found bool) (int, ComputeOp) { return k + 10000*ver, WriteOp })
					}
				}
				for i := 0; i < sc.Churn; i++ {
					c.Set(1000+i+w*100, 1000+i+w*100)
				}
				for i := 0; i < sc.Churn; i++ {
					c.Invalidate(1000 + i + w*100)
				}
				ver++
			}
		}(w)
	}
	for r := 0; r < sc.Iters; r++ {
		got := []int{}
		switch sc.Kind {
		case "keys":
			for k := range c.Keys() {
				if k < 1000 {
					got = append(got, k)
				}
			}
		case "values":
			for v := range c.Values() {
				if k := v % 10000; k < 1000 {
					got = append(got, k)
				}
			}
		default:
			for k := range c.All() {
				if k < 1000 {
					got = append(got, k)
				}
			}
		}
		res.Iters = append(res.Iters, got)
	}
	stop.Store(true)
	wg.Wait()
	return res
}

// TestVerifIter: VERIF_IN = JSON array of scenarios; VERIF_OUT = NDJSON results.
func TestVerifIter(t *testing.T) {
	out := os.Getenv("VERIF_OUT")
	if out == "" {
		t.Skip("VERIF_OUT not set")
	}
	b, err := os.ReadFile(os.Getenv("VERIF_IN"))
	if err != nil {
		t.Fatal(err)
	}
	var scs []itScenario
	if err := json.Unmarshal(b, &scs); err != nil {
		t.Fatal(err)
	}
	f, err := os.Create(out)
	if err != nil {
		t.Fatal(err)
	}
	defer f.Close()
	w := bufio.NewWriter(f)
	defer w.Flush()
	enc := json.NewEncoder(w)
	for _, sc := range scs {
		if sc.Acts == nil {
			sc.Acts = []itAct{} // never "null" in a record
		}
		if sc.Body == 1 {
			_ = enc.Encode(runIterBody(sc))
			continue
		}
		_ = enc.Encode(runIterScenario(sc))
	}
}
