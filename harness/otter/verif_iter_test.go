package otter

// C15 at the level of the cache's iterators (All / Keys / Values go through cache.nodes()): while writers keep REPLACING the
// values of a set of stable keys (present for the whole run) and churn other keys, every iteration must yield every stable
// key exactly once and no key twice.  Judged by spec/IterHist.tla.

import (
	"bufio"
	"encoding/json"
	"os"
	"sync"
	"sync/atomic"
	"testing"
	"time"
)

type itScenario struct {
	Stable  int    `json:"stable"`  // keys 0..Stable-1 are written before the race and only ever replaced during it
	Churn   int    `json:"churn"`   // keys 1000.. are inserted and invalidated during the race
	Writers int    `json:"writers"`
	Iters   int    `json:"iters"`
	Bounded int    `json:"bounded"` // 1 = MaximumSize far above the population (nodes carry a life-cycle state)
	Expiry  int    `json:"expiry"`  // 1 = ExpiryWriting(1h) on a frozen clock
	Kind    string `json:"kind"`    // all | keys | values
	Seed    int64  `json:"seed"`
}

type itResult struct {
	T     string     `json:"t"`
	Sc    itScenario `json:"sc"`
	Iters [][]int    `json:"iters"` // stable keys yielded by each iteration, in order (values: the key is recovered from the value)
}

func runIterScenario(sc itScenario) itResult {
	res := itResult{T: "iter", Sc: sc, Iters: [][]int{}}
	o := &Options[int, int]{Clock: newManualClock(1_000_000_000)}
	if sc.Bounded == 1 {
		o.MaximumSize = 1 << 20
	}
	if sc.Expiry == 1 {
		o.ExpiryCalculator = ExpiryWriting[int, int](time.Hour)
	}
	c := Must(o)
	defer c.StopAllGoroutines()
	// a value encodes its key: v = key + 10000 * version
	for k := 0; k < sc.Stable; k++ {
		c.Set(k, k)
	}
	var stop atomic.Bool
	var wg sync.WaitGroup
	for w := 0; w < sc.Writers; w++ {
		wg.Add(1)
		go func(w int) {
			defer wg.Done()
			ver := 1
			for !stop.Load() {
				for k := 0; k < sc.Stable; k++ {
					if (k+w)%2 == 0 {
						c.Set(k, k+10000*ver)
					} else {
						c.Compute(k, func(old int, found bool) (int, ComputeOp) { return k + 10000*ver, WriteOp })
					}
				}
				for i := 0; i < sc.Churn; i++ {
					c.Set(1000+i+w*100, 1000+i+w*100)
				}
				for i := 0; i < sc.Churn; i++ {
					c.Invalidate(1000 + i + w*100)
				}
				ver++
			}
		}(w)
	}
	for r := 0; r < sc.Iters; r++ {
		got := []int{}
		switch sc.Kind {
		case "keys":
			for k := range c.Keys() {
				if k < 1000 {
					got = append(got, k)
				}
			}
		case "values":
			for v := range c.Values() {
				if k := v % 10000; k < 1000 {
					got = append(got, k)
				}
			}
		default:
			for k := range c.All() {
				if k < 1000 {
					got = append(got, k)
				}
			}
		}
		res.Iters = append(res.Iters, got)
	}
	stop.Store(true)
	wg.Wait()
	return res
}

// TestVerifIter: VERIF_IN = JSON array of scenarios; VERIF_OUT = NDJSON results.
func TestVerifIter(t *testing.T) {
	out := os.Getenv("VERIF_OUT")
	if out == "" {
		t.Skip("VERIF_OUT not set")
	}
	b, err := os.ReadFile(os.Getenv("VERIF_IN"))
	if err != nil {
		t.Fatal(err)
	}
	var scs []itScenario
	if err := json.Unmarshal(b, &scs); err != nil {
		t.Fatal(err)
	}
	f, err := os.Create(out)
	if err != nil {
		t.Fatal(err)
	}
	defer f.Close()
	w := bufio.NewWriter(f)
	defer w.Flush()
	enc := json.NewEncoder(w)
	for _, sc := range scs {
		_ = enc.Encode(runIterScenario(sc))
	}
}
