package lossy

// C17 driver: recorders and the single draining consumer of the real lossy read buffer - one ring directly
// (schedules from spec/Ring.tla, random, PCT) or the striped buffer (stripe creation and table expansion under
// contention; gate-scheduled or free running with yields).  Histories are judged by spec/RingHist.tla.

import (
	"bufio"
	"encoding/json"
	"os"
	"strconv"
	"strings"
	"sync"
	"sync/atomic"
	"testing"
	"time"

	"github.com/maypok86/otter/v2/internal/generated/node"
	"github.com/maypok86/otter/v2/internal/verifhook"
	"github.com/maypok86/otter/v2/internal/verifkit"
)

type ringScenario struct {
	Level   string          `json:"level"` // ring | striped
	Adders  int             `json:"adders"`
	NAdd    int             `json:"nadd"`
	MaxLen  int             `json:"maxlen"` // striped: maximum number of stripes
	Policy  string          `json:"policy"` // random | pct | script | free
	Seed    int64           `json:"seed"`
	Script  []verifkit.Step `json:"script"`
	Compact int             `json:"compact"` // 1 = storm run: only the anomalies are logged (lost / phantom / dups), not every add
}

type ringAdd struct {
	A  int `json:"a"`
	ID int `json:"id"`
	St int `json:"st"` // 0 Success, -1 Failed, 1 Full
}

type ringResult struct {
	T         string       `json:"t"`
	Sc        ringScenario `json:"sc"`
	Diag      string       `json:"diag"`
	Adds      []ringAdd    `json:"adds"`
	Delivered []int        `json:"delivered"` // ids in delivery order (all passes, final pass last)
	MaxLen    int          `json:"maxlenseen"`
	Cap       int          `json:"cap"`
	Lost      []int        `json:"lost"`      // compact runs: Success adds never delivered
	Phantom   []int        `json:"phantom"`   // compact runs: delivered but not a Success add
	Dups      []int        `json:"dups"`      // compact runs: delivered more than once
	NAdds     int          `json:"nadds"`
	LeftLen   int          `json:"leftlen"` // Len() after the final drain
	Stripes   int          `json:"stripes"`
	Drift     int          `json:"drift"`
}

func runRingScenario(sc ringScenario) ringResult {
	res := ringResult{T: "ring", Sc: sc, Adds: []ringAdd{}, Delivered: []int{}, Lost: []int{}, Phantom: []int{}, Dups: []int{}}
	startGate := make(chan struct{})
	nm := node.NewManager[int, int](node.Config{})
	mk := func(id int) node.Node[int, int] { return nm.Create(id, id, 0, 0, 1) }
	var mu sync.Mutex
	var left atomic.Int64
	var stop atomic.Bool
	left.Store(int64(sc.Adders))
	var r *ring[int, int]
	var st *Striped[int, int]
	if sc.Level == "ring" {
		r = newRing(nm, mk(1000))
		res.Adds = append(res.Adds, ringAdd{0, 1000, 0})
		res.Cap = bufferSize
	} else {
		st = NewStriped(sc.MaxLen, nm)
		res.Cap = bufferSize * sc.MaxLen
	}
	add := func(n node.Node[int, int]) Status {
		if r != nil {
			return r.add(n)
		}
		return st.Add(n)
	}
	curLen := func() int {
		if r != nil {
			return r.len()
		}
		return st.Len()
	}
	drain := func() {
		consumer := func(n node.Node[int, int]) { res.Delivered = append(res.Delivered, n.Key()) }
		if r != nil {
			r.drainTo(consumer)
		} else {
			st.DrainTo(consumer)
		}
	}
	adder := func(a int) func() {
		return func() {
			defer left.Add(-1)
			if sc.Policy == "raw" {
				<-startGate
			}
			local := make([]ringAdd, 0, sc.NAdd)
			nodes := make([]node.Node[int, int], sc.NAdd)
			for n := range nodes {
				nodes[n] = mk(a*100000 + n + 1)
			}
			defer func() {
				mu.Lock()
				res.Adds = append(res.Adds, local...)
				mu.Unlock()
			}()
			for n := 1; n <= sc.NAdd; n++ {
				id := a*100000 + n
				s := add(nodes[n-1])
				local = append(local, ringAdd{a, id, int(s)})
			}
		}
	}
	consumer := func() {
		for {
			final := left.Load() == 0
			if l := curLen(); l > res.MaxLen {
				res.MaxLen = l
			}
			drain()
			if final || stop.Load() {
				return
			}
		}
	}
	if sc.Policy == "free" || sc.Policy == "raw" {
		if sc.Policy == "free" {
			verifhook.Install(verifkit.Yielder(sc.Seed, 0.3))
		}
		var wg sync.WaitGroup
		for a := 1; a <= sc.Adders; a++ {
			wg.Add(1)
			fn := adder(a)
			go func() {
				defer wg.Done()
				if m := verifkit.Guard(fn); m != "" {
					mu.Lock()
					res.Diag = m
					mu.Unlock()
				}
			}()
		}
		close(startGate)
		wg.Add(1)
		go func() {
			defer wg.Done()
			if m := verifkit.Guard(consumer); m != "" {
				mu.Lock()
				res.Diag = m
				mu.Unlock()
			}
		}()
		if !waitTimeoutL(&wg, 20*time.Second) {
			mu.Lock()
			res.Diag = "hang: free-running goroutines did not finish"
			mu.Unlock()
		}
		verifhook.Install(nil)
	} else {
		s := verifkit.NewSched(sc.Seed)
		s.Policy = sc.Policy
		s.Script = append([]verifkit.Step{}, sc.Script...)
		s.MaxSteps = 400000
		for a := 1; a <= sc.Adders; a++ {
			s.Go("a"+strconv.Itoa(a), adder(a))
		}
		s.Go("c", consumer)
		res.Diag = s.Run()
		if res.Diag != "" && res.Diag != "step limit" && !strings.HasPrefix(res.Diag, "panic") && s.WaitDone(5*time.Second) {
			res.Diag = ""
		}
		res.Drift = s.Drift
	}
	stop.Store(true)
	res.NAdds = len(res.Adds)
	if sc.Compact == 1 {
		succ := map[int]bool{}
		for _, a := range res.Adds {
			if a.St == 0 {
				succ[a.ID] = true
			}
		}
		seen := map[int]int{}
		for _, id := range res.Delivered {
			seen[id]++
		}
		for id, n := range seen {
			if !succ[id] {
				res.Phantom = append(res.Phantom, id)
			}
			if n > 1 {
				res.Dups = append(res.Dups, id)
			}
		}
		if res.Diag == "" {
			for id := range succ {
				if seen[id] == 0 {
					res.Lost = append(res.Lost, id)
				}
			}
		}
		res.Adds, res.Delivered = []ringAdd{}, []int{}
	}
	res.LeftLen = curLen()
	if st != nil {
		if bs := st.striped.Load(); bs != nil {
			res.Stripes = bs.len
		}
	}
	res.Sc.Script = []verifkit.Step{}
	return res
}

func waitTimeoutL(wg *sync.WaitGroup, d time.Duration) bool {
	done := make(chan struct{})
	go func() { wg.Wait(); close(done) }()
	select {
	case <-done:
		return true
	case <-time.After(d):
		return false
	}
}

// TestVerifRing: VERIF_IN = JSON array of scenarios; VERIF_OUT = NDJSON histories.
func TestVerifRing(t *testing.T) {
	out := os.Getenv("VERIF_OUT")
	if out == "" {
		t.Skip("VERIF_OUT not set")
	}
	b, err := os.ReadFile(os.Getenv("VERIF_IN"))
	if err != nil {
		t.Fatal(err)
	}
	var scs []ringScenario
	if err := json.Unmarshal(b, &scs); err != nil {
		t.Fatal(err)
	}
	f, err := os.Create(out)
	if err != nil {
		t.Fatal(err)
	}
	defer f.Close()
	w := bufio.NewWriter(f)
	defer w.Flush()
	enc := json.NewEncoder(w)
	for _, sc := range scs {
		r := runRingScenario(sc)
		_ = enc.Encode(r)
		if r.Diag != "" {
			break
		}
	}
}
