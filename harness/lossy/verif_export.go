//go:build verif

package lossy

import "sync/atomic"

// StrandedForVerif counts, at quiescence, the published elements the consumer can no longer reach: slots that hold an element
// although they lie outside [head, tail) of their ring (overlay only, used by the cache-level audits of the /verif harness).
func (s *Striped[K, V]) StrandedForVerif() int {
	bs := s.striped.Load()
	if bs == nil {
		return 0
	}
	n := 0
	for i := range bs.buffers {
		r := bs.buffers[i].Load()
		if r == nil {
			continue
		}
		head, tail := r.head.Load(), r.tail.Load()
		for j := uint64(0); j < bufferSize; j++ {
			if atomic.LoadPointer(&r.buffer[j]) == nil {
				continue
			}
			inside := false
			for x := head; x < tail; x++ {
				if x&mask == j {
					inside = true
					break
				}
			}
			if !inside {
				n++
			}
		}
	}
	return n
}
