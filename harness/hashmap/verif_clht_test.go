package hashmap

// C15 driver: concurrent lookups, per-key atomic updates, removals and iteration on the real table while it
// grows and shrinks, with hash values pinned (verifhook.InstallHash) so that the checked keys collide inside one
// bucket chain in every table.  Free running with yields or gate-scheduled (random / PCT).  The call / return
// history of the checked keys is judged for linearizability by spec/LinTrace.tla; iteration and the size at
// quiescence by spec/RangeHist.tla.

import (
	"bufio"
	"encoding/json"
	"math/rand"
	"os"
	"sort"
	"strconv"
	"strings"
	"sync"
	"sync/atomic"
	"testing"
	"time"
	"unsafe"

	"github.com/maypok86/otter/v2/internal/verifhook"
	"github.com/maypok86/otter/v2/internal/verifkit"
)

type vNode struct {
	k, v int
}

func (n *vNode) Key() int                  { return n.k }
func (n *vNode) Value() int                { return n.v }
func (n *vNode) AsPointer() unsafe.Pointer { return unsafe.Pointer(n) }

type vNodeManager struct{}

func (vNodeManager) FromPointer(p unsafe.Pointer) *vNode { return (*vNode)(p) }
func (vNodeManager) IsNil(n *vNode) bool                  { return n == nil }

type clhtScenario struct {
	Clients  int    `json:"clients"`
	Ops      int    `json:"ops"`
	Keys     int    `json:"keys"`
	Collide  int    `json:"collide"`  // 1 = all checked keys share root bucket and h2 in every table
	Churn    int    `json:"churn"`    // filler keys inserted and removed by a churn goroutine (forces growth and shrink)
	InitSize int    `json:"initsize"` // NewWithSize hint
	Rangers  int    `json:"rangers"`
	Resizes  int    `json:"resizes"`  // forced grow / shrink cycles by an extra goroutine (gate-scheduled runs)
	Clears   int    `json:"clears"`   // Clear() calls by an extra goroutine (logged as operation "clr")
	Hollow   int    `json:"hollow"`   // 1 = prelude (logged as client 1): fill a colliding chain beyond its root bucket, empty the root
	                                  // bucket only, force a growth and a shrink - the chain then starts with an empty bucket
	Policy   string `json:"policy"`   // free | random | pct
	Seed     int64  `json:"seed"`
}

type linEv struct {
	Seq int    `json:"seq"`
	C   int    `json:"c"`
	T   string `json:"t"`
	Op  string `json:"op"`
	K   int    `json:"k"`
	V   int    `json:"v"`
	RV  int    `json:"rv"`
	ROK int    `json:"rok"`
	Saw int    `json:"saw"`
	Act string `json:"act"`
	NC  int    `json:"nc"`
	Hit int    `json:"hit"`
}

type rangeRec struct {
	Start int   `json:"start"` // sequence number when the iteration began / ended
	End   int   `json:"end"`
	Keys  []int `json:"keys"`   // keys yielded, in order
	Vals  []int `json:"vals"`
}

type clhtResult struct {
	T       string       `json:"t"`
	Sc      clhtScenario `json:"sc"`
	Diag    string       `json:"diag"`
	Events  []linEv      `json:"events"`
	Ranges  []rangeRec   `json:"ranges"`
	Size    int          `json:"size"`     // Size() at quiescence
	Present int          `json:"present"`  // keys found by Get at quiescence (checked + filler)
	ChurnNC int64        `json:"churnnc"`  // filler Computes whose update function did not run exactly once
	Growths int64        `json:"growths"`
	Shrinks int64        `json:"shrinks"`
}

func runCLHTScenario(sc clhtScenario) clhtResult {
	res := clhtResult{T: "clht", Sc: sc, Events: []linEv{}, Ranges: []rangeRec{}}
	if sc.Collide == 1 {
		verifhook.InstallHash(func(key any) (uint64, bool) {
			k, ok := key.(int)
			if !ok || k >= 1000 {
				return 0, false
			}
			// same h1 bits (bucket 5 in every table of <= 1<<20 buckets) and same h2 (0x2a) for every checked key
			return (uint64(5) << 7) | 0x2a, true
		})
		defer verifhook.InstallHash(nil)
	}
	var m *Map[int, int, *vNode]
	if sc.InitSize > 0 {
		m = NewWithSize[int, int, *vNode](vNodeManager{}, sc.InitSize)
	} else {
		m = New[int, int, *vNode](vNodeManager{})
	}
	var seq atomic.Int64
	var mu sync.Mutex
	log := func(e linEv) {
		mu.Lock()
		e.Seq = int(seq.Add(1))
		res.Events = append(res.Events, e)
		mu.Unlock()
	}
	var stop atomic.Bool
	var churnNC atomic.Int64
	client := func(c int) func() {
		rng := rand.New(rand.NewSource(sc.Seed*131 + int64(c)))
		return func() {
			for j := 0; j < sc.Ops; j++ {
				k := rng.Intn(sc.Keys)
				v := c*10000 + j + 1
				switch x := rng.Intn(10); {
				case x < 4:
					log(linEv{C: c, T: "call", Op: "get", K: k, Act: ""})
					n := m.Get(k)
					e := linEv{C: c, T: "ret", Op: "get", K: k, RV: -1, Saw: -1}
					if n != nil {
						e.RV, e.ROK = n.v, 1
					}
					log(e)
				default:
					act := "write"
					if x >= 8 {
						act = "inv"
					} else if x == 7 {
						act = "cancel"
					}
					log(linEv{C: c, T: "call", Op: "cmp", K: k})
					saw, nc := -1, 0
					out := m.Compute(k, func(old *vNode) *vNode {
						nc++
						saw = -1
						if old != nil {
							saw = old.v
						}
						// the update function is user code running under the bucket lock: a gate (a resize may try to copy
						// this bucket right now)
						verifhook.Point("cb.compute")
						switch act {
						case "write":
							return &vNode{k, v}
						case "inv":
							return nil
						}
						return old
					})
					e := linEv{C: c, T: "ret", Op: "cmp", K: k, V: v, RV: -1, Saw: saw, Act: act, NC: nc}
					if out != nil {
						e.RV, e.ROK = out.v, 1
					}
					log(e)
				}
			}
		}
	}
	churn := func() {
		rng := rand.New(rand.NewSource(sc.Seed * 7))
		for round := 0; round < 3 && !stop.Load(); round++ {
			for i := 0; i < sc.Churn; i++ {
				k := 1000 + i
				nc := 0
				m.Compute(k, func(old *vNode) *vNode { nc++; return &vNode{k, rng.Int()} })
				if nc != 1 {
					churnNC.Add(1)
				}
			}
			for i := 0; i < sc.Churn; i++ {
				k := 1000 + i
				nc := 0
				m.Compute(k, func(old *vNode) *vNode { nc++; return nil })
				if nc != 1 {
					churnNC.Add(1)
				}
			}
		}
	}
	ranger := func() {
		for r := 0; r < 3; r++ {
			rec := rangeRec{Start: int(seq.Add(1)), Keys: []int{}, Vals: []int{}}
			m.Range(func(n *vNode) bool {
				if n.k < 1000 {
					rec.Keys = append(rec.Keys, n.k)
					rec.Vals = append(rec.Vals, n.v)
				}
				return true
			})
			rec.End = int(seq.Add(1))
			mu.Lock()
			res.Ranges = append(res.Ranges, rec)
			mu.Unlock()
		}
	}
	resizer := func() {
		for r := 0; r < sc.Resizes && !stop.Load(); r++ {
			m.resize(m.table.Load(), mapGrowHint)
			m.resize(m.table.Load(), mapShrinkHint)
		}
	}
	clearer := func() {
		for r := 0; r < sc.Clears; r++ {
			log(linEv{C: 90, T: "call", Op: "clr", K: 0, RV: -1, Saw: -1})
			m.Clear()
			log(linEv{C: 90, T: "ret", Op: "clr", K: 0, RV: -1, Saw: -1})
		}
	}
	if sc.Hollow == 1 {
		cmp := func(k int, act string, v int) {
			log(linEv{C: 1, T: "call", Op: "cmp", K: k})
			saw, nc := -1, 0
			out := m.Compute(k, func(old *vNode) *vNode {
				nc++
				saw = -1
				if old != nil {
					saw = old.v
				}
				if act == "inv" {
					return nil
				}
				return &vNode{k, v}
			})
			e := linEv{C: 1, T: "ret", Op: "cmp", K: k, V: v, RV: -1, Saw: saw, Act: act, NC: nc}
			if out != nil {
				e.RV, e.ROK = out.v, 1
			}
			log(e)
		}
		for k := 0; k < sc.Keys; k++ {
			cmp(k, "write", 500+k)
		}
		for k := 0; k < nodesPerMapBucket && k < sc.Keys-1; k++ {
			cmp(k, "inv", 0)
		}
		m.resize(m.table.Load(), mapGrowHint)
		m.resize(m.table.Load(), mapShrinkHint)
		for k := 0; k < sc.Keys; k++ {
			log(linEv{C: 1, T: "call", Op: "get", K: k, Act: ""})
			n := m.Get(k)
			e := linEv{C: 1, T: "ret", Op: "get", K: k, RV: -1, Saw: -1}
			if n != nil {
				e.RV, e.ROK = n.v, 1
			}
			log(e)
		}
	}
	var fns []func()
	if sc.Clears > 0 {
		fns = append(fns, clearer)
	}
	if sc.Resizes > 0 {
		// two resizers: a late one must re-read the table after winning the flag
		fns = append(fns, resizer, resizer)
	}
	for c := 1; c <= sc.Clients; c++ {
		fns = append(fns, client(c))
	}
	if sc.Churn > 0 {
		fns = append(fns, churn)
	}
	for r := 0; r < sc.Rangers; r++ {
		fns = append(fns, ranger)
	}
	if sc.Policy == "free" {
		verifhook.Install(verifkit.Yielder(sc.Seed, 0.2))
		var wg sync.WaitGroup
		for _, fn := range fns {
			wg.Add(1)
			fn := fn
			go func() {
				defer wg.Done()
				if msg := verifkit.Guard(fn); msg != "" {
					mu.Lock()
					res.Diag = msg
					mu.Unlock()
				}
			}()
		}
		done := make(chan struct{})
		go func() { wg.Wait(); close(done) }()
		select {
		case <-done:
		case <-time.After(30 * time.Second):
			res.Diag = "hang: free-running goroutines did not finish"
		}
		verifhook.Install(nil)
	} else {
		s := verifkit.NewSched(sc.Seed)
		s.Policy = strings.TrimSuffix(sc.Policy, "+stale")
		if strings.HasSuffix(sc.Policy, "+stale") && sc.Resizes > 0 {
			// hold the first resizer just before it takes the resize flag until another resize has completed and a few
			// more steps have been taken: it then holds a table pointer that is no longer current
			var base int64 = -1
			after := 0
			s.Choose = func(parked []*verifkit.G, rnd *rand.Rand) *verifkit.G {
				var held *verifkit.G
				var rest []*verifkit.G
				for _, g := range parked {
					if g.Name == "g1" && g.At == "rs.casFlag" {
						held = g
					} else {
						rest = append(rest, g)
					}
				}
				if held == nil {
					base, after = -1, 0
					return nil
				}
				done := m.totalGrowths.Load() + m.totalShrinks.Load()
				if base < 0 {
					base = done
				}
				if done > base {
					after++
				}
				if len(rest) == 0 || after > 2+rnd.Intn(6) {
					base, after = -1, 0
					return held
				}
				return rest[rnd.Intn(len(rest))]
			}
		}
		s.MaxSteps = 2000000
		for i, fn := range fns {
			s.Go("g"+strconv.Itoa(i+1), fn)
		}
		res.Diag = s.Run()
		if res.Diag != "" && res.Diag != "step limit" && !strings.HasPrefix(res.Diag, "panic") && s.WaitDone(10*time.Second) {
			res.Diag = ""
		}
	}
	stop.Store(true)
	res.Size = m.Size()
	for k := 0; k < sc.Keys; k++ {
		if m.Get(k) != nil {
			res.Present++
		}
	}
	for i := 0; i < sc.Churn; i++ {
		if m.Get(1000+i) != nil {
			res.Present++
		}
	}
	res.ChurnNC = churnNC.Load()
	res.Growths, res.Shrinks = m.totalGrowths.Load(), m.totalShrinks.Load()
	sort.Slice(res.Events, func(i, j int) bool { return res.Events[i].Seq < res.Events[j].Seq })
	return res
}

// TestVerifCLHT: VERIF_IN scenarios; VERIF_OUT one NDJSON record per scenario; VERIF_LIN_OUT the concatenated event
// histories in LinTrace format (a "reset" record closes each history and carries the number of checked keys present).
func TestVerifCLHT(t *testing.T) {
	out := os.Getenv("VERIF_OUT")
	if out == "" {
		t.Skip("VERIF_OUT not set")
	}
	b, err := os.ReadFile(os.Getenv("VERIF_IN"))
	if err != nil {
		t.Fatal(err)
	}
	var scs []clhtScenario
	if err := json.Unmarshal(b, &scs); err != nil {
		t.Fatal(err)
	}
	f, err := os.Create(out)
	if err != nil {
		t.Fatal(err)
	}
	defer f.Close()
	w := bufio.NewWriter(f)
	defer w.Flush()
	enc := json.NewEncoder(w)
	for _, sc := range scs {
		r := runCLHTScenario(sc)
		_ = enc.Encode(r)
		if r.Diag != "" {
			break
		}
	}
}
