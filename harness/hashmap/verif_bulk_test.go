package hashmap

// C15 on large tables: resizes of tables with >= 128 buckets take the parallel copy path whose chunking depends on
// GOMAXPROCS.  One goroutine fills the table, empties most of it, then writers are parked INSIDE their update function (they
// hold their bucket locks) while the rest is removed and the table shrinks around them.  Afterwards every key that was
// inserted and not removed must be found, Size must equal the number of keys and an iteration must yield each of them
// once.  Judged by spec/BulkHist.tla.

import (
	"bufio"
	"encoding/json"
	"os"
	"runtime"
	"sync"
	"testing"
	"time"
)

type bulkScenario struct {
	Procs  int   `json:"procs"`
	N      int   `json:"n"`
	Keep   int   `json:"keep"`
	Parked int   `json:"parked"`
	Seed   int64 `json:"seed"`
}

type bulkPhase struct {
	Want    int   `json:"want"`    // keys that must be present
	NMiss   int   `json:"nmiss"`   // of those, not found by Get
	Miss    []int `json:"miss"`    // the first few
	Size    int   `json:"size"`    // Size()
	Yielded int   `json:"yielded"` // keys an iteration yielded
	Dup     int   `json:"dup"`     // keys it yielded more than once
	Ghost   int   `json:"ghost"`   // keys it yielded although they had been removed
}

type bulkResult struct {
	T      string       `json:"t"`
	Level  string       `json:"level"`
	Sc     bulkScenario `json:"sc"`
	Phases []bulkPhase  `json:"phases"`
	FnRuns []int        `json:"fnruns"` // update function invocations per parked writer
	Lost   []int        `json:"lost"`   // parked writers whose insert returned a node that is not found afterwards
}

func bulkAudit(m *Map[int, int, *vNode], want map[int]bool) bulkPhase {
	ph := bulkPhase{Want: len(want), Miss: []int{}}
	for k := range want {
		if n := m.Get(k); n == nil || n.k != k {
			ph.NMiss++
			if len(ph.Miss) < 8 {
				ph.Miss = append(ph.Miss, k)
			}
		}
	}
	ph.Size = m.Size()
	seen := map[int]int{}
	m.Range(func(n *vNode) bool {
		seen[n.k]++
		return true
	})
	ph.Yielded = len(seen)
	for k, c := range seen {
		if c > 1 {
			ph.Dup++
		}
		if !want[k] {
			ph.Ghost++
		}
	}
	return ph
}

func runBulkScenario(sc bulkScenario) bulkResult {
	res := bulkResult{T: "bulk", Level: "table", Sc: sc, Phases: []bulkPhase{}, FnRuns: []int{}, Lost: []int{}}
	prev := runtime.GOMAXPROCS(sc.Procs)
	defer runtime.GOMAXPROCS(prev)
	m := New[int, int, *vNode](vNodeManager{})
	want := map[int]bool{}
	for k := 0; k < sc.N; k++ {
		m.Compute(k, func(*vNode) *vNode { return &vNode{k, k} })
		want[k] = true
	}
	res.Phases = append(res.Phases, bulkAudit(m, want))
	for k := sc.Keep; k < sc.N; k++ {
		m.Compute(k, func(*vNode) *vNode { return nil })
		delete(want, k)
	}
	res.Phases = append(res.Phases, bulkAudit(m, want))
	// writers parked inside their update function on fresh keys
	release := make(chan struct{})
	inside := make(chan int, sc.Parked)
	runs := make([]int, sc.Parked)
	var wg sync.WaitGroup
	for i := 0; i < sc.Parked; i++ {
		wg.Add(1)
		go func(i int) {
			defer wg.Done()
			k := 1_000_000 + i*7919
			m.Compute(k, func(*vNode) *vNode {
				runs[i]++
				if runs[i] == 1 {
					inside <- i
					<-release
				}
				return &vNode{k, k}
			})
		}(i)
	}
	for i := 0; i < sc.Parked; i++ {
		select {
		case <-inside:
		case <-time.After(5 * time.Second):
		}
	}
	// the rest is removed: the table shrinks (the copy waits for the locked buckets - or it does not)
	done := make(chan struct{})
	go func() {
		for k := 0; k < sc.Keep; k++ {
			m.Compute(k, func(*vNode) *vNode { return nil })
		}
		close(done)
	}()
	select {
	case <-done:
	case <-time.After(300 * time.Millisecond):
	}
	close(release)
	wg.Wait()
	<-done
	for k := 0; k < sc.Keep; k++ {
		delete(want, k)
	}
	for i := 0; i < sc.Parked; i++ {
		k := 1_000_000 + i*7919
		want[k] = true
		if n := m.Get(k); n == nil {
			res.Lost = append(res.Lost, i)
		}
	}
	res.FnRuns = runs
	res.Phases = append(res.Phases, bulkAudit(m, want))
	return res
}

// TestVerifCLHTBulk: VERIF_IN = JSON array of bulk scenarios; VERIF_OUT = NDJSON results.
func TestVerifCLHTBulk(t *testing.T) {
	out := os.Getenv("VERIF_OUT")
	if out == "" {
		t.Skip("VERIF_OUT not set")
	}
	b, err := os.ReadFile(os.Getenv("VERIF_IN"))
	if err != nil {
		t.Fatal(err)
	}
	var scs []bulkScenario
	if err := json.Unmarshal(b, &scs); err != nil {
		t.Fatal(err)
	}
	f, err := os.Create(out)
	if err != nil {
		t.Fatal(err)
	}
	defer f.Close()
	w := bufio.NewWriter(f)
	defer w.Flush()
	enc := json.NewEncoder(w)
	for _, sc := range scs {
		_ = enc.Encode(runBulkScenario(sc))
	}
}
