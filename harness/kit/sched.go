// Package verifkit is the controlled-concurrency kit of the /verif harness.  It is not part of the
// repository: the checks overlay it as internal/verifkit when they build the test binaries.
//
// Sched serialises goroutines at the verifhook points compiled into the library (build tag verif):
// every managed goroutine parks at each point; the scheduler releases one goroutine at a time, chosen
// by a seeded policy or by a script derived from a TLC behaviour, and waits until it parks again,
// finishes, or blocks on a lock held by a parked goroutine (watchdog).
package verifkit

import (
	"strings"
	"bytes"
	"fmt"
	"math/rand"
	"runtime"
	"strconv"
	"sync"
	"time"

	"github.com/maypok86/otter/v2/internal/verifhook"
)

// GoID returns the id of the calling goroutine.
func GoID() uint64 {
	var buf [64]byte
	b := buf[:runtime.Stack(buf[:], false)]
	b = bytes.TrimPrefix(b, []byte("goroutine "))
	i := bytes.IndexByte(b, ' ')
	n, _ := strconv.ParseUint(string(b[:i]), 10, 64)
	return n
}

const (
	stNew = iota
	stParked
	stRunning
	stDone
)

// G is a managed goroutine.
type G struct {
	Name    string
	id      uint64
	state   int
	At      string // point at which it is parked
	V       uint64
	wake    chan struct{}
	Adopted bool
	Steps   int
}

// Event is one arrival of a goroutine at a point.
type Event struct {
	Seq  int    `json:"seq"`
	G    string `json:"g"`
	At   string `json:"at"`
	V    uint64 `json:"v"`
	Obs  []int64 `json:"obs"`
}

// Step of a script: release goroutine G (by name) which is expected to be parked at At ("" = anywhere).
type Step struct {
	G  string `json:"g"`
	At string `json:"at"`
}

type Sched struct {
	mu      sync.Mutex
	gs      map[uint64]*G
	byName  map[string]*G
	all     []*G
	rng     *rand.Rand
	arrive  chan struct{}
	active  bool
	nAdopt  int
	seq     int

	// configuration
	Adopt       bool                    // adopt unknown goroutines when they reach a point (executor tasks)
	AdoptPrefix string                  // name prefix of adopted goroutines
	Filter      func(id string) bool    // park only at these points (nil = all)
	Observe     func() []int64          // cheap state snapshot logged with each event (called with one goroutine running)
	StepTimeout time.Duration           // how long to wait for the released goroutine before treating it as blocked
	IdleTimeout time.Duration           // no parked goroutine and no arrival for this long = quiescent or deadlocked
	MaxSteps    int
	Policy      string                  // "random" | "pct" | "script"
	Script      []Step
	PCTChange   float64
	Choose      func(parked []*G, rnd *rand.Rand) *G // scenario-specific bias; nil result = fall back to Policy
	Transparent map[string]bool                      // script policy: gates a scripted goroutine is led through without a step of its own

	Log     []Event
	Panics  []string // panics raised by managed goroutines
	Drift   int      // script steps that could not be followed
	Dropped []Step   // those steps
	Blocked int      // releases that ended in the watchdog
	prio    map[*G]int
	scriptWaits int
}

func NewSched(seed int64) *Sched {
	return &Sched{
		gs: map[uint64]*G{}, byName: map[string]*G{}, rng: rand.New(rand.NewSource(seed)),
		arrive: make(chan struct{}, 1<<16), AdoptPrefix: "x", StepTimeout: 2 * time.Millisecond,
		IdleTimeout: 12 * time.Millisecond, MaxSteps: 200000, Policy: "random", PCTChange: 0.05,
		prio: map[*G]int{},
	}
}

func (s *Sched) register(name string, gid uint64, adopted bool) *G {
	g := &G{Name: name, id: gid, wake: make(chan struct{}, 1), Adopted: adopted}
	s.gs[gid] = g
	s.byName[name] = g
	s.all = append(s.all, g)
	s.prio[g] = s.rng.Intn(1 << 20)
	return g
}

// Go starts fn in a managed goroutine; it stays parked at the virtual point "start" until scheduled.
func (s *Sched) Go(name string, fn func()) {
	ready := make(chan struct{})
	go func() {
		gid := GoID()
		s.mu.Lock()
		g := s.register(name, gid, false)
		g.state = stParked
		g.At = "start"
		s.mu.Unlock()
		close(ready)
		s.arrive <- struct{}{}
		<-g.wake
		defer func() {
			// a panic of the code under test is an observation (reported by Run), not a crash of the driver
			if r := recover(); r != nil {
				s.mu.Lock()
				s.Panics = append(s.Panics, fmt.Sprintf("%s: %v", name, r))
				s.mu.Unlock()
			}
			s.mu.Lock()
			g.state = stDone
			g.At = "done"
			s.mu.Unlock()
			s.arrive <- struct{}{}
		}()
		fn()
	}()
	<-ready
}

func (s *Sched) hook(id string, v uint64) {
	gid := GoID()
	s.mu.Lock()
	if !s.active {
		s.mu.Unlock()
		return
	}
	g := s.gs[gid]
	if g == nil {
		if !s.Adopt {
			s.mu.Unlock()
			return
		}
		s.nAdopt++
		g = s.register(fmt.Sprintf("%s%d", s.AdoptPrefix, s.nAdopt), gid, true)
	}
	if s.Filter != nil && !s.Filter(id) {
		s.mu.Unlock()
		return
	}
	s.seq++
	ev := Event{Seq: s.seq, G: g.Name, At: id, V: v}
	if s.Observe != nil {
		ev.Obs = s.Observe()
	}
	s.Log = append(s.Log, ev)
	g.state = stParked
	g.At = id
	g.V = v
	g.Steps++
	s.mu.Unlock()
	s.arrive <- struct{}{}
	<-g.wake
}

// WaitDone waits (after Run returned, all gates open) until every named goroutine has finished.
// A "deadlock" diagnostic of Run only means that nothing arrived for IdleTimeout - on a loaded machine
// goroutines may merely be slow - so drivers report a hang only if WaitDone fails as well.
func (s *Sched) WaitDone(timeout time.Duration) bool {
	deadline := time.Now().Add(timeout)
	for {
		s.mu.Lock()
		live := s.namedLive()
		s.mu.Unlock()
		if live == 0 {
			return true
		}
		if time.Now().After(deadline) {
			return false
		}
		time.Sleep(time.Millisecond)
	}
}

// Point lets harness code (a scripted loader, a clock) park like a library hook does.
func (s *Sched) Point(id string, v uint64) { s.hook(id, v) }

// Note appends a harness event to the log without parking (same sequence numbers as the arrivals).
func (s *Sched) Note(at string, v uint64, obs []int64) int {
	gid := GoID()
	s.mu.Lock()
	defer s.mu.Unlock()
	name := "?"
	if g := s.gs[gid]; g != nil {
		name = g.Name
	}
	s.seq++
	s.Log = append(s.Log, Event{Seq: s.seq, G: name, At: at, V: v, Obs: obs})
	return s.seq
}

// Name of the calling goroutine ("" if it is not managed).
func (s *Sched) Name() string {
	gid := GoID()
	s.mu.Lock()
	defer s.mu.Unlock()
	if g := s.gs[gid]; g != nil {
		return g.Name
	}
	return ""
}

func (s *Sched) parked() []*G {
	var out []*G
	for _, g := range s.all {
		if g.state == stParked {
			out = append(out, g)
		}
	}
	return out
}

func (s *Sched) namedLive() int {
	n := 0
	for _, g := range s.all {
		if !g.Adopted && g.state != stDone {
			n++
		}
	}
	return n
}

// Wait is returned by a Choose function that wants the scheduler to let running goroutines get on (an arrival or a short
// pause) before it decides.
var Wait = &G{Name: "<wait>"}

// RunningNamedLocked lists the named goroutines that are neither parked nor finished.  For Choose functions only (they are
// called with the scheduler's lock held).
func (s *Sched) RunningNamedLocked() []string {
	var out []string
	for _, g := range s.all {
		if !g.Adopted && g.state == stRunning {
			out = append(out, g.Name)
		}
	}
	return out
}

func (s *Sched) pick(p []*G, stepNo int) *G {
	if s.Choose != nil {
		if g := s.Choose(p, s.rng); g == Wait {
			return nil
		} else if g != nil {
			return g
		}
	}
	switch s.Policy {
	case "pct":
		if s.rng.Float64() < s.PCTChange {
			g := p[s.rng.Intn(len(p))]
			s.prio[g] = -stepNo // demote below everything so far
		}
		best := p[0]
		for _, g := range p[1:] {
			if s.prio[g] > s.prio[best] {
				best = g
			}
		}
		return best
	case "script":
		for len(s.Script) > 0 {
			st := s.Script[0]
			g := s.byName[st.G]
			if g != nil && g.state == stParked && (st.At == "" || st.At == g.At) {
				s.Script = s.Script[1:]
				return g
			}
			if g != nil && g.state == stParked && s.Transparent[g.At] {
				return g // an intermediate gate on the way to the scripted one: move on, the step stays
			}
			// a goroutine the executor has just spawned may not have reached its first point yet: give it a moment
			if g == nil && strings.HasPrefix(st.G, s.AdoptPrefix) && s.scriptWaits < 40 {
				s.scriptWaits++
				return nil
			}
			s.scriptWaits = 0
			// the named goroutine is not where the model says: drift, drop the step
			if g == nil || g.state == stDone || g.state == stParked {
				s.Drift++
				s.Dropped = append(s.Dropped, st)
				s.Script = s.Script[1:]
				continue
			}
			// it is running/blocked: let somebody else move (free running)
			s.Drift++
			s.Dropped = append(s.Dropped, st)
			s.Script = s.Script[1:]
		}
		return p[s.rng.Intn(len(p))]
	default:
		return p[s.rng.Intn(len(p))]
	}
}

// Run installs the hook and schedules until every named goroutine has finished and nothing is parked
// or arriving any more.  It returns "" on quiescence, or a diagnostic ("deadlock: ...", "step limit").
func (s *Sched) Run() string {
	s.mu.Lock()
	s.active = true
	s.mu.Unlock()
	verifhook.Install(s.hook)
	defer func() {
		s.mu.Lock()
		s.active = false
		// release anything still parked so that goroutines can finish
		for _, g := range s.all {
			if g.state == stParked {
				g.state = stRunning
				g.wake <- struct{}{}
			}
		}
		s.mu.Unlock()
		verifhook.Install(nil)
	}()
	stepNo := 0
	for {
		// absorb pending arrivals
		for len(s.arrive) > 0 {
			<-s.arrive
		}
		s.mu.Lock()
		p := s.parked()
		live := s.namedLive()
		s.mu.Unlock()
		if len(p) == 0 {
			// nothing to schedule: wait for an arrival or declare quiescence / deadlock
			select {
			case <-s.arrive:
				continue
			case <-time.After(s.IdleTimeout):
				if live == 0 {
					s.mu.Lock()
					np := len(s.Panics)
					msg := ""
					if np > 0 {
						msg = "panic: " + s.Panics[0]
					}
					s.mu.Unlock()
					return msg
				}
				s.mu.Lock()
				desc := ""
				for _, g := range s.all {
					if g.state != stDone {
						desc += fmt.Sprintf(" %s@%s(state %d)", g.Name, g.At, g.state)
					}
				}
				s.mu.Unlock()
				return "deadlock:" + desc
			}
		}
		stepNo++
		if stepNo > s.MaxSteps {
			return "step limit"
		}
		s.mu.Lock()
		g := s.pick(p, stepNo)
		if g == nil {
			// the script waits for a goroutine that has not arrived yet
			s.mu.Unlock()
			stepNo--
			select {
			case <-s.arrive:
			case <-time.After(500 * time.Microsecond):
			}
			continue
		}
		g.state = stRunning
		s.mu.Unlock()
		for {
			g.wake <- struct{}{}
			// wait until the released goroutine itself has parked again or finished (arrivals of other goroutines - adopted
			// ones, goroutines that were blocked in the code under test - do not end the step), or for the watchdog
			deadline := time.After(s.StepTimeout)
		waitStep:
			for {
				select {
				case <-s.arrive:
					s.mu.Lock()
					still := g.state == stRunning
					s.mu.Unlock()
					if !still {
						break waitStep
					}
				case <-deadline:
					s.mu.Lock()
					if g.state == stRunning {
						s.Blocked++
					}
					s.mu.Unlock()
					break waitStep
				}
			}
			// a scripted step runs through the transparent gates that follow it (the step is one atomic action of the model)
			s.mu.Lock()
			again := s.Policy == "script" && len(s.Script) > 0 && g.state == stParked && s.Transparent[g.At]
			if again {
				g.state = stRunning
			}
			s.mu.Unlock()
			if !again {
				break
			}
		}
	}
}

// Guard runs fn and returns the message of a panic it raised ("" if none).
func Guard(fn func()) (msg string) {
	defer func() {
		if r := recover(); r != nil {
			msg = fmt.Sprintf("panic: %v", r)
		}
	}()
	fn()
	return ""
}

// Yielder returns a hook that does not park but perturbs the schedule of free-running goroutines:
// with probability p a goroutine yields (or sleeps a few microseconds) at a point.
func Yielder(seed int64, p float64) func(id string, v uint64) {
	var mu sync.Mutex
	rng := rand.New(rand.NewSource(seed))
	return func(id string, v uint64) {
		mu.Lock()
		x := rng.Float64()
		y := rng.Intn(4)
		mu.Unlock()
		if x < p {
			if y == 0 {
				time.Sleep(time.Duration(1+y) * time.Microsecond)
			} else {
				runtime.Gosched()
			}
		}
	}
}
