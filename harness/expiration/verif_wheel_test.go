package expiration

// C13 (wheel part): drives the real timer wheel with real nodes and logs, after every call, the bucket
// (level, slot) of every scheduled timer - found by scanning the wheel - and the timers expired by the call.
// spec/TimerWheelTrace.tla recomputes both with the real geometry (exact conformance of findBucket and of
// the cascading sweep) and checks SweptWithinTick.  Time unit: 2^20 ns.

import (
	"bufio"
	"encoding/json"
	"math/rand"
	"os"
	"sort"
	"strconv"
	"testing"

	"github.com/maypok86/otter/v2/internal/generated/node"
)

const wheelUnit = int64(1) << 20

type wheelPos struct {
	T     int `json:"t"`
	Level int `json:"level"` // 1-based
	Slot  int `json:"slot"`
}

type wheelRec struct {
	Tp      string     `json:"tp"` // reset | add | del | adv
	T       int        `json:"t"`
	D       int64      `json:"d"` // deadline (add) or new time (adv), units
	Time    int64      `json:"time"`
	Pos     []wheelPos `json:"pos"`
	Expired []int      `json:"expired"`
}

func scanWheel(v *Variable[int, int]) []wheelPos {
	out := []wheelPos{}
	for li, level := range v.wheel {
		for si, root := range level {
			for n := root.NextExp(); !node.Equals(n, root); n = n.NextExp() {
				out = append(out, wheelPos{n.Key(), li + 1, si})
			}
		}
	}
	// the list of timers that were due when they were scheduled: position <<0, 1>> (TimerWheel.tla: DueList)
	if root := v.DueForVerif(); root != nil {
		for n := root.NextExp(); !node.Equals(n, root); n = n.NextExp() {
			out = append(out, wheelPos{n.Key(), 0, 1})
		}
	}
	sort.Slice(out, func(i, j int) bool { return out[i].T < out[j].T })
	return out
}

func TestVerifWheel(t *testing.T) {
	out := os.Getenv("VERIF_OUT")
	if out == "" {
		t.Skip("VERIF_OUT not set")
	}
	seed, _ := strconv.ParseInt(os.Getenv("VERIF_SEED"), 10, 64)
	nruns, _ := strconv.Atoi(os.Getenv("VERIF_N"))
	nops, _ := strconv.Atoi(os.Getenv("VERIF_LEN"))
	if nruns == 0 {
		nruns = 20
	}
	if nops == 0 {
		nops = 200
	}
	f, err := os.Create(out)
	if err != nil {
		t.Fatal(err)
	}
	defer f.Close()
	w := bufio.NewWriterSize(f, 1<<20)
	defer w.Flush()
	enc := json.NewEncoder(w)
	rng := rand.New(rand.NewSource(seed))
	nm := node.NewManager[int, int](node.Config{WithExpiration: true})
	// durations spread over all five levels (units of 2^20 ns: level boundaries at 2^16, 2^22, 2^27, 2^29)
	durs := []int64{0, 1, 3, 700, 1023, 1024, 1025, 5000, 65535, 65536, 70000, 1 << 20, (1 << 22) - 1, 1 << 22, 5 << 22, (1 << 27) - 1, 1 << 27, 3 << 27, (1 << 29) - 1, 1 << 29, 3 << 28}
	jumps := []int64{0, 0, 1, 1, 7, 500, 1023, 1024, 1025, 3000, 1 << 16, (1 << 16) + 5, 1 << 20, 1 << 22, 1 << 25, 1 << 27}
	const ntimers = 8
	for run := 0; run < nruns; run++ {
		v := NewVariable(nm)
		nodes := map[int]node.Node[int, int]{}
		now := int64(0)
		_ = enc.Encode(wheelRec{Tp: "reset", Pos: []wheelPos{}, Expired: []int{}})
		for op := 0; op < nops; op++ {
			rec := wheelRec{Expired: []int{}}
			switch x := rng.Intn(10); {
			case x < 5:
				id := 1 + rng.Intn(ntimers)
				if _, ok := nodes[id]; ok {
					// re-schedule (deadline extension): delete then add, as onAccess does
					v.Delete(nodes[id])
					delete(nodes, id)
					rec.Tp, rec.T = "del", id
					break
				}
				d := durs[rng.Intn(len(durs))]
				dl := now + d
				if rng.Intn(6) == 0 && now > 2000 {
					dl = now - int64(1+rng.Intn(2000)) // a write that sampled the clock before the last sweep
				}
				if dl >= (1 << 30) {
					dl = (1 << 30) - 1
				}
				n := nm.Create(id, id, dl*wheelUnit, 0, 1)
				nodes[id] = n
				v.Add(n)
				rec.Tp, rec.T, rec.D = "add", id, dl
			case x < 6:
				id := 1 + rng.Intn(ntimers)
				if n, ok := nodes[id]; ok && rng.Intn(2) == 0 {
					// a read extends the deadline in place and its event is dropped by the lossy read buffer: the wheel is not told
					cur := n.ExpiresAt() / wheelUnit
					if cur < now {
						cur = now
					}
					nd := cur + []int64{1, 3, 700, 1024, 2048, 5000, 70000, 1 << 20}[rng.Intn(8)]
					if nd >= (1 << 30) {
						nd = (1 << 30) - 1
					}
					if nd > n.ExpiresAt()/wheelUnit {
						n.SetExpiresAt(nd * wheelUnit)
						rec.Tp, rec.T, rec.D = "ext", id, nd
						break
					}
				}
				if n, ok := nodes[id]; ok {
					v.Delete(n)
					delete(nodes, id)
				}
				rec.Tp, rec.T = "del", id
			default:
				j := jumps[rng.Intn(len(jumps))]
				if now+j >= (1 << 30) {
					j = 0
				}
				if j == 0 && rng.Intn(2) == 0 {
					rec.Tp, rec.T = "del", 0
					break
				}
				// (j == 0: a maintenance run at an unchanged time - the wheel does not turn, timers that were due on arrival still fire)
				now += j
				v.DeleteExpired(now*wheelUnit, func(n node.Node[int, int], nowNanos int64) {
					rec.Expired = append(rec.Expired, n.Key())
					delete(nodes, n.Key())
				})
				sort.Ints(rec.Expired)
				rec.Tp, rec.D = "adv", now
			}
			rec.Time = int64(v.time) / wheelUnit
			rec.Pos = scanWheel(v)
			_ = enc.Encode(rec)
		}
	}
}
