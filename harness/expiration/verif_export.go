//go:build verif

package expiration

import (
	"reflect"
	"unsafe"

	"github.com/maypok86/otter/v2/internal/generated/node"
)

// WheelForVerif exposes the bucket roots to the in-package audit of the /verif harness (overlay only).
func (v *Variable[K, V]) WheelForVerif() [][]node.Node[K, V] { return v.wheel }

// TimeForVerif is the wheel's current time.
func (v *Variable[K, V]) TimeForVerif() uint64 { return v.time }

// DueForVerif is the root of the list of timers that were already due when they were scheduled (fix ef7bc38, F23).
// Looked up by name, so that the harness still builds against a tree without that list (the checks then judge its behaviour
// instead of failing to compile); nil if there is no such field.
func (v *Variable[K, V]) DueForVerif() node.Node[K, V] {
	f := reflect.ValueOf(v).Elem().FieldByName("due")
	if !f.IsValid() {
		return nil
	}
	return *(*node.Node[K, V])(unsafe.Pointer(f.UnsafeAddr()))
}
