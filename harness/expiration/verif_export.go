//go:build verif

package expiration

import "github.com/maypok86/otter/v2/internal/generated/node"

// WheelForVerif exposes the bucket roots to the in-package audit of the /verif harness (overlay only).
func (v *Variable[K, V]) WheelForVerif() [][]node.Node[K, V] { return v.wheel }

// TimeForVerif is the wheel's current time.
func (v *Variable[K, V]) TimeForVerif() uint64 { return v.time }

// DueForVerif is the root of the list of timers that were already due when they were scheduled (nil before fix of F23).
func (v *Variable[K, V]) DueForVerif() node.Node[K, V] { return v.due }
