package queue

// C16 driver: producers and the single consumer of the real MPSC queue under the gate scheduler (schedules
// derived from behaviours of spec/MPSC.tla, or seeded random / PCT), or free running with yields.  The history
// (accepted / refused pushes per producer, popped sequence) is judged by spec/MPSCHist.tla.

import (
	"strings"
	"bufio"
	"encoding/json"
	"os"
	"strconv"
	"sync"
	"sync/atomic"
	"testing"
	"time"

	"github.com/maypok86/otter/v2/internal/verifhook"
	"github.com/maypok86/otter/v2/internal/verifkit"
)

type mpscScenario struct {
	Producers int             `json:"producers"`
	NPush     int             `json:"npush"`
	InitCap   uint32          `json:"initcap"`
	MaxCap    uint32          `json:"maxcap"`
	Policy    string          `json:"policy"` // random | pct | script | free
	Seed      int64           `json:"seed"`
	Script    []verifkit.Step `json:"script"`
	LazyCons  int             `json:"lazycons"` // free mode: the consumer starts only after N pushes were attempted
}

type mpscPush struct {
	P    int   `json:"p"`
	N    int   `json:"n"`
	Ok   int   `json:"ok"`
	Size int64 `json:"size"` // Size() observed right after a refusal (gated runs: nothing else moved)
}

type mpscItem struct {
	P int `json:"p"`
	N int `json:"n"`
}

type mpscResult struct {
	T      string       `json:"t"`
	Sc     mpscScenario `json:"sc"`
	Diag   string       `json:"diag"`
	Cap    int          `json:"cap"`
	Pushes []mpscPush   `json:"pushes"`
	Out    []mpscItem   `json:"out"`
	MaxSz  int64        `json:"maxsz"`
	Gated  int          `json:"gated"`
	Drift  int          `json:"drift"`
	Steps  int          `json:"steps"`
	Left   int64        `json:"left"` // elements still in the queue at the end (must be 0)
}

func runMPSCScenario(sc mpscScenario) mpscResult {
	q := NewMPSC[mpscItem](sc.InitCap, sc.MaxCap)
	// the bound the queue documents: the requested maximum rounded up to a power of two (computed here, not asked of the queue)
	capWanted := 1
	for capWanted < int(sc.MaxCap) {
		capWanted *= 2
	}
	res := mpscResult{T: "mpsc", Sc: sc, Cap: capWanted, Pushes: []mpscPush{}, Out: []mpscItem{}}
	if sc.Policy == "bursts" {
		// one goroutine: seeded bursts of offers and polls (no race needed: chunk switches with the consumer index > 0, then a
		// burst that fills the queue to its bound); every refusal is logged with the exact size
		res.Gated = 1
		res.Diag = verifkit.Guard(func() {
			rnd := uint64(sc.Seed)*2862933555777941757 + 3037000493
			next := func(n int) int {
				rnd = rnd*6364136223846793005 + 1442695040888963407
				return int((rnd >> 33) % uint64(n))
			}
			n := 0
			for round := 0; round < 6+sc.NPush; round++ {
				burst := 1 + next(2*capWanted+2)
				if round%3 == 2 {
					burst = 2*capWanted + 3 // fill to the bound and beyond
				}
				for b := 0; b < burst; b++ {
					n++
					rec := mpscPush{P: 1, N: n}
					if q.TryPush(&mpscItem{1, n}) {
						rec.Ok = 1
					} else {
						rec.Size = int64(q.Size())
					}
					res.Pushes = append(res.Pushes, rec)
					if sz := int64(q.Size()); sz > res.MaxSz {
						res.MaxSz = sz
					}
				}
				polls := 1 + next(2*capWanted+2)
				if round%3 == 1 {
					polls = 1 + next(3) // leave most of it: the next chunk switch happens with the consumer behind
				}
				for b := 0; b < polls; b++ {
					if it := q.TryPop(); it != nil {
						res.Out = append(res.Out, *it)
					}
				}
			}
			for it := q.TryPop(); it != nil; it = q.TryPop() {
				res.Out = append(res.Out, *it)
			}
		})
		res.Left = int64(q.Size())
		res.Sc.Script = []verifkit.Step{}
		return res
	}
	var mu sync.Mutex
	var left atomic.Int64
	var attempted atomic.Int64
	var stop atomic.Bool
	left.Store(int64(sc.Producers))
	producer := func(p int) func() {
		return func() {
			defer left.Add(-1)
			for n := 1; n <= sc.NPush; n++ {
				it := &mpscItem{p, n}
				ok := q.TryPush(it)
				attempted.Add(1)
				rec := mpscPush{P: p, N: n}
				if ok {
					rec.Ok = 1
				} else {
					rec.Size = int64(q.Size())
				}
				mu.Lock()
				res.Pushes = append(res.Pushes, rec)
				mu.Unlock()
			}
		}
	}
	consumer := func() {
		for {
			if sc.Policy == "free" && attempted.Load() < int64(sc.LazyCons) && left.Load() > 0 {
				continue
			}
			if sz := int64(q.Size()); sz > res.MaxSz {
				res.MaxSz = sz
			}
			it := q.TryPop()
			if it != nil {
				res.Out = append(res.Out, *it)
				continue
			}
			if (left.Load() == 0 && q.IsEmpty()) || stop.Load() {
				return
			}
		}
	}
	if sc.Policy == "free" {
		verifhook.Install(verifkit.Yielder(sc.Seed, 0.25))
		var wg sync.WaitGroup
		for p := 1; p <= sc.Producers; p++ {
			wg.Add(1)
			fn := producer(p)
			go func() {
				defer wg.Done()
				if m := verifkit.Guard(fn); m != "" {
					mu.Lock()
					res.Diag = m
					mu.Unlock()
				}
			}()
		}
		wg.Add(1)
		go func() {
			defer wg.Done()
			if m := verifkit.Guard(consumer); m != "" {
				mu.Lock()
				res.Diag = m
				mu.Unlock()
			}
		}()
		if !waitTimeout(&wg, 20*time.Second) {
			mu.Lock()
			res.Diag = "hang: free-running goroutines did not finish"
			mu.Unlock()
		}
		verifhook.Install(nil)
	} else {
		res.Gated = 1
		s := verifkit.NewSched(sc.Seed)
		s.Policy = sc.Policy
		s.Script = append([]verifkit.Step{}, sc.Script...)
		s.MaxSteps = 400000
		for p := 1; p <= sc.Producers; p++ {
			s.Go("p"+strconv.Itoa(p), producer(p))
		}
		s.Go("c", consumer)
		res.Diag = s.Run()
	if res.Diag != "" && res.Diag != "step limit" && !strings.HasPrefix(res.Diag, "panic") && s.WaitDone(5*time.Second) {
		res.Diag = ""
	}
		res.Drift = s.Drift
		res.Steps = len(s.Log)
	}
	stop.Store(true)
	res.Left = int64(q.Size())
	res.Sc.Script = []verifkit.Step{}
	return res
}

// TestVerifMPSC: VERIF_IN = JSON array of scenarios; VERIF_OUT = NDJSON histories.
func TestVerifMPSC(t *testing.T) {
	out := os.Getenv("VERIF_OUT")
	if out == "" {
		t.Skip("VERIF_OUT not set")
	}
	b, err := os.ReadFile(os.Getenv("VERIF_IN"))
	if err != nil {
		t.Fatal(err)
	}
	var scs []mpscScenario
	if err := json.Unmarshal(b, &scs); err != nil {
		t.Fatal(err)
	}
	f, err := os.Create(out)
	if err != nil {
		t.Fatal(err)
	}
	defer f.Close()
	w := bufio.NewWriter(f)
	defer w.Flush()
	enc := json.NewEncoder(w)
	for _, sc := range scs {
		r := runMPSCScenario(sc)
		_ = enc.Encode(r)
		if r.Diag != "" {
			// goroutines of the broken run may still be spinning: do not let them distort later scenarios
			break
		}
	}
}

func waitTimeout(wg *sync.WaitGroup, d time.Duration) bool {
	done := make(chan struct{})
	go func() { wg.Wait(); close(done) }()
	select {
	case <-done:
		return true
	case <-time.After(d):
		return false
	}
}
