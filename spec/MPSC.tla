-------------------------------- MODULE MPSC --------------------------------
(***************************************************************************)
(* The growable multi-producer single-consumer write buffer                *)
(* (internal/deque/queue/mpsc.go, a port of JCTools'                       *)
(* MpscGrowableArrayQueue), one label per shared access; labels are the    *)
(* verifhook points ("push.casIndex" -> push_casIndex).                    *)
(*                                                                         *)
(* Indices advance by 2 (low bit of producerIndex = resize in progress);   *)
(* a chunk of capacity c has c+1 slots, the last one links to the next     *)
(* chunk; JUMP in a slot tells the consumer to follow the link.            *)
(*                                                                         *)
(* C16: NoDup, Order (per producer), Complete, Bounded, RefusedOnlyWhenFull*)
(***************************************************************************)
EXTENDS Integers, Sequences, FiniteSets, TLC

CONSTANTS Producers,   \* set of producer ids (integers)
          NPush,       \* pushes attempted per producer
          InitCap,     \* initial capacity (power of two >= 2)
          MaxCap       \* maximum capacity (power of two >= 4)

NIL == <<"nil">>
JUMP == <<"jump">>
MaxQ == MaxCap * 2
Off(i, m) == (i \div 2) % ((m \div 2) + 1)        \* (index & mask) >> 1 for mask = 2*(cap-1)
LinkOff(m) == (m + 2) \div 2                      \* nextArrayOffset(mask): the last slot of the chunk
NewChunk(n) == [j \in 0 .. (n - 1) |-> NIL]
Min(a, b) == IF a < b THEN a ELSE b
Cons == 0

(* --algorithm MPSC
variables pIndex = 0, pLimit = (InitCap - 1) * 2, pMask = (InitCap - 1) * 2, pBuf = 1,
          cIndex = 0, cBuf = 1, cMask = (InitCap - 1) * 2,
          bufs = <<NewChunk(InitCap + 1)>>,
          out = <<>>, accepted = {}, refusedBad = FALSE, left = Cardinality(Producers);

fair process Prod \in Producers
variables n = 1, limit = 0, pi = 0, mask = 0, buf = 0, ci = 0, bc = 0, nb = 0, nm = 0;
begin
 P0: while n <= NPush do
 push_ldLimit: limit := pLimit;
 push_ldIndex: pi := pIndex;
          if pi % 2 = 1 then goto push_ldLimit; end if;
 push_ldMask:  mask := pMask;
 push_ldBuf:   buf := pBuf;
          if limit > pi then goto push_casIndex; end if;
 slow_ldC: ci := cIndex;
          bc := IF mask + 2 = MaxQ THEN MaxQ ELSE mask;
          if ci + bc > pi then
 slow_casLimit: if pLimit = limit then pLimit := ci + bc; else goto push_ldLimit; end if;
          elsif MaxQ - (pi - ci) <= 0 then
            \* TryPush returns false; the caller gives up on this element
            if (pIndex - cIndex) # MaxQ then refusedBad := TRUE; end if;
            n := n + 1;
            goto P0;
          else
 slow_casResize: if pIndex = pi then pIndex := pi + 1; goto rz_stBuf; else goto push_ldLimit; end if;
          end if;
 push_casIndex: if pIndex = pi then pIndex := pi + 2; else goto push_ldLimit; end if;
 push_publish: bufs[buf][Off(pi, mask)] := <<self, n>>;
          accepted := accepted \cup {<<self, n>>};
          n := n + 1;
          goto P0;
 rz_stBuf:  nb := Len(bufs) + 1;
            bufs := Append(bufs, NewChunk(2 * (Cardinality(DOMAIN bufs[buf]) - 1) + 1));
            pBuf := nb;
 rz_stMask: nm := (Cardinality(DOMAIN bufs[nb]) - 2) * 2;
            pMask := nm;
 rz_stElem: bufs[nb][Off(pi, nm)] := <<self, n>>;
 rz_stLink: bufs[buf][LinkOff(mask)] := <<"link", nb>>;
 rz_ldC:    ci := cIndex;
 rz_stLimit: pLimit := pi + Min(nm, MaxQ - (pi - ci));
 rz_stIndex: pIndex := pi + 2;
 rz_stJump:  bufs[buf][Off(pi, mask)] := JUMP;
            accepted := accepted \cup {<<self, n>>};
            n := n + 1;
     end while;
     left := left - 1;
end process;

fair process Consumer = Cons
variables v = NIL, nb2 = 0;
begin
 C0: while left > 0 \/ cIndex # pIndex do
 pop_ldSlot: v := bufs[cBuf][Off(cIndex, cMask)];
         if v = NIL then
 pop_ldP:   if cIndex = pIndex then goto C0; end if;
 pop_spin:  v := bufs[cBuf][Off(cIndex, cMask)];
            if v = NIL then goto pop_spin; end if;
         end if;
 pop_gotV: if v = JUMP then
 pop_follow: nb2 := bufs[cBuf][LinkOff(cMask)][2];
             bufs[cBuf][LinkOff(cMask)] := NIL;
 pop_newBuf: cBuf := nb2;
             cMask := (Cardinality(DOMAIN bufs[nb2]) - 2) * 2;
 pop_ldNew:  v := bufs[cBuf][Off(cIndex, cMask)];
             assert v # NIL /\ v # JUMP;
         end if;
 pop_clear: bufs[cBuf][Off(cIndex, cMask)] := NIL;
 pop_stC:   cIndex := cIndex + 2;
            out := Append(out, v);
     end while;
end process;
end algorithm; *)
\* BEGIN TRANSLATION
VARIABLES pc, pIndex, pLimit, pMask, pBuf, cIndex, cBuf, cMask, bufs, out, 
          accepted, refusedBad, left, n, limit, pi, mask, buf, ci, bc, nb, nm, 
          v, nb2

vars == << pc, pIndex, pLimit, pMask, pBuf, cIndex, cBuf, cMask, bufs, out, 
           accepted, refusedBad, left, n, limit, pi, mask, buf, ci, bc, nb, 
           nm, v, nb2 >>

ProcSet == (Producers) \cup {Cons}

Init == (* Global variables *)
        /\ pIndex = 0
        /\ pLimit = (InitCap - 1) * 2
        /\ pMask = (InitCap - 1) * 2
        /\ pBuf = 1
        /\ cIndex = 0
        /\ cBuf = 1
        /\ cMask = (InitCap - 1) * 2
        /\ bufs = <<NewChunk(InitCap + 1)>>
        /\ out = <<>>
        /\ accepted = {}
        /\ refusedBad = FALSE
        /\ left = Cardinality(Producers)
        (* Process Prod *)
        /\ n = [self \in Producers |-> 1]
        /\ limit = [self \in Producers |-> 0]
        /\ pi = [self \in Producers |-> 0]
        /\ mask = [self \in Producers |-> 0]
        /\ buf = [self \in Producers |-> 0]
        /\ ci = [self \in Producers |-> 0]
        /\ bc = [self \in Producers |-> 0]
        /\ nb = [self \in Producers |-> 0]
        /\ nm = [self \in Producers |-> 0]
        (* Process Consumer *)
        /\ v = NIL
        /\ nb2 = 0
        /\ pc = [self \in ProcSet |-> CASE self \in Producers -> "P0"
                                        [] self = Cons -> "C0"]

P0(self) == /\ pc[self] = "P0"
            /\ IF n[self] <= NPush
                  THEN /\ pc' = [pc EXCEPT ![self] = "push_ldLimit"]
                       /\ left' = left
                  ELSE /\ left' = left - 1
                       /\ pc' = [pc EXCEPT ![self] = "Done"]
            /\ UNCHANGED << pIndex, pLimit, pMask, pBuf, cIndex, cBuf, cMask, 
                            bufs, out, accepted, refusedBad, n, limit, pi, 
                            mask, buf, ci, bc, nb, nm, v, nb2 >>

push_ldLimit(self) == /\ pc[self] = "push_ldLimit"
                      /\ limit' = [limit EXCEPT ![self] = pLimit]
                      /\ pc' = [pc EXCEPT ![self] = "push_ldIndex"]
                      /\ UNCHANGED << pIndex, pLimit, pMask, pBuf, cIndex, 
                                      cBuf, cMask, bufs, out, accepted, 
                                      refusedBad, left, n, pi, mask, buf, ci, 
                                      bc, nb, nm, v, nb2 >>

push_ldIndex(self) == /\ pc[self] = "push_ldIndex"
                      /\ pi' = [pi EXCEPT ![self] = pIndex]
                      /\ IF pi'[self] % 2 = 1
                            THEN /\ pc' = [pc EXCEPT ![self] = "push_ldLimit"]
                            ELSE /\ pc' = [pc EXCEPT ![self] = "push_ldMask"]
                      /\ UNCHANGED << pIndex, pLimit, pMask, pBuf, cIndex, 
                                      cBuf, cMask, bufs, out, accepted, 
                                      refusedBad, left, n, limit, mask, buf, 
                                      ci, bc, nb, nm, v, nb2 >>

push_ldMask(self) == /\ pc[self] = "push_ldMask"
                     /\ mask' = [mask EXCEPT ![self] = pMask]
                     /\ pc' = [pc EXCEPT ![self] = "push_ldBuf"]
                     /\ UNCHANGED << pIndex, pLimit, pMask, pBuf, cIndex, cBuf, 
                                     cMask, bufs, out, accepted, refusedBad, 
                                     left, n, limit, pi, buf, ci, bc, nb, nm, 
                                     v, nb2 >>

push_ldBuf(self) == /\ pc[self] = "push_ldBuf"
                    /\ buf' = [buf EXCEPT ![self] = pBuf]
                    /\ IF limit[self] > pi[self]
                          THEN /\ pc' = [pc EXCEPT ![self] = "push_casIndex"]
                          ELSE /\ pc' = [pc EXCEPT ![self] = "slow_ldC"]
                    /\ UNCHANGED << pIndex, pLimit, pMask, pBuf, cIndex, cBuf, 
                                    cMask, bufs, out, accepted, refusedBad, 
                                    left, n, limit, pi, mask, ci, bc, nb, nm, 
                                    v, nb2 >>

slow_ldC(self) == /\ pc[self] = "slow_ldC"
                  /\ ci' = [ci EXCEPT ![self] = cIndex]
                  /\ bc' = [bc EXCEPT ![self] = IF mask[self] + 2 = MaxQ THEN MaxQ ELSE mask[self]]
                  /\ IF ci'[self] + bc'[self] > pi[self]
                        THEN /\ pc' = [pc EXCEPT ![self] = "slow_casLimit"]
                             /\ UNCHANGED << refusedBad, n >>
                        ELSE /\ IF MaxQ - (pi[self] - ci'[self]) <= 0
                                   THEN /\ IF (pIndex - cIndex) # MaxQ
                                              THEN /\ refusedBad' = TRUE
                                              ELSE /\ TRUE
                                                   /\ UNCHANGED refusedBad
                                        /\ n' = [n EXCEPT ![self] = n[self] + 1]
                                        /\ pc' = [pc EXCEPT ![self] = "P0"]
                                   ELSE /\ pc' = [pc EXCEPT ![self] = "slow_casResize"]
                                        /\ UNCHANGED << refusedBad, n >>
                  /\ UNCHANGED << pIndex, pLimit, pMask, pBuf, cIndex, cBuf, 
                                  cMask, bufs, out, accepted, left, limit, pi, 
                                  mask, buf, nb, nm, v, nb2 >>

slow_casLimit(self) == /\ pc[self] = "slow_casLimit"
                       /\ IF pLimit = limit[self]
                             THEN /\ pLimit' = ci[self] + bc[self]
                                  /\ pc' = [pc EXCEPT ![self] = "push_casIndex"]
                             ELSE /\ pc' = [pc EXCEPT ![self] = "push_ldLimit"]
                                  /\ UNCHANGED pLimit
                       /\ UNCHANGED << pIndex, pMask, pBuf, cIndex, cBuf, 
                                       cMask, bufs, out, accepted, refusedBad, 
                                       left, n, limit, pi, mask, buf, ci, bc, 
                                       nb, nm, v, nb2 >>

slow_casResize(self) == /\ pc[self] = "slow_casResize"
                        /\ IF pIndex = pi[self]
                              THEN /\ pIndex' = pi[self] + 1
                                   /\ pc' = [pc EXCEPT ![self] = "rz_stBuf"]
                              ELSE /\ pc' = [pc EXCEPT ![self] = "push_ldLimit"]
                                   /\ UNCHANGED pIndex
                        /\ UNCHANGED << pLimit, pMask, pBuf, cIndex, cBuf, 
                                        cMask, bufs, out, accepted, refusedBad, 
                                        left, n, limit, pi, mask, buf, ci, bc, 
                                        nb, nm, v, nb2 >>

push_casIndex(self) == /\ pc[self] = "push_casIndex"
                       /\ IF pIndex = pi[self]
                             THEN /\ pIndex' = pi[self] + 2
                                  /\ pc' = [pc EXCEPT ![self] = "push_publish"]
                             ELSE /\ pc' = [pc EXCEPT ![self] = "push_ldLimit"]
                                  /\ UNCHANGED pIndex
                       /\ UNCHANGED << pLimit, pMask, pBuf, cIndex, cBuf, 
                                       cMask, bufs, out, accepted, refusedBad, 
                                       left, n, limit, pi, mask, buf, ci, bc, 
                                       nb, nm, v, nb2 >>

push_publish(self) == /\ pc[self] = "push_publish"
                      /\ bufs' = [bufs EXCEPT ![buf[self]][Off(pi[self], mask[self])] = <<self, n[self]>>]
                      /\ accepted' = (accepted \cup {<<self, n[self]>>})
                      /\ n' = [n EXCEPT ![self] = n[self] + 1]
                      /\ pc' = [pc EXCEPT ![self] = "P0"]
                      /\ UNCHANGED << pIndex, pLimit, pMask, pBuf, cIndex, 
                                      cBuf, cMask, out, refusedBad, left, 
                                      limit, pi, mask, buf, ci, bc, nb, nm, v, 
                                      nb2 >>

rz_stBuf(self) == /\ pc[self] = "rz_stBuf"
                  /\ nb' = [nb EXCEPT ![self] = Len(bufs) + 1]
                  /\ bufs' = Append(bufs, NewChunk(2 * (Cardinality(DOMAIN bufs[buf[self]]) - 1) + 1))
                  /\ pBuf' = nb'[self]
                  /\ pc' = [pc EXCEPT ![self] = "rz_stMask"]
                  /\ UNCHANGED << pIndex, pLimit, pMask, cIndex, cBuf, cMask, 
                                  out, accepted, refusedBad, left, n, limit, 
                                  pi, mask, buf, ci, bc, nm, v, nb2 >>

rz_stMask(self) == /\ pc[self] = "rz_stMask"
                   /\ nm' = [nm EXCEPT ![self] = (Cardinality(DOMAIN bufs[nb[self]]) - 2) * 2]
                   /\ pMask' = nm'[self]
                   /\ pc' = [pc EXCEPT ![self] = "rz_stElem"]
                   /\ UNCHANGED << pIndex, pLimit, pBuf, cIndex, cBuf, cMask, 
                                   bufs, out, accepted, refusedBad, left, n, 
                                   limit, pi, mask, buf, ci, bc, nb, v, nb2 >>

rz_stElem(self) == /\ pc[self] = "rz_stElem"
                   /\ bufs' = [bufs EXCEPT ![nb[self]][Off(pi[self], nm[self])] = <<self, n[self]>>]
                   /\ pc' = [pc EXCEPT ![self] = "rz_stLink"]
                   /\ UNCHANGED << pIndex, pLimit, pMask, pBuf, cIndex, cBuf, 
                                   cMask, out, accepted, refusedBad, left, n, 
                                   limit, pi, mask, buf, ci, bc, nb, nm, v, 
                                   nb2 >>

rz_stLink(self) == /\ pc[self] = "rz_stLink"
                   /\ bufs' = [bufs EXCEPT ![buf[self]][LinkOff(mask[self])] = <<"link", nb[self]>>]
                   /\ pc' = [pc EXCEPT ![self] = "rz_ldC"]
                   /\ UNCHANGED << pIndex, pLimit, pMask, pBuf, cIndex, cBuf, 
                                   cMask, out, accepted, refusedBad, left, n, 
                                   limit, pi, mask, buf, ci, bc, nb, nm, v, 
                                   nb2 >>

rz_ldC(self) == /\ pc[self] = "rz_ldC"
                /\ ci' = [ci EXCEPT ![self] = cIndex]
                /\ pc' = [pc EXCEPT ![self] = "rz_stLimit"]
                /\ UNCHANGED << pIndex, pLimit, pMask, pBuf, cIndex, cBuf, 
                                cMask, bufs, out, accepted, refusedBad, left, 
                                n, limit, pi, mask, buf, bc, nb, nm, v, nb2 >>

rz_stLimit(self) == /\ pc[self] = "rz_stLimit"
                    /\ pLimit' = pi[self] + Min(nm[self], MaxQ - (pi[self] - ci[self]))
                    /\ pc' = [pc EXCEPT ![self] = "rz_stIndex"]
                    /\ UNCHANGED << pIndex, pMask, pBuf, cIndex, cBuf, cMask, 
                                    bufs, out, accepted, refusedBad, left, n, 
                                    limit, pi, mask, buf, ci, bc, nb, nm, v, 
                                    nb2 >>

rz_stIndex(self) == /\ pc[self] = "rz_stIndex"
                    /\ pIndex' = pi[self] + 2
                    /\ pc' = [pc EXCEPT ![self] = "rz_stJump"]
                    /\ UNCHANGED << pLimit, pMask, pBuf, cIndex, cBuf, cMask, 
                                    bufs, out, accepted, refusedBad, left, n, 
                                    limit, pi, mask, buf, ci, bc, nb, nm, v, 
                                    nb2 >>

rz_stJump(self) == /\ pc[self] = "rz_stJump"
                   /\ bufs' = [bufs EXCEPT ![buf[self]][Off(pi[self], mask[self])] = JUMP]
                   /\ accepted' = (accepted \cup {<<self, n[self]>>})
                   /\ n' = [n EXCEPT ![self] = n[self] + 1]
                   /\ pc' = [pc EXCEPT ![self] = "P0"]
                   /\ UNCHANGED << pIndex, pLimit, pMask, pBuf, cIndex, cBuf, 
                                   cMask, out, refusedBad, left, limit, pi, 
                                   mask, buf, ci, bc, nb, nm, v, nb2 >>

Prod(self) == P0(self) \/ push_ldLimit(self) \/ push_ldIndex(self)
                 \/ push_ldMask(self) \/ push_ldBuf(self) \/ slow_ldC(self)
                 \/ slow_casLimit(self) \/ slow_casResize(self)
                 \/ push_casIndex(self) \/ push_publish(self)
                 \/ rz_stBuf(self) \/ rz_stMask(self) \/ rz_stElem(self)
                 \/ rz_stLink(self) \/ rz_ldC(self) \/ rz_stLimit(self)
                 \/ rz_stIndex(self) \/ rz_stJump(self)

C0 == /\ pc[Cons] = "C0"
      /\ IF left > 0 \/ cIndex # pIndex
            THEN /\ pc' = [pc EXCEPT ![Cons] = "pop_ldSlot"]
            ELSE /\ pc' = [pc EXCEPT ![Cons] = "Done"]
      /\ UNCHANGED << pIndex, pLimit, pMask, pBuf, cIndex, cBuf, cMask, bufs, 
                      out, accepted, refusedBad, left, n, limit, pi, mask, buf, 
                      ci, bc, nb, nm, v, nb2 >>

pop_ldSlot == /\ pc[Cons] = "pop_ldSlot"
              /\ v' = bufs[cBuf][Off(cIndex, cMask)]
              /\ IF v' = NIL
                    THEN /\ pc' = [pc EXCEPT ![Cons] = "pop_ldP"]
                    ELSE /\ pc' = [pc EXCEPT ![Cons] = "pop_gotV"]
              /\ UNCHANGED << pIndex, pLimit, pMask, pBuf, cIndex, cBuf, cMask, 
                              bufs, out, accepted, refusedBad, left, n, limit, 
                              pi, mask, buf, ci, bc, nb, nm, nb2 >>

pop_ldP == /\ pc[Cons] = "pop_ldP"
           /\ IF cIndex = pIndex
                 THEN /\ pc' = [pc EXCEPT ![Cons] = "C0"]
                 ELSE /\ pc' = [pc EXCEPT ![Cons] = "pop_spin"]
           /\ UNCHANGED << pIndex, pLimit, pMask, pBuf, cIndex, cBuf, cMask, 
                           bufs, out, accepted, refusedBad, left, n, limit, pi, 
                           mask, buf, ci, bc, nb, nm, v, nb2 >>

pop_spin == /\ pc[Cons] = "pop_spin"
            /\ v' = bufs[cBuf][Off(cIndex, cMask)]
            /\ IF v' = NIL
                  THEN /\ pc' = [pc EXCEPT ![Cons] = "pop_spin"]
                  ELSE /\ pc' = [pc EXCEPT ![Cons] = "pop_gotV"]
            /\ UNCHANGED << pIndex, pLimit, pMask, pBuf, cIndex, cBuf, cMask, 
                            bufs, out, accepted, refusedBad, left, n, limit, 
                            pi, mask, buf, ci, bc, nb, nm, nb2 >>

pop_gotV == /\ pc[Cons] = "pop_gotV"
            /\ IF v = JUMP
                  THEN /\ pc' = [pc EXCEPT ![Cons] = "pop_follow"]
                  ELSE /\ pc' = [pc EXCEPT ![Cons] = "pop_clear"]
            /\ UNCHANGED << pIndex, pLimit, pMask, pBuf, cIndex, cBuf, cMask, 
                            bufs, out, accepted, refusedBad, left, n, limit, 
                            pi, mask, buf, ci, bc, nb, nm, v, nb2 >>

pop_follow == /\ pc[Cons] = "pop_follow"
              /\ nb2' = bufs[cBuf][LinkOff(cMask)][2]
              /\ bufs' = [bufs EXCEPT ![cBuf][LinkOff(cMask)] = NIL]
              /\ pc' = [pc EXCEPT ![Cons] = "pop_newBuf"]
              /\ UNCHANGED << pIndex, pLimit, pMask, pBuf, cIndex, cBuf, cMask, 
                              out, accepted, refusedBad, left, n, limit, pi, 
                              mask, buf, ci, bc, nb, nm, v >>

pop_newBuf == /\ pc[Cons] = "pop_newBuf"
              /\ cBuf' = nb2
              /\ cMask' = (Cardinality(DOMAIN bufs[nb2]) - 2) * 2
              /\ pc' = [pc EXCEPT ![Cons] = "pop_ldNew"]
              /\ UNCHANGED << pIndex, pLimit, pMask, pBuf, cIndex, bufs, out, 
                              accepted, refusedBad, left, n, limit, pi, mask, 
                              buf, ci, bc, nb, nm, v, nb2 >>

pop_ldNew == /\ pc[Cons] = "pop_ldNew"
             /\ v' = bufs[cBuf][Off(cIndex, cMask)]
             /\ Assert(v' # NIL /\ v' # JUMP, 
                       "Failure of assertion at line 96, column 14.")
             /\ pc' = [pc EXCEPT ![Cons] = "pop_clear"]
             /\ UNCHANGED << pIndex, pLimit, pMask, pBuf, cIndex, cBuf, cMask, 
                             bufs, out, accepted, refusedBad, left, n, limit, 
                             pi, mask, buf, ci, bc, nb, nm, nb2 >>

pop_clear == /\ pc[Cons] = "pop_clear"
             /\ bufs' = [bufs EXCEPT ![cBuf][Off(cIndex, cMask)] = NIL]
             /\ pc' = [pc EXCEPT ![Cons] = "pop_stC"]
             /\ UNCHANGED << pIndex, pLimit, pMask, pBuf, cIndex, cBuf, cMask, 
                             out, accepted, refusedBad, left, n, limit, pi, 
                             mask, buf, ci, bc, nb, nm, v, nb2 >>

pop_stC == /\ pc[Cons] = "pop_stC"
           /\ cIndex' = cIndex + 2
           /\ out' = Append(out, v)
           /\ pc' = [pc EXCEPT ![Cons] = "C0"]
           /\ UNCHANGED << pIndex, pLimit, pMask, pBuf, cBuf, cMask, bufs, 
                           accepted, refusedBad, left, n, limit, pi, mask, buf, 
                           ci, bc, nb, nm, v, nb2 >>

Consumer == C0 \/ pop_ldSlot \/ pop_ldP \/ pop_spin \/ pop_gotV
               \/ pop_follow \/ pop_newBuf \/ pop_ldNew \/ pop_clear
               \/ pop_stC

(* Allow infinite stuttering to prevent deadlock on termination. *)
Terminating == /\ \A self \in ProcSet: pc[self] = "Done"
               /\ UNCHANGED vars

Next == Consumer
           \/ (\E self \in Producers: Prod(self))
           \/ Terminating

Spec == /\ Init /\ [][Next]_vars
        /\ \A self \in Producers : WF_vars(Prod(self))
        /\ WF_vars(Consumer)

Termination == <>(\A self \in ProcSet: pc[self] = "Done")

\* END TRANSLATION

OutSet == {out[j] : j \in DOMAIN out}
NoDup == Cardinality(OutSet) = Len(out)
Order == \A a, b \in DOMAIN out : (a < b /\ out[a][1] = out[b][1]) => out[a][2] < out[b][2]
OnlyAccepted == OutSet \subseteq accepted \cup {<<p, m>> : p \in Producers, m \in 1 .. NPush}
Bounded == (pIndex - cIndex) \div 2 <= MaxCap
RefusedOnlyWhenFull == ~refusedBad
AllDone == \A p \in Producers \cup {Cons} : pc[p] = "Done"
Complete == AllDone => OutSet = accepted
Terminates == <>AllDone
=============================================================================
