------------------------------- MODULE IterHist -------------------------------
(***************************************************************************)
(* C15 at the level of the cache's iterators (harness/otter/               *)
(* verif_iter_test.go): keys 0 .. stable-1 are present for the whole run   *)
(* (their values are only ever replaced), so every iteration must yield    *)
(* each of them exactly once; no key is yielded twice.                     *)
(***************************************************************************)
EXTENDS Integers, Sequences, FiniteSets, TLC, Json, IOUtils
Recs == ndJsonDeserialize(IOEnv.VERIF_TRACE)
VARIABLES i, dev
vars == <<i, dev>>
F(idx, name, detail) == [rec |-> idx, pred |-> name, detail |-> ToString(detail)]
SeqToSet(q) == {q[j] : j \in DOMAIN q}
Check(r, idx) ==
    LET stable == 0 .. (r.sc.stable - 1)
        missing(g) == stable \ SeqToSet(r.iters[g])
        dup(g) == Cardinality(SeqToSet(r.iters[g])) # Len(r.iters[g])
        badM == {g \in DOMAIN r.iters : missing(g) # {}}
        badD == {g \in DOMAIN r.iters : dup(g)}
    IN (IF badM # {} THEN <<F(idx, "C15.iteration_missed_present_key", <<Cardinality(badM), Len(r.iters), missing(CHOOSE g \in badM : TRUE)>>)>> ELSE <<>>)
       \o (IF badD # {} THEN <<F(idx, "C15.iteration_yielded_key_twice", <<Cardinality(badD), r.iters[CHOOSE g \in badD : TRUE]>>)>> ELSE <<>>)
Init == i = 1 /\ dev = <<>>
Next == \/ /\ i <= Len(Recs)
           /\ dev' = dev \o Check(Recs[i], i)
           /\ i' = i + 1
        \/ /\ i = Len(Recs) + 1
           /\ JsonSerialize(IOEnv.VERIF_DEVOUT, [n |-> Len(Recs), devs |-> dev])
           /\ i' = i + 1
           /\ UNCHANGED dev
Spec == Init /\ [][Next]_vars
=============================================================================
