------------------------------- MODULE IterHist -------------------------------
(***************************************************************************)
(* C15 at the level of the cache's iterators (harness/otter/               *)
(* verif_iter_test.go): keys 0 .. stable-1 are present for the whole run   *)
(* (their values are only ever replaced), so every iteration must yield    *)
(* each of them exactly once; no key is yielded twice.                     *)
(***************************************************************************)
EXTENDS Integers, Sequences, FiniteSets, TLC, Json, IOUtils
Recs == ndJsonDeserialize(IOEnv.VERIF_TRACE)
VARIABLES i, dev
vars == <<i, dev>>
F(idx, name, detail) == [rec |-> idx, pred |-> name, detail |-> ToString(detail)]
SeqToSet(q) == {q[j] : j \in DOMAIN q}
RECURSIVE SumDFrom(_, _)
SumDFrom(a, j) == IF j > Len(a) THEN 0 ELSE (IF a[j].act = "adv" THEN a[j].d ELSE 0) + SumDFrom(a, j + 1)
SumD(a) == SumDFrom(a, 1)
Check(r, idx) ==
    LET stable == 0 .. (r.sc.stable - 1)
        missing(g) == stable \ SeqToSet(r.iters[g])
        dup(g) == Cardinality(SeqToSet(r.iters[g])) # Len(r.iters[g])
        badM == {g \in DOMAIN r.iters : missing(g) # {}}
        badD == {g \in DOMAIN r.iters : dup(g)}
    IN (IF badM # {} THEN <<F(idx, "C15.iteration_missed_present_key", <<Cardinality(badM), Len(r.iters), missing(CHOOSE g \in badM : TRUE)>>)>> ELSE <<>>)
       \o (IF badD # {} THEN <<F(idx, "C15.iteration_yielded_key_twice", <<Cardinality(badD), r.iters[CHOOSE g \in badD : TRUE]>>)>> ELSE <<>>)
\* Loop-body scenarios (one goroutine): the consumer moves the clock, replaces values and invalidates keys between two
\* yields.  r.exp[k+1] = deadline of key k when the iteration started, r.yields = <<key, value, clock at the yield>>.
\*   C03 / C12: an entry is never iterated over once the clock has reached its expiration time (keys the body itself
\*              rewrote are left out: their deadline moved);
\*   C20:       an iteration is not a counting lookup: hits and misses do not move;
\*   C15:       a key the body did not touch and that is alive from the first to the last moment is yielded exactly once,
\*              no key twice;
\*   C01:       a yielded value is one the key held.
CheckBody(r, idx) ==
    LET K == 0 .. (r.sc.n - 1)
        touched == {r.sc.acts[j].k : j \in {x \in DOMAIN r.sc.acts : r.sc.acts[x].act \in {"set", "setshort", "inv"}}}
        Y == DOMAIN r.yields
        tEnd == IF Len(r.yields) = 0 THEN r.t0 ELSE r.yields[Len(r.yields)][3] + 1000000
        tLast == r.t0 + SumD(r.sc.acts)
        late == {y \in Y : r.yields[y][1] \in K \ touched /\ r.exp[r.yields[y][1] + 1] # -1 /\ r.exp[r.yields[y][1] + 1] <= r.yields[y][3]}
        ghost == {y \in Y : r.yields[y][1] \in K \ touched /\ r.exp[r.yields[y][1] + 1] = -1}
        keys == [y \in Y |-> r.yields[y][1]]
        dupl == Cardinality(SeqToSet(keys)) # Len(keys)
        alive == {k \in K \ touched : r.exp[k + 1] # -1 /\ r.exp[k + 1] > tLast}
        missed == alive \ SeqToSet(keys)
        \* keys the body rewrote exactly once and never invalidated: d = <<key, 1, new value, clock of the write, new deadline>>
        once == {d \in {r.done[j] : j \in DOMAIN r.done} :
                    /\ d[2] = 1
                    /\ Cardinality({j \in DOMAIN r.done : r.done[j][1] = d[1]}) = 1}
        \* ... such a key is present from the first to the last moment if the old value was alive when it was rewritten and the
        \* new one outlives the iteration: it must be yielded (C15); a yield of the new value after ITS deadline is C03's
        kept == {d \in once : r.exp[d[1] + 1] # -1 /\ r.exp[d[1] + 1] > d[4] /\ d[5] > tLast}
        missed2 == {d[1] : d \in kept} \ SeqToSet(keys)
        late2 == {y \in Y : \E d \in once : d[1] = r.yields[y][1] /\ r.yields[y][2] = d[3] /\ d[5] <= r.yields[y][3]}
        late3 == {y \in Y : r.sc.kind = "keys" /\ \E d \in once : /\ d[1] = r.yields[y][1] /\ d[4] <= r.yields[y][3] /\ d[5] <= r.yields[y][3]
                                                                    /\ (r.exp[d[1] + 1] = -1 \/ r.exp[d[1] + 1] <= r.yields[y][3])}
        wrongv == {y \in Y : r.yields[y][2] # -1 /\ r.yields[y][1] \in K \ touched /\ r.yields[y][2] # r.yields[y][1]}
        \* an iterator that was obtained, kept while time passed (sc.pre seconds) and consumed afterwards: entries that had expired before the
        \* consumption began (t0 is taken after the wait) are not yielded
        deadBefore == {y \in Y : r.sc.pre > 0 /\ r.yields[y][1] \in K \ touched /\ r.exp[r.yields[y][1] + 1] # -1 /\ r.exp[r.yields[y][1] + 1] <= r.t0}
    IN (IF deadBefore # {} THEN <<F(idx, "C15.iteration_yielded_entry_expired_before_it_began", <<r.sc.kind, {r.yields[y][1] : y \in deadBefore}>>)>> ELSE <<>>)
       \o (IF late # {} THEN <<F(idx, "C03.iterated_after_deadline", <<r.sc.kind, {<<r.yields[y][1], r.exp[r.yields[y][1] + 1], r.yields[y][3]>> : y \in late}>>)>> ELSE <<>>)
       \o (IF ghost # {} THEN <<F(idx, "C03.iterated_absent_key", <<r.sc.kind, {r.yields[y][1] : y \in ghost}>>)>> ELSE <<>>)
       \o (IF r.st0 # r.st1 THEN <<F(idx, "C20.iteration_moved_lookup_counters", <<r.sc.kind, r.st0, r.st1>>)>> ELSE <<>>)
       \o (IF dupl THEN <<F(idx, "C15.iteration_yielded_key_twice", <<r.sc.kind, keys>>)>> ELSE <<>>)
       \o (IF missed # {} THEN <<F(idx, "C15.iteration_missed_present_key", <<r.sc.kind, missed>>)>> ELSE <<>>)
       \o (IF missed2 # {} THEN <<F(idx, "C15.iteration_missed_rewritten_key", <<r.sc.kind, missed2, r.done>>)>> ELSE <<>>)
       \o (IF late2 \cup late3 # {} THEN <<F(idx, "C03.iterated_after_deadline", <<r.sc.kind, "rewritten", {<<r.yields[y][1], r.yields[y][2], r.yields[y][3]>> : y \in late2 \cup late3}, r.done>>)>> ELSE <<>>)
       \o (IF wrongv # {} THEN <<F(idx, "C01.iterated_value_never_held", <<r.sc.kind, {<<r.yields[y][1], r.yields[y][2]>> : y \in wrongv}>>)>> ELSE <<>>)

Init == i = 1 /\ dev = <<>>
Next == \/ /\ i <= Len(Recs)
           /\ dev' = dev \o (IF Recs[i].t = "iterbody" THEN CheckBody(Recs[i], i) ELSE Check(Recs[i], i))
           /\ i' = i + 1
        \/ /\ i = Len(Recs) + 1
           /\ JsonSerialize(IOEnv.VERIF_DEVOUT, [n |-> Len(Recs), devs |-> dev])
           /\ i' = i + 1
           /\ UNCHANGED dev
Spec == Init /\ [][Next]_vars
=============================================================================
