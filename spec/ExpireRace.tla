----------------------------- MODULE ExpireRace -----------------------------
(***************************************************************************)
(* One entry of an expiring cache, the expiration sweep of the maintenance *)
(* goroutine and lock-free readers that extend the entry's deadline        *)
(* (cache_impl.go: getNode / afterRead / setExpiresAfterRead on one side,  *)
(* expireNodes -> Variable.DeleteExpired -> evictNode -> deleteNodeFromMap *)
(* on the other; after the repair expireNodes -> ... -> expireNode).  One   *)
(* label per shared access; the labels of the sweeper are gates of the     *)
(* real code (s_ev = verifhook point "ev.beforeDelete"),                   *)
(* the reader is parked inside the user's expiry calculator (r_calc).      *)
(*                                                                         *)
(* A reader samples the clock, finds the entry alive, and only then stores *)
(* the extended deadline (CAS on the node, no bucket lock).  The sweeper   *)
(* samples the clock later, the timer wheel hands it every node whose      *)
(* deadline lies before that time, and the removal itself happens inside   *)
(* the key's table computation (bucket lock).  Between the wheel's test    *)
(* and the computation the reader's store can land: the entry is alive     *)
(* again ("revived").                                                      *)
(*                                                                         *)
(* Properties (C06 "a cause that matches what happened", C07's clause "a   *)
(* cache without a size bound never reports Overflow" for this             *)
(* interleaving, C05 "no entry is present but unknown to the expiration    *)
(* policy", C13 "provided reads only ever extend deadlines"):              *)
(*   Truthful    : a removal reported as Expiration happened when the      *)
(*                 deadline had passed (at the removal instant, under the  *)
(*                 bucket lock); a removal reported as Overflow happens    *)
(*                 only in a size-bounded cache under size pressure        *)
(*   Tracked     : at quiescence the entry is mapped iff it is in the      *)
(*                 wheel (and in the size policy, if there is one)         *)
(*   (ExtendOnly : "the deadline never moves backwards" is NOT a property  *)
(*                 of the code: with two readers TLC refutes it - a reader *)
(*                 holding the older clock sample stores last and shortens *)
(*                 the deadline by the difference of the two samples.  It  *)
(*                 is kept as a named formula, not checked; C13 takes      *)
(*                 "reads only ever extend deadlines" as a hypothesis.)    *)
(*   Swept       : at quiescence, if the last sweep ran after the deadline *)
(*                 the entry is gone (provided no read shortened it)       *)
(*                                                                         *)
(* A writer (Set / SetIfAbsent of the key) may take part as well: it        *)
(* decides inside its table computation whether the entry it meets is live *)
(* and replaces it; after the computation it publishes its event (which a  *)
(* later maintenance run applies: the replaced node leaves the wheel, the  *)
(* new one enters it).  Switch ReRead: TRUE = the code as found - after    *)
(* the computation the writer evaluates the replaced node's deadline       *)
(* again, and a reader's store can land in between:                        *)
(*   F20: SetIfAbsent takes its no-op branch after it has stored a node -  *)
(*        no event, Tracked is violated for the new node                   *)
(*   F22: the event carries Replacement although the atomic handler was    *)
(*        told Expiration - SameCause is violated                          *)
(* ReRead = FALSE: decided once, inside the computation (the repair).      *)
(*                                                                         *)
(* Switch Resurrect: FALSE = the code as found (evictNode derives the      *)
(* cause from a fresh read of the deadline and removes the node whatever   *)
(* it reads): Truthful is violated (F19).  TRUE = the repair: the wheel's  *)
(* callback removes with cause Expiration only if the deadline is still    *)
(* passed when tested under the bucket lock, otherwise the node stays      *)
(* mapped and is handed back to the wheel.                                 *)
(***************************************************************************)
EXTENDS Integers, Sequences, FiniteSets, TLC

CONSTANTS Readers,     \* reader process ids (integers > 0)
          NReads,      \* reads per reader
          TTL,         \* expire-after-access duration (clock units)
          MaxClock,    \* the clock runs 0 .. MaxClock
          NSweeps,     \* maintenance runs
          Sized,       \* TRUE: the cache also has a size bound (the eviction policy may pick the entry as victim)
          Resurrect,   \* FALSE: code as found (F19); TRUE: repaired
          Writers,     \* writer process ids (integers > 100), possibly empty
          WKind,       \* "set" | "setifabsent"
          ReRead       \* TRUE: code as found (F20, F22); FALSE: repaired

Sweeper == 0
Ticker == -1

(* --algorithm ExpireRace
variables clock = 0,
          exp = TTL,            \* the node's expiresAt (written at time 0)
          mapped = TRUE,        \* the node is the current node of its key
          dead = FALSE,         \* makeDead has run
          inWheel = TRUE,       \* linked in a bucket of the timer wheel
          inPolicy = Sized,     \* linked in a deque of the eviction policy
          events = <<>>,        \* removals: [cause, exp (deadline at the removal instant), at (the sweep's clock), path]
          hits = 0,
          lastSweep = 0,
          shortened = FALSE,
          \* the node a writer stores (at most one writer writes: the second finds a live entry or replaces the first one's - not modelled)
          mapped2 = FALSE, inWheel2 = FALSE,
          atomicCause = "none", asyncCause = "none",
          evPublished = FALSE, evApplied = FALSE;    \* history: some read stored an earlier deadline than the one it replaced (two clock samples used in the other order)

fair process Reader \in Readers
variables n = 1, now = 0, cur = 0;
begin
 R0: while n <= NReads do
 r_now:  now := clock;                                  \* c.clock.NowNano()
 r_get:  if ~mapped \/ exp <= now then                  \* getNode: hashmap.Get + HasExpired(now)
            n := n + 1; goto R0;                        \* miss
         else
            hits := hits + 1; goto r_calc;
         end if;
 r_calc: cur := exp;                                    \* setExpiresAfterRead: n.ExpiresAt() (after the calculator returned)
 r_cas:  if cur - now # TTL /\ exp = cur then           \* n.CASExpiresAt(cur, now + ttl)
            shortened := shortened \/ (now + TTL < exp);
            exp := now + TTL;
         end if;
         n := n + 1;
     end while;
end process;

fair process Writer \in Writers
variables wn = 0, pres = FALSE, pres2 = FALSE, wrote = FALSE;
begin
 w_now:   wn := clock;                                   \* set(): c.clock.NowNano()
 w_comp:  \* the key's table computation (bucket lock): set() decides and atomicSet replaces; the atomic handler is told the cause
          if mapped /\ ~mapped2 then
             pres := exp > wn;
             if ~(WKind = "setifabsent" /\ pres) then
                mapped := FALSE; mapped2 := TRUE; wrote := TRUE;
                atomicCause := IF pres THEN "Replacement" ELSE "Expiration";
             elsif exp - wn # TTL then
                \* SetIfAbsent that finds the key present is a read: the read hook of the expiry calculator runs inside the computation
                shortened := shortened \/ (wn + TTL < exp);
                exp := wn + TTL;
             end if;
          end if;
 w_after: \* after the computation (verifhook "set.afterCompute"): afterWrite publishes the event, or afterRead for a no-op
          pres2 := IF ReRead THEN (exp > wn) ELSE pres;
          if wrote then
             if WKind = "setifabsent" then
                if ~pres2 then evPublished := TRUE; asyncCause := "Expiration"; end if;   \* (else: the no-op branch, nothing published)
             else
                evPublished := TRUE; asyncCause := IF pres2 THEN "Replacement" ELSE "Expiration";
             end if;
          end if;
end process;

fair process Tick = Ticker
begin
 T0: while clock < MaxClock do
        clock := clock + 1;
     end while;
end process;

fair process Sweep = Sweeper
variables k = 1, T = 0, path = "none", c1 = "none", revived = FALSE, removed = FALSE;
begin
 S0: while k <= NSweeps do
 s_drain: if evPublished /\ ~evApplied then             \* drainWriteBuffer: the update event - the replaced node leaves the wheel, the new one enters
             inWheel := FALSE; inPolicy := FALSE; dead := TRUE; inWheel2 := TRUE; evApplied := TRUE;
          end if;
 s_now:   T := clock; path := "none"; revived := FALSE; removed := FALSE;   \* expireNodes: c.clock.NowNano()
 s_wheel: lastSweep := T;
          if inWheel /\ exp < T then                    \* deleteExpiredFromBucket: unlink, uint64(n.ExpiresAt()) < v.time
             inWheel := FALSE; path := "wheel";
          elsif Sized /\ inPolicy /\ ~dead then
             either path := "size";                     \* evictNodes: the policy is over its maximum and picks this entry
             or     skip;
             end either;
          end if;
          if path = "none" then goto s_end; end if;
 s_ev:    \* evictNode (verifhook "ev.beforeDelete"): cause := Overflow unless n.HasExpired(now)
          \* size path: the policy calls evictNode(n, 0), so the cause is Overflow whatever the deadline is.
          \* wheel path, as found: evictNode(n, T) reads the deadline again; repaired: expireNode names the cause itself.
          if path = "size" then c1 := "Overflow";
          elsif Resurrect then c1 := "Expiration";
          else c1 := IF exp <= T THEN "Expiration" ELSE "Overflow";
          end if;
 s_lock:  \* deleteNodeFromMap: inside the key's table computation (bucket lock); readers do not take that lock
          if mapped then
             if Resurrect /\ path = "wheel" /\ exp > T then
                revived := TRUE;                        \* the deadline was extended after the timer fired: keep the entry
             else
                mapped := FALSE; removed := TRUE;
                events := Append(events, [cause |-> IF path = "wheel" /\ exp <= T THEN "Expiration" ELSE c1, exp |-> exp, at |-> T, path |-> path]);
             end if;
          end if;
 s_pol:   if revived then
             inWheel := TRUE;                           \* expirationPolicy.Add(n): re-armed with the new deadline
          else
             inPolicy := FALSE; inWheel := FALSE; dead := TRUE;   \* evictionPolicy.delete, expirationPolicy.Delete, makeDead
          end if;
 s_end:   k := k + 1;
     end while;
end process;

\* "once the cache is quiescent and maintenance has run": a last run after everybody else has finished
fair process Final = -2
begin
 f_wait:  await \A p \in (Readers \cup Writers \cup {Sweeper, Ticker}) : pc[p] = "Done";
          if evPublished /\ ~evApplied then
             inWheel := FALSE; inPolicy := FALSE; dead := TRUE; inWheel2 := TRUE; evApplied := TRUE;
          end if;
 f_sweep: \* ... a full run: the first entry is swept if its deadline has passed (nobody races any more)
          lastSweep := clock;
          if mapped /\ inWheel /\ exp < clock then
             mapped := FALSE; inWheel := FALSE; inPolicy := FALSE; dead := TRUE;
             events := Append(events, [cause |-> "Expiration", exp |-> exp, at |-> clock, path |-> "wheel"]);
          end if;
end process;
end algorithm; *)
\* BEGIN TRANSLATION
VARIABLES pc, clock, exp, mapped, dead, inWheel, inPolicy, events, hits, 
          lastSweep, shortened, mapped2, inWheel2, atomicCause, asyncCause, 
          evPublished, evApplied, n, now, cur, wn, pres, pres2, wrote, k, T, 
          path, c1, revived, removed

vars == << pc, clock, exp, mapped, dead, inWheel, inPolicy, events, hits, 
           lastSweep, shortened, mapped2, inWheel2, atomicCause, asyncCause, 
           evPublished, evApplied, n, now, cur, wn, pres, pres2, wrote, k, T, 
           path, c1, revived, removed >>

ProcSet == (Readers) \cup (Writers) \cup {Ticker} \cup {Sweeper} \cup {-2}

Init == (* Global variables *)
        /\ clock = 0
        /\ exp = TTL
        /\ mapped = TRUE
        /\ dead = FALSE
        /\ inWheel = TRUE
        /\ inPolicy = Sized
        /\ events = <<>>
        /\ hits = 0
        /\ lastSweep = 0
        /\ shortened = FALSE
        /\ mapped2 = FALSE
        /\ inWheel2 = FALSE
        /\ atomicCause = "none"
        /\ asyncCause = "none"
        /\ evPublished = FALSE
        /\ evApplied = FALSE
        (* Process Reader *)
        /\ n = [self \in Readers |-> 1]
        /\ now = [self \in Readers |-> 0]
        /\ cur = [self \in Readers |-> 0]
        (* Process Writer *)
        /\ wn = [self \in Writers |-> 0]
        /\ pres = [self \in Writers |-> FALSE]
        /\ pres2 = [self \in Writers |-> FALSE]
        /\ wrote = [self \in Writers |-> FALSE]
        (* Process Sweep *)
        /\ k = 1
        /\ T = 0
        /\ path = "none"
        /\ c1 = "none"
        /\ revived = FALSE
        /\ removed = FALSE
        /\ pc = [self \in ProcSet |-> CASE self \in Readers -> "R0"
                                        [] self \in Writers -> "w_now"
                                        [] self = Ticker -> "T0"
                                        [] self = Sweeper -> "S0"
                                        [] self = -2 -> "f_wait"]

R0(self) == /\ pc[self] = "R0"
            /\ IF n[self] <= NReads
                  THEN /\ pc' = [pc EXCEPT ![self] = "r_now"]
                  ELSE /\ pc' = [pc EXCEPT ![self] = "Done"]
            /\ UNCHANGED << clock, exp, mapped, dead, inWheel, inPolicy, 
                            events, hits, lastSweep, shortened, mapped2, 
                            inWheel2, atomicCause, asyncCause, evPublished, 
                            evApplied, n, now, cur, wn, pres, pres2, wrote, k, 
                            T, path, c1, revived, removed >>

r_now(self) == /\ pc[self] = "r_now"
               /\ now' = [now EXCEPT ![self] = clock]
               /\ pc' = [pc EXCEPT ![self] = "r_get"]
               /\ UNCHANGED << clock, exp, mapped, dead, inWheel, inPolicy, 
                               events, hits, lastSweep, shortened, mapped2, 
                               inWheel2, atomicCause, asyncCause, evPublished, 
                               evApplied, n, cur, wn, pres, pres2, wrote, k, T, 
                               path, c1, revived, removed >>

r_get(self) == /\ pc[self] = "r_get"
               /\ IF ~mapped \/ exp <= now[self]
                     THEN /\ n' = [n EXCEPT ![self] = n[self] + 1]
                          /\ pc' = [pc EXCEPT ![self] = "R0"]
                          /\ hits' = hits
                     ELSE /\ hits' = hits + 1
                          /\ pc' = [pc EXCEPT ![self] = "r_calc"]
                          /\ n' = n
               /\ UNCHANGED << clock, exp, mapped, dead, inWheel, inPolicy, 
                               events, lastSweep, shortened, mapped2, inWheel2, 
                               atomicCause, asyncCause, evPublished, evApplied, 
                               now, cur, wn, pres, pres2, wrote, k, T, path, 
                               c1, revived, removed >>

r_calc(self) == /\ pc[self] = "r_calc"
                /\ cur' = [cur EXCEPT ![self] = exp]
                /\ pc' = [pc EXCEPT ![self] = "r_cas"]
                /\ UNCHANGED << clock, exp, mapped, dead, inWheel, inPolicy, 
                                events, hits, lastSweep, shortened, mapped2, 
                                inWheel2, atomicCause, asyncCause, evPublished, 
                                evApplied, n, now, wn, pres, pres2, wrote, k, 
                                T, path, c1, revived, removed >>

r_cas(self) == /\ pc[self] = "r_cas"
               /\ IF cur[self] - now[self] # TTL /\ exp = cur[self]
                     THEN /\ shortened' = (shortened \/ (now[self] + TTL < exp))
                          /\ exp' = now[self] + TTL
                     ELSE /\ TRUE
                          /\ UNCHANGED << exp, shortened >>
               /\ n' = [n EXCEPT ![self] = n[self] + 1]
               /\ pc' = [pc EXCEPT ![self] = "R0"]
               /\ UNCHANGED << clock, mapped, dead, inWheel, inPolicy, events, 
                               hits, lastSweep, mapped2, inWheel2, atomicCause, 
                               asyncCause, evPublished, evApplied, now, cur, 
                               wn, pres, pres2, wrote, k, T, path, c1, revived, 
                               removed >>

Reader(self) == R0(self) \/ r_now(self) \/ r_get(self) \/ r_calc(self)
                   \/ r_cas(self)

w_now(self) == /\ pc[self] = "w_now"
               /\ wn' = [wn EXCEPT ![self] = clock]
               /\ pc' = [pc EXCEPT ![self] = "w_comp"]
               /\ UNCHANGED << clock, exp, mapped, dead, inWheel, inPolicy, 
                               events, hits, lastSweep, shortened, mapped2, 
                               inWheel2, atomicCause, asyncCause, evPublished, 
                               evApplied, n, now, cur, pres, pres2, wrote, k, 
                               T, path, c1, revived, removed >>

w_comp(self) == /\ pc[self] = "w_comp"
                /\ IF mapped /\ ~mapped2
                      THEN /\ pres' = [pres EXCEPT ![self] = exp > wn[self]]
                           /\ IF ~(WKind = "setifabsent" /\ pres'[self])
                                 THEN /\ mapped' = FALSE
                                      /\ mapped2' = TRUE
                                      /\ wrote' = [wrote EXCEPT ![self] = TRUE]
                                      /\ atomicCause' = IF pres'[self] THEN "Replacement" ELSE "Expiration"
                                      /\ UNCHANGED << exp, shortened >>
                                 ELSE /\ IF exp - wn[self] # TTL
                                            THEN /\ shortened' = (shortened \/ (wn[self] + TTL < exp))
                                                 /\ exp' = wn[self] + TTL
                                            ELSE /\ TRUE
                                                 /\ UNCHANGED << exp, 
                                                                 shortened >>
                                      /\ UNCHANGED << mapped, mapped2, 
                                                      atomicCause, wrote >>
                      ELSE /\ TRUE
                           /\ UNCHANGED << exp, mapped, shortened, mapped2, 
                                           atomicCause, pres, wrote >>
                /\ pc' = [pc EXCEPT ![self] = "w_after"]
                /\ UNCHANGED << clock, dead, inWheel, inPolicy, events, hits, 
                                lastSweep, inWheel2, asyncCause, evPublished, 
                                evApplied, n, now, cur, wn, pres2, k, T, path, 
                                c1, revived, removed >>

w_after(self) == /\ pc[self] = "w_after"
                 /\ pres2' = [pres2 EXCEPT ![self] = IF ReRead THEN (exp > wn[self]) ELSE pres[self]]
                 /\ IF wrote[self]
                       THEN /\ IF WKind = "setifabsent"
                                  THEN /\ IF ~pres2'[self]
                                             THEN /\ evPublished' = TRUE
                                                  /\ asyncCause' = "Expiration"
                                             ELSE /\ TRUE
                                                  /\ UNCHANGED << asyncCause, 
                                                                  evPublished >>
                                  ELSE /\ evPublished' = TRUE
                                       /\ asyncCause' = IF pres2'[self] THEN "Replacement" ELSE "Expiration"
                       ELSE /\ TRUE
                            /\ UNCHANGED << asyncCause, evPublished >>
                 /\ pc' = [pc EXCEPT ![self] = "Done"]
                 /\ UNCHANGED << clock, exp, mapped, dead, inWheel, inPolicy, 
                                 events, hits, lastSweep, shortened, mapped2, 
                                 inWheel2, atomicCause, evApplied, n, now, cur, 
                                 wn, pres, wrote, k, T, path, c1, revived, 
                                 removed >>

Writer(self) == w_now(self) \/ w_comp(self) \/ w_after(self)

T0 == /\ pc[Ticker] = "T0"
      /\ IF clock < MaxClock
            THEN /\ clock' = clock + 1
                 /\ pc' = [pc EXCEPT ![Ticker] = "T0"]
            ELSE /\ pc' = [pc EXCEPT ![Ticker] = "Done"]
                 /\ clock' = clock
      /\ UNCHANGED << exp, mapped, dead, inWheel, inPolicy, events, hits, 
                      lastSweep, shortened, mapped2, inWheel2, atomicCause, 
                      asyncCause, evPublished, evApplied, n, now, cur, wn, 
                      pres, pres2, wrote, k, T, path, c1, revived, removed >>

Tick == T0

S0 == /\ pc[Sweeper] = "S0"
      /\ IF k <= NSweeps
            THEN /\ pc' = [pc EXCEPT ![Sweeper] = "s_drain"]
            ELSE /\ pc' = [pc EXCEPT ![Sweeper] = "Done"]
      /\ UNCHANGED << clock, exp, mapped, dead, inWheel, inPolicy, events, 
                      hits, lastSweep, shortened, mapped2, inWheel2, 
                      atomicCause, asyncCause, evPublished, evApplied, n, now, 
                      cur, wn, pres, pres2, wrote, k, T, path, c1, revived, 
                      removed >>

s_drain == /\ pc[Sweeper] = "s_drain"
           /\ IF evPublished /\ ~evApplied
                 THEN /\ inWheel' = FALSE
                      /\ inPolicy' = FALSE
                      /\ dead' = TRUE
                      /\ inWheel2' = TRUE
                      /\ evApplied' = TRUE
                 ELSE /\ TRUE
                      /\ UNCHANGED << dead, inWheel, inPolicy, inWheel2, 
                                      evApplied >>
           /\ pc' = [pc EXCEPT ![Sweeper] = "s_now"]
           /\ UNCHANGED << clock, exp, mapped, events, hits, lastSweep, 
                           shortened, mapped2, atomicCause, asyncCause, 
                           evPublished, n, now, cur, wn, pres, pres2, wrote, k, 
                           T, path, c1, revived, removed >>

s_now == /\ pc[Sweeper] = "s_now"
         /\ T' = clock
         /\ path' = "none"
         /\ revived' = FALSE
         /\ removed' = FALSE
         /\ pc' = [pc EXCEPT ![Sweeper] = "s_wheel"]
         /\ UNCHANGED << clock, exp, mapped, dead, inWheel, inPolicy, events, 
                         hits, lastSweep, shortened, mapped2, inWheel2, 
                         atomicCause, asyncCause, evPublished, evApplied, n, 
                         now, cur, wn, pres, pres2, wrote, k, c1 >>

s_wheel == /\ pc[Sweeper] = "s_wheel"
           /\ lastSweep' = T
           /\ IF inWheel /\ exp < T
                 THEN /\ inWheel' = FALSE
                      /\ path' = "wheel"
                 ELSE /\ IF Sized /\ inPolicy /\ ~dead
                            THEN /\ \/ /\ path' = "size"
                                    \/ /\ TRUE
                                       /\ path' = path
                            ELSE /\ TRUE
                                 /\ path' = path
                      /\ UNCHANGED inWheel
           /\ IF path' = "none"
                 THEN /\ pc' = [pc EXCEPT ![Sweeper] = "s_end"]
                 ELSE /\ pc' = [pc EXCEPT ![Sweeper] = "s_ev"]
           /\ UNCHANGED << clock, exp, mapped, dead, inPolicy, events, hits, 
                           shortened, mapped2, inWheel2, atomicCause, 
                           asyncCause, evPublished, evApplied, n, now, cur, wn, 
                           pres, pres2, wrote, k, T, c1, revived, removed >>

s_ev == /\ pc[Sweeper] = "s_ev"
        /\ IF path = "size"
              THEN /\ c1' = "Overflow"
              ELSE /\ IF Resurrect
                         THEN /\ c1' = "Expiration"
                         ELSE /\ c1' = (IF exp <= T THEN "Expiration" ELSE "Overflow")
        /\ pc' = [pc EXCEPT ![Sweeper] = "s_lock"]
        /\ UNCHANGED << clock, exp, mapped, dead, inWheel, inPolicy, events, 
                        hits, lastSweep, shortened, mapped2, inWheel2, 
                        atomicCause, asyncCause, evPublished, evApplied, n, 
                        now, cur, wn, pres, pres2, wrote, k, T, path, revived, 
                        removed >>

s_lock == /\ pc[Sweeper] = "s_lock"
          /\ IF mapped
                THEN /\ IF Resurrect /\ path = "wheel" /\ exp > T
                           THEN /\ revived' = TRUE
                                /\ UNCHANGED << mapped, events, removed >>
                           ELSE /\ mapped' = FALSE
                                /\ removed' = TRUE
                                /\ events' = Append(events, [cause |-> IF path = "wheel" /\ exp <= T THEN "Expiration" ELSE c1, exp |-> exp, at |-> T, path |-> path])
                                /\ UNCHANGED revived
                ELSE /\ TRUE
                     /\ UNCHANGED << mapped, events, revived, removed >>
          /\ pc' = [pc EXCEPT ![Sweeper] = "s_pol"]
          /\ UNCHANGED << clock, exp, dead, inWheel, inPolicy, hits, lastSweep, 
                          shortened, mapped2, inWheel2, atomicCause, 
                          asyncCause, evPublished, evApplied, n, now, cur, wn, 
                          pres, pres2, wrote, k, T, path, c1 >>

s_pol == /\ pc[Sweeper] = "s_pol"
         /\ IF revived
               THEN /\ inWheel' = TRUE
                    /\ UNCHANGED << dead, inPolicy >>
               ELSE /\ inPolicy' = FALSE
                    /\ inWheel' = FALSE
                    /\ dead' = TRUE
         /\ pc' = [pc EXCEPT ![Sweeper] = "s_end"]
         /\ UNCHANGED << clock, exp, mapped, events, hits, lastSweep, 
                         shortened, mapped2, inWheel2, atomicCause, asyncCause, 
                         evPublished, evApplied, n, now, cur, wn, pres, pres2, 
                         wrote, k, T, path, c1, revived, removed >>

s_end == /\ pc[Sweeper] = "s_end"
         /\ k' = k + 1
         /\ pc' = [pc EXCEPT ![Sweeper] = "S0"]
         /\ UNCHANGED << clock, exp, mapped, dead, inWheel, inPolicy, events, 
                         hits, lastSweep, shortened, mapped2, inWheel2, 
                         atomicCause, asyncCause, evPublished, evApplied, n, 
                         now, cur, wn, pres, pres2, wrote, T, path, c1, 
                         revived, removed >>

Sweep == S0 \/ s_drain \/ s_now \/ s_wheel \/ s_ev \/ s_lock \/ s_pol
            \/ s_end

f_wait == /\ pc[-2] = "f_wait"
          /\ \A p \in (Readers \cup Writers \cup {Sweeper, Ticker}) : pc[p] = "Done"
          /\ IF evPublished /\ ~evApplied
                THEN /\ inWheel' = FALSE
                     /\ inPolicy' = FALSE
                     /\ dead' = TRUE
                     /\ inWheel2' = TRUE
                     /\ evApplied' = TRUE
                ELSE /\ TRUE
                     /\ UNCHANGED << dead, inWheel, inPolicy, inWheel2, 
                                     evApplied >>
          /\ pc' = [pc EXCEPT ![-2] = "f_sweep"]
          /\ UNCHANGED << clock, exp, mapped, events, hits, lastSweep, 
                          shortened, mapped2, atomicCause, asyncCause, 
                          evPublished, n, now, cur, wn, pres, pres2, wrote, k, 
                          T, path, c1, revived, removed >>

f_sweep == /\ pc[-2] = "f_sweep"
           /\ lastSweep' = clock
           /\ IF mapped /\ inWheel /\ exp < clock
                 THEN /\ mapped' = FALSE
                      /\ inWheel' = FALSE
                      /\ inPolicy' = FALSE
                      /\ dead' = TRUE
                      /\ events' = Append(events, [cause |-> "Expiration", exp |-> exp, at |-> clock, path |-> "wheel"])
                 ELSE /\ TRUE
                      /\ UNCHANGED << mapped, dead, inWheel, inPolicy, events >>
           /\ pc' = [pc EXCEPT ![-2] = "Done"]
           /\ UNCHANGED << clock, exp, hits, shortened, mapped2, inWheel2, 
                           atomicCause, asyncCause, evPublished, evApplied, n, 
                           now, cur, wn, pres, pres2, wrote, k, T, path, c1, 
                           revived, removed >>

Final == f_wait \/ f_sweep

(* Allow infinite stuttering to prevent deadlock on termination. *)
Terminating == /\ \A self \in ProcSet: pc[self] = "Done"
               /\ UNCHANGED vars

Next == Tick \/ Sweep \/ Final
           \/ (\E self \in Readers: Reader(self))
           \/ (\E self \in Writers: Writer(self))
           \/ Terminating

Spec == /\ Init /\ [][Next]_vars
        /\ \A self \in Readers : WF_vars(Reader(self))
        /\ \A self \in Writers : WF_vars(Writer(self))
        /\ WF_vars(Tick)
        /\ WF_vars(Sweep)
        /\ WF_vars(Final)

Termination == <>(\A self \in ProcSet: pc[self] = "Done")

\* END TRANSLATION

Done == \A p \in ProcSet : pc[p] = "Done"

Truthful == \A i \in 1 .. Len(events) :
               /\ events[i].cause = "Expiration" => events[i].exp <= events[i].at
               /\ events[i].cause = "Overflow" => Sized /\ events[i].path = "size"
               /\ events[i].cause \in {"Expiration", "Overflow"}
Once == Len(events) <= 1
Tracked == Done => /\ mapped <=> inWheel
                   /\ Sized => (mapped <=> inPolicy)
                   /\ mapped <=> ~dead
                   /\ mapped2 <=> inWheel2           \* the node a writer stored is known to the wheel (F20)
\* both handlers are told the same cause for the replaced value (F22)
SameCause == asyncCause # "none" => asyncCause = atomicCause
ExtendOnly == [][exp' >= exp]_exp
\* the last maintenance run found the deadline passed by more than the wheel's strict test allows: the entry is gone
Swept == Done /\ mapped /\ ~shortened => ~(exp < lastSweep)
Terminates == <>Done
=============================================================================
