------------------------------ MODULE LoadHist ------------------------------
(***************************************************************************)
(* Judges histories recorded by harness/otter/verif_load_test.go from the  *)
(* real cache (gate-scheduled loads racing writes): the properties of      *)
(* LoadRace.tla restated over the LOGGED events, which carry one global    *)
(* sequence number.                                                        *)
(*   C08 NoOverlap, Returned, CleanTable, Afresh, NeverInvented            *)
(*   C09 NoStaleInstall, WriteWins                                         *)
(*   C11 (asynchronous executor): exactly one result per Refresh call, a    *)
(*       failed reload leaves the entry, a not-found reload removes it, a   *)
(*       successful one replaces it; no reader sees a value before its      *)
(*       loader returned                                                    *)
(***************************************************************************)
EXTENDS Integers, Sequences, FiniteSets, TLC, Json, IOUtils

Recs == ndJsonDeserialize(IOEnv.VERIF_TRACE)
VARIABLES i, dev
vars == <<i, dev>>

F(idx, name, detail) == [rec |-> idx, pred |-> name, detail |-> ToString(detail)]
Sel(q, P(_)) == SelectSeq(q, P)
SeqToSet(q) == {q[j] : j \in DOMAIN q}
IsWrite(op) == op \in {"set", "setifabsent", "invalidate", "compute", "computeinv", "evict", "invalidateAll"}

Check(r, idx) ==
    LET ev == SeqToSet(r.events)
        enters == {e \in ev : e.t = "ldenter"}
        exits  == {e \in ev : e.t = "ldexit"}
        calls  == {e \in ev : e.t = "call"}
        rets   == {e \in ev : e.t = "ret"}
        wcalls == {e \in ev : e.t = "wcall"}
        wrets  == {e \in ev : e.t = "wret"}
        aevs   == {e \in ev : e.t = "A"}
        installs == {e \in ev : e.t = "install"}
        exitOf(en) == {x \in exits : x.run = en.run /\ x.k = en.k}
        exitSeq(en) == IF exitOf(en) = {} THEN 1000000 ELSE (CHOOSE x \in exitOf(en) : TRUE).seq
        callSeq(g) == IF {c \in calls : c.g = g} = {} THEN 0 ELSE (CHOOSE c \in calls : c.g = g).seq
        \* a removal of key k became visible in (lo, hi): an atomic deletion event, or an explicit write call overlapping it
        touched(k, lo, hi) == \/ \E a \in aevs : a.k = k /\ a.seq > lo /\ a.seq < hi
                              \/ \E w \in wcalls : /\ IsWrite(w.op)      \* (a computation that cancelled itself, a clock advance are not writes)
                                                    /\ w.seq < hi /\ (\A x \in wrets : x.g = w.g => x.seq > lo)
                                                    \* a SetIfAbsent that found the key present wrote nothing
                                                    /\ ~\E x \in wrets : x.g = w.g /\ x.op = "setifabsent-noop"
        \* C08 NoOverlap: two loader runs for one key overlap only if the key was written/invalidated/evicted in between
        overlaps == {<<a, b>> \in enters \X enters :
                        /\ a.k = b.k /\ a.run # b.run /\ a.seq < b.seq /\ b.seq < exitSeq(a)
                        /\ ~touched(a.k, callSeq(a.g), b.seq)}
        \* C08 Returned: every call returned (a scripted panic surfaces as a "ret" with err = panic)
        pendingCalls == {c \in calls : ~\E x \in rets : x.g = c.g}
        \* values that may legitimately be returned or cached for key k
        loadedVals(k) == {x.v : x \in {y \in exits : y.k = k /\ y.err \in {"", "err"}}}
        \* (a value a bulk loader volunteered for a key it was not asked for may be cached and then served like any cached value)
        writtenVals(k) == {w.v : w \in {y \in wcalls : y.k = k}} \cup {50, 7777} \cup {x.v : x \in {y \in exits : y.k = k /\ y.err = "vol"}}
        invented == {x \in rets : (x.err = "" \/ (x.err = "err" /\ x.op = "Get")) /\ x.op \in {"Get", "BulkGet"}
                                   /\ x.v \notin loadedVals(x.k) \cup writtenVals(x.k)}
        \* a BulkGet may leave a requested key out (without an error) only if a loader run that had finished by then reported it not found
        bulkMissing == {x \in rets : x.op = "BulkGet" /\ x.err = "absent"
                                     /\ ~\E y \in exits : y.k = x.k /\ y.err = "nf" /\ y.seq < x.seq}
        \* a failed load is not cached and leaves no record behind: a Get CALLED after another Get had returned that failure must load
        \* afresh (or join a later flight) - it cannot come back with the value of the same loader run (values are unique per run)
        staleFail == {y \in rets : /\ y.op = "Get" /\ y.err = "err"
                                    /\ \E x \in rets : x.op = "Get" /\ x.err = "err" /\ x.g # y.g /\ x.v = y.v /\ x.seq < callSeq(y.g)}
        \* BulkGet does not fail because a key is not found (neither in its own load nor in a flight it joined): the key is left out
        bulkNf == {x \in rets : x.op = "BulkGet" /\ x.err = "nf"}
        joinBad == {x \in rets : x.op = "Get" /\ x.err = "nf" /\ ~\E y \in exits : y.k = x.k /\ y.err = "nf"}
        \* C09: the final value of key 1
        fin(k) == {f.v : f \in {y \in SeqToSet(r.final) : y.k = k}}
        \* loader run whose value is the final value, with its install instant (first install by its goroutine after its exit)
        finRuns(k) == {x \in exits : x.k = k /\ x.err = "" /\ x.v \in fin(k)}
        installSeq(x) == LET c == {n \in installs : n.g = x.g /\ n.seq > x.seq}
                         IN IF c = {} THEN 1000000 ELSE (CHOOSE n \in c : \A m \in c : n.seq <= m.seq).seq
        enterSeq(x) == (CHOOSE en \in enters : en.run = x.run /\ en.k = x.k).seq
        \* an explicit write whose whole call lies between the load's start and its installation
        \* (an InvalidateAll counts when it really removed the key: an Invalidation event of the key inside the call)
        stale == {x \in finRuns(1) : \E w \in wcalls : /\ w.k = 1 /\ w.seq > enterSeq(x)
                                                       /\ \E y \in wrets : /\ y.g = w.g /\ y.seq < installSeq(x)
                                                                             /\ \/ w.op \in {"set", "compute", "invalidate", "computeinv"}
                                                                                \/ /\ w.op = "invalidateAll"
                                                                                   /\ \E a \in aevs : a.k = 1 /\ a.err = "Invalidation" /\ a.seq > w.seq /\ a.seq < y.seq}
        \* a plain cache (no bound, no expiry, no handlers: sc.bare = 1): no event tells that an InvalidateAll removed the key, but with the key
        \* preloaded and no other kind of writer it was present when the call started; a load that had started before the call and is
        \* installed after the call returned must not leave its value behind
        \* (exactly ONE such call: after a first InvalidateAll the key is absent, a load started from that miss is not the business of a second
        \* one - it removes nothing and cancels nothing; 4 of 20 000 scenarios of the thorough tier raised this false alarm, see DESIGN.md 12.4)
        onlyAll == (\A w \in wcalls : w.op = "invalidateAll") /\ Cardinality(wcalls) = 1
        staleAll == {x \in finRuns(1) : /\ r.sc.bare = 1 /\ r.sc.preload = 1 /\ onlyAll /\ r.sc.inloader = <<>>
                                         /\ \E w \in wcalls : /\ w.seq > enterSeq(x)
                                                               /\ \E y \in wrets : y.g = w.g /\ y.seq < installSeq(x)
                                         \* (no other loader run that could have re-created the entry before this one was installed)
                                         /\ \A z \in exits : z.k = 1 => z.run = x.run \/ enterSeq(z) > installSeq(x)}
        wretSeq(w) == LET c == {y \in wrets : y.g = w.g /\ y.seq > w.seq} IN IF c = {} THEN 1000000 ELSE (CHOOSE y \in c : \A z \in c : y.seq <= z.seq).seq
        \* a write made while a load was in flight must survive that load's NOT-FOUND answer as well
        nfRuns == {x \in exits : x.k = 1 /\ x.err = "nf"}
        lostToNf == {w \in wcalls :
                        /\ w.k = 1
                        /\ w.op \in {"set", "compute"}
                        /\ (\E x \in nfRuns : enterSeq(x) < w.seq /\ wretSeq(w) < installSeq(x))
                        \* nothing else can explain a different final value: every other write had returned before this one was
                        \* called, no other loader run started after it, no automatic removal followed
                        /\ (\A w2 \in wcalls : (w2 # w /\ IsWrite(w2.op)) => wretSeq(w2) < w.seq)
                        /\ (~\E en \in enters : en.k = 1 /\ en.seq > w.seq)
                        /\ (~\E a \in aevs : a.k = 1 /\ a.seq > wretSeq(w) /\ a.err \in {"Overflow", "Expiration"})
                        /\ fin(1) # {w.v}}
        \* F17: an explicit invalidation whose removal was published (its atomic handler returned, record "hret") after the
        \* load had started, and the loaded value is in the cache nevertheless
        hrets == {e \in ev : e.t = "hret" /\ e.k = 1 /\ e.err = "Invalidation"}
        across == {x \in finRuns(1) : \E h \in hrets : enterSeq(x) < h.seq /\ h.seq < installSeq(x)}
        \* the last explicit set/compute that returned after every load was installed must be what the cache holds
        lastW == {w \in wcalls : /\ w.op \in {"set", "compute"}
                                  /\ \A o \in ev : \/ o.seq <= w.seq
                                                    \/ (o.seq <= wretSeq(w) /\ o.g = w.g)     \* its own events during the call
                                                    \/ (o.seq > wretSeq(w) /\ o.t = "ret")}   \* afterwards only returns
        \* C11: scenarios without writers and without automatic removals, entry preloaded with 50
        runs1 == {x \in exits : x.k = 1}
        quiet == wcalls = {} /\ r.sc.preload = 1 /\ r.sc.refresh = 1 /\ runs1 # {} /\ r.diag = "" /\ pendingCalls = {}
        timeouts == {x \in rets : x.err = "timeout"}
        refBad == {x \in rets : x.op = "Refresh" /\ x.err = "" /\ x.v \notin loadedVals(1)}
        future == {x \in rets : x.op \in {"Get", "BulkGet"} /\ x.err = "" /\ \E y \in exits : y.k = x.k /\ y.v = x.v /\ y.err = "" /\ y.seq > x.seq}
        \* C10 / C11: what the caller finds in the cache right after its call returned successfully ("post" records).  Judged
        \* only where nothing can have taken the value away again: no writer of any kind, nothing written by the loader
        \* itself, no expiry, no loader run that answered not-found.
        posts == {e \in ev : e.t = "post"}
        removedBefore(e) == \E a \in aevs : a.seq < e.seq /\ a.err # "Replacement"
        \* (a computation that cancelled itself and a SetIfAbsent that found the key present are not writes)
        undisturbed == (~\E w \in wcalls : IsWrite(w.op) /\ ~\E x \in wrets : x.g = w.g /\ x.op = "setifabsent-noop") /\ r.sc.expiry = 0 /\ r.sc.inloader = <<>> /\ ~\E x \in exits : x.err \in {"nf", "nfw"}
        \* a Get that returned a value and does not find the key afterwards
        notCached == {e \in posts : e.op = "Get" /\ e.err = "miss" /\ ~removedBefore(e)}
        \* F24: the key held an EXPIRED, not yet removed entry when the race started (sc.dead = 1) and the only other activity is maintenance
        \* ("sweep" = CleanUp, "computecancel" = a computation that cancels itself and thereby removes the dead node it found: not writes).  Removing the dead node changes nothing a caller can see, so the load that was started because the
        \* entry had expired is not disturbed: the value it returned is in the cache, unless a LOADED value (>= 1000) was reported removed.
        deadQuiet == r.sc.dead = 1 /\ (\A w \in wcalls : w.op \in {"sweep", "computecancel"}) /\ r.sc.inloader = <<>> /\ ~\E x \in exits : x.err \in {"nf", "nfw"}
        droppedBySweep == {e \in posts : e.op = "Get" /\ e.err = "miss" /\ ~\E a \in aevs : a.seq < e.seq /\ a.v >= 1000}
        \* C11 "swaps atomically or not at all" (C09): Reload(key, old) produces the successor of the value it was HANDED.  If the key was
        \* rewritten after that value was read - also before the executor got round to the task, when no in-flight record exists yet that the
        \* write could clear - the result is not stored: the value a reload's installation replaces (the Replacement event raised inside its
        \* install computation) is the value the reload was handed (seeded C11k / C02k / C09i)
        reloadofs == {e \in ev : e.t = "reloadof"}
        handed(x) == LET c == {e \in reloadofs : e.g = x.g /\ e.k = x.k /\ e.seq < x.seq}
                     IN IF c = {} THEN -1 ELSE (CHOOSE e \in c : \A m \in c : e.seq >= m.seq).v
        swappedOther == {x \in exits : /\ x.op = "Reload" /\ x.err = "" /\ handed(x) # -1
                                        /\ \E a \in aevs : /\ a.k = x.k /\ a.g = x.g /\ a.err = "Replacement"
                                                            /\ a.seq > x.seq /\ a.seq < installSeq(x) /\ a.v # handed(x)}
        \* a Refresh whose successful result has been delivered while the cache still serves the replaced value (or nothing)
        notSwapped == {e \in posts : e.op = "Refresh" /\ ~removedBefore(e) /\ (e.err = "miss" \/ (r.sc.preload = 1 /\ e.v = 50))}
        \* C11 "reads of fresh entries trigger nothing": with the clock frozen after the preloaded entry became due, a value that a
        \* reload has just produced is fresh for an hour - no reload may start from it ("reloadof" = the value a Reload was handed)
        fromFresh == {e \in ev : e.t = "reloadof" /\ e.v \in loadedVals(e.k)}
        \* ... and where nothing is due at all (refresh an hour after the write, the clock frozen, no explicit Refresh / BulkRefresh caller) no
        \* reload starts, whatever the writers do: a read that meets a node which a concurrent write has just retired has not met a stale entry
        noRefreshDue == r.sc.refresh = 1 /\ r.sc.stale = 0 /\ r.sc.refreshers = 0 /\ r.sc.bulkref = 0 /\ r.sc.expiry = 0 /\ r.sc.dead = 0
                        /\ r.sc.inloader = <<>> /\ ~\E w \in wcalls : w.op = "advance"
        anyReload == {e \in ev : e.t = "reloadof"}
    IN
    (IF noRefreshDue /\ anyReload # {} THEN <<F(idx, "C11.reload_started_although_nothing_is_due", anyReload)>> ELSE <<>>)
    \o (IF r.sc.stale = 1 /\ undisturbed /\ fromFresh # {} THEN <<F(idx, "C11.reload_triggered_by_fresh_entry", fromFresh)>> ELSE <<>>)
    \o (IF undisturbed /\ notCached # {} THEN <<F(idx, "C10.returned_value_not_cached", notCached)>> ELSE <<>>)
    \o (IF deadQuiet /\ droppedBySweep # {} THEN <<F(idx, "C10.load_dropped_by_sweep_of_expired_entry", droppedBySweep)>> ELSE <<>>)
    \o (IF swappedOther # {} THEN <<F(idx, "C11.reload_replaced_a_value_it_was_not_handed", <<swappedOther, r.final>>)>>
                              \o <<F(idx, "C09.reload_replaced_a_value_it_was_not_handed", <<swappedOther, r.final>>)>> ELSE <<>>)
    \o (IF undisturbed /\ notSwapped # {} THEN <<F(idx, "C11.result_delivered_before_swap", notSwapped)>> ELSE <<>>)
    \* C20: load successes plus failures equals the number of loader invocations (at quiescence, nothing hung, no scripted panic:
    \* a panicking reload on the executor is recovered by the harness's executor, not by the cache)
    \o (IF r.diag = "" /\ r.hung = 0 /\ pendingCalls = {} /\ r.inflight = 0 /\ (~\E x \in exits : x.err = "panic") /\ Cardinality(enters) > 0
           /\ Cardinality({x.run : x \in enters}) = Cardinality({x.run : x \in exits}) /\ r.loadsrecorded # r.loaderruns
        THEN <<F(idx, "C20.loads_recorded_differ_from_loader_runs", <<r.loadsrecorded, r.loaderruns>>)>> ELSE <<>>)
    \* C10: the loader is invoked only for the missing keys - never with nothing to load (a BulkGet whose misses are all in flight elsewhere waits)
    \o (IF r.emptybulk > 0 THEN <<F(idx, "C10.loader_invoked_without_keys", r.emptybulk)>> ELSE <<>>)
    \o (IF r.diag # "" /\ pendingCalls # {} THEN <<F(idx, "C08.hang", <<r.diag, {c.g : c \in pendingCalls}>>)>> ELSE <<>>)
    \o (IF r.hung = 1 THEN <<F(idx, "C08.later_get_hangs", r.inflight)>> ELSE <<>>)
    \o (IF \E x \in rets : x.err = "timeout" THEN <<F(idx, "C08.refresh_result_missing", {x \in rets : x.err = "timeout"})>> ELSE <<>>)
    \o (IF timeouts # {} THEN <<F(idx, "C11.refresh_result_missing", timeouts)>> ELSE <<>>)
    \o (IF refBad # {} THEN <<F(idx, "C11.refresh_result_not_loaded", refBad)>> ELSE <<>>)
    \o (IF future # {} THEN <<F(idx, "C11.read_before_loader_returned", future)>> ELSE <<>>)
    \o (IF quiet /\ (\A x \in runs1 : x.err = "err") /\ aevs = {} /\ fin(1) # {50} THEN <<F(idx, "C11.failed_reload_changed_entry", r.final)>> ELSE <<>>)
    \o (IF quiet /\ (\A x \in runs1 : x.err = "nf") /\ fin(1) # {} THEN <<F(idx, "C11.notfound_reload_kept_entry", r.final)>> ELSE <<>>)
    \o (IF quiet /\ (\A x \in runs1 : x.err = "") /\ fin(1) \cap {x.v : x \in runs1} = {} THEN <<F(idx, "C11.successful_reload_not_installed", r.final)>> ELSE <<>>)
    \o (IF overlaps # {} THEN <<F(idx, "C08.overlap", {<<p[1].run, p[2].run, p[1].k>> : p \in overlaps})>> ELSE <<>>)
    \o (IF r.inflight # 0 THEN <<F(idx, "C08.inflight_left", r.inflight)>> ELSE <<>>)
    \o (IF r.inflight = 0 /\ r.hung = 0 /\ r.afresh # 1 THEN <<F(idx, "C08.not_afresh", r.afresh)>> ELSE <<>>)
    \o (IF invented # {} THEN <<F(idx, "C08.invented_result", invented)>> ELSE <<>>)
    \o (IF bulkMissing # {} THEN <<F(idx, "C08.bulk_result_missing", bulkMissing)>> ELSE <<>>)
    \o (IF staleFail # {} THEN <<F(idx, "C08.finished_failure_served_again", staleFail)>> ELSE <<>>)
    \o (IF bulkNf # {} THEN <<F(idx, "C10.bulkget_fails_with_notfound", bulkNf)>> ELSE <<>>)
    \o (IF joinBad # {} THEN <<F(idx, "C08.notfound_without_loader", joinBad)>> ELSE <<>>)
    \o (IF across # {} THEN <<F(idx, "C09.install_across_invalidation", <<across, r.final>>)>> ELSE <<>>)
    \o (IF lostToNf # {} THEN <<F(idx, "C09.write_removed_by_notfound_load", <<lostToNf, r.final>>)>> ELSE <<>>)
    \o (IF staleAll # {} THEN <<F(idx, "C09.stale_install_after_invalidateAll", <<staleAll, r.final>>)>> ELSE <<>>)
    \o (IF stale # {} THEN <<F(idx, "C09.stale_install", <<stale, r.final>>)>> ELSE <<>>)
    \o (IF \E w \in lastW : w.k = 1 /\ fin(1) # {w.v} THEN <<F(idx, "C09.write_lost", <<lastW, r.final>>)>> ELSE <<>>)
    \o (IF fin(1) \ (loadedVals(1) \cup writtenVals(1)) # {} THEN <<F(idx, "C09.invented_final", r.final)>> ELSE <<>>)

Init == i = 1 /\ dev = <<>>
Next == \/ /\ i <= Len(Recs)
           /\ dev' = dev \o Check(Recs[i], i)
           /\ i' = i + 1
        \/ /\ i = Len(Recs) + 1
           /\ JsonSerialize(IOEnv.VERIF_DEVOUT, [n |-> Len(Recs), devs |-> dev])
           /\ i' = i + 1
           /\ UNCHANGED dev
Spec == Init /\ [][Next]_vars
=============================================================================
