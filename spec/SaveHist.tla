------------------------------- MODULE SaveHist -------------------------------
(***************************************************************************)
(* C19 while maintenance is pending (harness/otter/verif_persist_test.go):  *)
(* the source cache is saved although drain tasks handed to the executor    *)
(* have not run yet.  Every write had returned, the saved contents fit the  *)
(* target and the clock does not move: the target must hold exactly the     *)
(* live entries of the source - same keys, values and deadlines.            *)
(***************************************************************************)
EXTENDS Integers, Sequences, FiniteSets, TLC, Json, IOUtils
Recs == ndJsonDeserialize(IOEnv.VERIF_TRACE)
VARIABLES i, dev
vars == <<i, dev>>
F(idx, name, detail) == [rec |-> idx, pred |-> name, detail |-> ToString(detail)]
SeqToSet(q) == {q[j] : j \in DOMAIN q}
Check(r, idx) ==
    LET S == SeqToSet(r.src)
        T == SeqToSet(r.tgt)
    IN (IF r.err # "" THEN <<F(idx, "C19.save_or_load_failed", r.err)>> ELSE <<>>)
       \o (IF r.err = "" /\ S \ T # {} THEN <<F(idx, "C19.live_entry_not_reproduced", <<r.sc, r.parked, S \ T>>)>> ELSE <<>>)
       \o (IF r.err = "" /\ T \ S # {} THEN <<F(idx, "C19.loaded_entry_not_in_source", <<r.sc, r.parked, T \ S>>)>> ELSE <<>>)
Init == i = 1 /\ dev = <<>>
Next == \/ /\ i <= Len(Recs)
           /\ dev' = dev \o Check(Recs[i], i)
           /\ i' = i + 1
        \/ /\ i = Len(Recs) + 1
           /\ JsonSerialize(IOEnv.VERIF_DEVOUT, [n |-> Len(Recs), devs |-> dev])
           /\ i' = i + 1
           /\ UNCHANGED dev
Spec == Init /\ [][Next]_vars
=============================================================================
