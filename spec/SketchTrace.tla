---------------------------- MODULE SketchTrace ----------------------------
(***************************************************************************)
(* Trace validation of the real frequency sketch against the abstract      *)
(* side of Sketch.tla: lb[k] counts the recordings of k in the current     *)
(* period (capped at 15, halved by an aging step, cleared when             *)
(* ensureCapacity re-allocates the table).  After every logged call:       *)
(* estimate >= lb (never under-counts), <= 15, all zero before             *)
(* initialisation, halved by an aging step; admit = Sketch!Admit.          *)
(* The sampling period itself is part of the model: the sample counter     *)
(* (logged) restarts when the table is re-allocated, advances by at most   *)
(* one per recording and not at all for a key whose estimate is already    *)
(* 15 (none of its counters can change), and the aging step fires exactly  *)
(* when it reaches the sample size (10 x capacity) - otherwise estimates   *)
(* are halved before the period the property speaks about is over.         *)
(***************************************************************************)
EXTENDS Integers, Sequences, FiniteSets, TLC, Json, IOUtils
Recs == ndJsonDeserialize(IOEnv.VERIF_TRACE)
NK == 12
VARIABLES i, lb, prev, psize, dev
vars == <<i, lb, prev, psize, dev>>
F(idx, name, detail) == [rec |-> idx, pred |-> name, detail |-> ToString(detail)]
Min2(a, b) == IF a < b THEN a ELSE b
Admit(fc, fv, r) == fc > fv \/ (fc >= 6 /\ r % 128 = 0)
Zero == [k \in 0 .. (NK - 1) |-> 0]

NewLb(r) ==
    CASE r.tp = "reset" -> Zero
      [] r.tp = "ensure" -> IF r.grew = 1 THEN Zero ELSE lb
      [] r.tp = "inc" -> IF r.inited = 0 THEN lb
                         ELSE LET l1 == [lb EXCEPT ![r.k] = Min2(@ + 1, 15)]
                              IN IF r.aged = 1 THEN [k \in DOMAIN l1 |-> l1[k] \div 2] ELSE l1
      [] OTHER -> lb

Devs(r, idx) ==
    LET l2 == NewLb(r)
        est(k) == r.est[k + 1]
        K == 0 .. (NK - 1)
    IN (IF \E k \in K : est(k) < l2[k] THEN <<F(idx, "C18.under_count", [k \in {x \in K : est(x) < l2[x]} |-> <<est(k), l2[k]>>])>> ELSE <<>>)
       \o (IF \E k \in K : est(k) > 15 \/ est(k) < 0 THEN <<F(idx, "C18.range", r.est)>> ELSE <<>>)
       \o (IF r.inited = 0 /\ \E k \in K : est(k) # 0 THEN <<F(idx, "C18.nonzero_before_init", r.est)>> ELSE <<>>)
       \o (IF r.tp = "ensure" /\ r.grew = 1 /\ \E k \in K : est(k) # 0 THEN <<F(idx, "C18.nonzero_after_realloc", r.est)>> ELSE <<>>)
       \o (IF r.tp = "ensure" /\ r.grew = 0 /\ r.est # prev THEN <<F(idx, "C18.ensure_changed_estimates", <<prev, r.est>>)>> ELSE <<>>)
       \o (IF r.tp = "inc" /\ r.aged = 1 /\ \E k \in K : est(k) \notin {prev[k + 1] \div 2, (prev[k + 1] + 1) \div 2}
           THEN <<F(idx, "C18.aging_not_halving", <<prev, r.est>>)>> ELSE <<>>)
       \o (IF r.tp = "inc" /\ r.aged = 0 /\ r.inited = 1 /\ \E k \in K : est(k) < prev[k + 1]
           THEN <<F(idx, "C18.estimate_decreased", <<prev, r.est>>)>> ELSE <<>>)
       \o (IF r.tp = "inc" /\ r.aged = 0 /\ r.inited = 1 /\ est(r.k) = prev[r.k + 1] /\ prev[r.k + 1] < 15
           THEN <<F(idx, "C18.increment_lost", <<r.k, prev, r.est>>)>> ELSE <<>>)
       \o (IF r.tp = "ensure" /\ r.grew = 1 /\ r.size # 0 THEN <<F(idx, "C18.sample_not_restarted", <<r.size, r.sample>>)>> ELSE <<>>)
       \o (IF r.tp = "inc" /\ r.inited = 1 /\ r.aged = 0 /\ (r.size \notin {psize, psize + 1} \/ r.size >= r.sample)
           THEN <<F(idx, "C18.sample_counter", <<psize, r.size, r.sample>>)>> ELSE <<>>)
       \o (IF r.tp = "inc" /\ r.inited = 1 /\ r.aged = 0 /\ prev[r.k + 1] = 15 /\ r.size # psize
           THEN <<F(idx, "C18.saturated_recording_counted", <<r.k, psize, r.size>>)>> ELSE <<>>)
       \o (IF r.tp = "inc" /\ r.aged = 1 /\ psize + 1 # r.sample THEN <<F(idx, "C18.aged_before_sample_size", <<psize, r.sample>>)>> ELSE <<>>)
       \o (IF r.tp = "admit" /\ (r.admit = 1) # Admit(r.fc, r.fv, r.r) THEN <<F(idx, "C18.admit", <<r.fc, r.fv, r.r, r.admit>>)>> ELSE <<>>)
       \o (IF r.tp = "admit" /\ r.est # prev THEN <<F(idx, "C18.admit_changed_estimates", <<prev, r.est>>)>> ELSE <<>>)

Init == i = 1 /\ lb = Zero /\ prev = [k \in 1 .. NK |-> 0] /\ psize = 0 /\ dev = <<>>
Next == \/ /\ i <= Len(Recs)
           /\ lb' = NewLb(Recs[i])
           /\ prev' = Recs[i].est
           /\ psize' = Recs[i].size
           /\ dev' = dev \o (IF Recs[i].tp = "reset" THEN <<>> ELSE Devs(Recs[i], i))
           /\ i' = i + 1
        \/ /\ i = Len(Recs) + 1
           /\ JsonSerialize(IOEnv.VERIF_DEVOUT, [n |-> Len(Recs), devs |-> dev])
           /\ i' = i + 1
           /\ UNCHANGED <<lb, prev, psize, dev>>
Spec == Init /\ [][Next]_vars
=============================================================================
