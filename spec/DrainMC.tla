------------------------------ MODULE DrainMC ------------------------------
(* Bounded instances of Drain.tla.  Writers are 1.., tasks 101.., holders 201.. (integers, so that the   *)
(* lowest free task id is a canonical choice).                                                            *)
EXTENDS Drain
HK_none == [h \in {} |-> "reader"]
HK_ia   == (201 :> "invalidateAll")
HK_eo   == (201 :> "order")
HK_gm   == (201 :> "getmax")
HK_cu   == (201 :> "cleanup")
HK_rd   == (201 :> "reader")
HK_mix  == (201 :> "invalidateAll") @@ (202 :> "order")
=============================================================================
