------------------------------- MODULE Sketch -------------------------------
(***************************************************************************)
(* The 4-bit count-min frequency sketch of sketch.go and the admission     *)
(* rule of policy.admit.                                                   *)
(*                                                                         *)
(* Concrete: 4 rows of saturating 4-bit counters; key k uses counter       *)
(* H[k][row] in each row (H is an arbitrary hash assignment, chosen        *)
(* nondeterministically in Init: the property must hold for all of them);  *)
(* an increment bumps the four counters (each unless saturated), the       *)
(* estimate is their minimum; after SampleSize effective increments every  *)
(* counter is halved.                                                      *)
(* Abstract: lb[k], the number of times k was recorded in the current      *)
(* period, capped at 15 and halved by an aging step.                       *)
(*                                                                         *)
(* C18: NeverUnder (Estimate(k) >= lb[k]), AtMost15, HalvedExactly,        *)
(*      ZeroBeforeInit; Admit(fc, fv, r).                                  *)
(***************************************************************************)
EXTENDS Integers, Sequences, FiniteSets, TLC

CONSTANTS Keys, Slots, SampleSize, MaxOps

Rows == 1 .. 4
VARIABLES H, cnt, size, lb, inited, nops, lastReset, prevEst
vars == <<H, cnt, size, lb, inited, nops, lastReset, prevEst>>

Min2(a, b) == IF a < b THEN a ELSE b
MinSet(S) == CHOOSE x \in S : \A y \in S : x <= y
Estimate(k) == IF ~inited THEN 0 ELSE MinSet({cnt[r][H[k][r]] : r \in Rows})
Est == [k \in Keys |-> Estimate(k)]

Init == /\ H \in [Keys -> [Rows -> Slots]]
        /\ cnt = [r \in Rows |-> [s \in Slots |-> 0]]
        /\ size = 0 /\ lb = [k \in Keys |-> 0] /\ inited = FALSE /\ nops = 0 /\ lastReset = FALSE
        /\ prevEst = [k \in Keys |-> 0]

EnsureCapacity == /\ ~inited /\ inited' = TRUE
                  /\ UNCHANGED <<H, cnt, size, lb, nops, prevEst>> /\ lastReset' = FALSE

Increment(k) ==
    /\ nops < MaxOps /\ nops' = nops + 1
    /\ IF ~inited THEN UNCHANGED <<cnt, size, lb, prevEst>> /\ lastReset' = FALSE
       ELSE LET bumped == [r \in Rows |-> [s \in Slots |-> IF s = H[k][r] /\ cnt[r][s] < 15 THEN cnt[r][s] + 1 ELSE cnt[r][s]]]
                added == \E r \in Rows : cnt[r][H[k][r]] < 15
                size1 == IF added THEN size + 1 ELSE size
                reset == added /\ size1 = SampleSize
                lb1 == [lb EXCEPT ![k] = Min2(@ + 1, 15)]
                estMid == [q \in Keys |-> MinSet({bumped[r][H[q][r]] : r \in Rows})]
            IN /\ cnt' = IF reset THEN [r \in Rows |-> [s \in Slots |-> bumped[r][s] \div 2]] ELSE bumped
               /\ size' = IF reset THEN size1 \div 2 ELSE size1
               /\ lb' = IF reset THEN [q \in Keys |-> lb1[q] \div 2] ELSE lb1
               /\ lastReset' = reset
               /\ prevEst' = estMid
    /\ UNCHANGED <<H, inited>>

Next == EnsureCapacity \/ \E k \in Keys : Increment(k)
Spec == Init /\ [][Next]_vars

NeverUnder == \A k \in Keys : inited => Estimate(k) >= lb[k]
AtMost15 == \A k \in Keys : Estimate(k) \in 0 .. 15
ZeroBeforeInit == ~inited => \A k \in Keys : Estimate(k) = 0
\* an aging step halves every estimate (prevEst: the estimates just before the halving)
HalvedExactly == lastReset => \A k \in Keys : Estimate(k) = prevEst[k] \div 2

\* policy.admit: the candidate displaces the victim only if strictly more popular, apart from the 1/128 jitter
Admit(fc, fv, r) == fc > fv \/ (fc >= 6 /\ r % 128 = 0)
=============================================================================
