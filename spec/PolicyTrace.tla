---------------------------- MODULE PolicyTrace ----------------------------
(***************************************************************************)
(* Trace validation of the real eviction policy against Policy.tla          *)
(* (deterministic fold).  harness/otter/verif_policy_test.go logs one       *)
(* record per call on the real policy object with the complete state after  *)
(* it.  Every record is                                                     *)
(*  (1) replayed on the model: Step(s, e); a difference between the model's *)
(*      projection and the logged state is DRIFT (counted, never a          *)
(*      violation: a change of the policy that keeps the properties must    *)
(*      not raise an alarm) and the logged state is adopted;                *)
(*  (2) judged by the properties on the LOGGED state, independent of the    *)
(*      model: the deques are proper lists, no node is linked twice, a node *)
(*      is linked in the deque its flag names (C05), dead nodes are not     *)
(*      linked and at quiescence exactly the live nodes are, the totals are *)
(*      the sums over the deques (C05), an eviction pass at quiescence      *)
(*      leaves the total within the maximum (C04), a live node is evicted   *)
(*      only when the total exceeded the maximum and never a weightless one *)
(*      (C07, C04), the climber keeps window + protected maxima within the  *)
(*      maximum (C04);                                                      *)
(*  (3) for C18 the model supplies the roles: if the model rejected a       *)
(*      candidate (its estimate not greater, no random admission) and the   *)
(*      real pass evicted the victim of that comparison instead while the   *)
(*      candidate stayed, a new arrival displaced the victim without a      *)
(*      greater estimate.                                                   *)
(***************************************************************************)
EXTENDS Policy, Json, IOUtils

Trace == ndJsonDeserialize(IOEnv.VERIF_TRACE)

VARIABLES i,       \* next record
          viol,    \* violations: <<line, tag, detail>>
          drift,   \* records on which model and code differ (no property broken)
          skip,    \* the logged state was malformed: nothing is judged until the next reset
          ro       \* this run applies tasks out of order (the concurrent setting: C07 speaks of sequential use only)
tvars == <<s, cur, pend, used, last, bad, i, viol, drift, skip, ro>>

QN(x) == CASE x = 0 -> QW [] x = 1 -> QP [] OTHER -> QT
QI(d) == CASE d = QW -> 0 [] d = QP -> 1 [] OTHER -> 2
SN(x) == CASE x = 0 -> "none" [] x = 1 -> "alive" [] x = 2 -> "retired" [] OTHER -> "dead"
SI(x) == CASE x = "none" -> 0 [] x = "alive" -> 1 [] x = "retired" -> 2 [] OTHER -> 3

PL(p, d) == CASE d = QW -> p.W [] d = QP -> p.P [] OTHER -> p.T

\* ---- the properties on a logged state p (record "post"), W = weights known to the model
PostWellFormed(p) ==
    /\ p.cyc = 0
    /\ \A d \in Queues : LET L == PL(p, d)
                         IN /\ Len(L) = p.len[QI(d) + 1]
                            /\ Cardinality(SeqSet(L)) = Len(L)
                            /\ p.tail[QI(d) + 1] = IF Len(L) = 0 THEN 0 ELSE L[Len(L)]
    /\ \A d, e \in Queues : d # e => SeqSet(PL(p, d)) \cap SeqSet(PL(p, e)) = {}

Linked(p) == UNION {SeqSet(PL(p, d)) : d \in Queues}
RECURSIVE SumWt(_, _)
SumWt(w, S) == IF S = {} THEN 0 ELSE LET x == CHOOSE y \in S : TRUE IN w[x] + SumWt(w, S \ {x})

FlagsOK(p)   == \A d \in Queues : \A n \in SeqSet(PL(p, d)) : p.q[n] = QI(d)
NoDeadLinked(p) == \A n \in Linked(p) : p.st[n] # 3
QuiescentAgree(p) == \A n \in Ids : (p.st[n] = 1) <=> (n \in Linked(p))
TotalsOK(p, w) ==
    /\ p.ws = SumWt(w, Linked(p))
    /\ p.wws = SumWt(w, SeqSet(p.W))
    /\ p.pws = SumWt(w, SeqSet(p.T))
MaximaP(p) == p.wmax >= 0 /\ p.pmax >= 0 /\ p.wmax + p.pmax <= p.max

\* ---- model <-> log
FromPost(p, w, key) ==
    LET pv(n) == IF \E d \in Queues : \E j \in 2..Len(PL(p, d)) : PL(p, d)[j] = n
                 THEN LET d == CHOOSE d \in Queues : \E j \in 2..Len(PL(p, d)) : PL(p, d)[j] = n
                          j == CHOOSE j \in 2..Len(PL(p, d)) : PL(p, d)[j] = n
                      IN PL(p, d)[j - 1]
                 ELSE Nil
        nx(n) == IF \E d \in Queues : \E j \in 1..(Len(PL(p, d)) - 1) : PL(p, d)[j] = n
                 THEN LET d == CHOOSE d \in Queues : \E j \in 1..(Len(PL(p, d)) - 1) : PL(p, d)[j] = n
                          j == CHOOSE j \in 1..(Len(PL(p, d)) - 1) : PL(p, d)[j] = n
                      IN PL(p, d)[j + 1]
                 ELSE Nil
    IN [w |-> w, key |-> key,
        st |-> [n \in Ids |-> SN(p.st[n])], q |-> [n \in Ids |-> QN(p.q[n])],
        prev |-> [n \in Ids |-> pv(n)], next |-> [n \in Ids |-> nx(n)],
        head |-> [d \in Queues |-> IF Len(PL(p, d)) = 0 THEN Nil ELSE PL(p, d)[1]],
        tail |-> [d \in Queues |-> IF Len(PL(p, d)) = 0 THEN Nil ELSE PL(p, d)[Len(PL(p, d))]],
        len |-> [d \in Queues |-> Len(PL(p, d))],
        max |-> p.max, wmax |-> p.wmax, pmax |-> p.pmax, ws |-> p.ws, wws |-> p.wws, pws |-> p.pws, adj |-> p.adj,
        evs |-> <<>>, cmp |-> <<>>, rd |-> <<0, 0>>]

SameState(t, p) ==
    /\ \A d \in Queues : ListOf(t, d) = PL(p, d)
    /\ t.max = p.max /\ t.wmax = p.wmax /\ t.pmax = p.pmax
    /\ t.ws = p.ws /\ t.wws = p.wws /\ t.pws = p.pws /\ t.adj = p.adj
    /\ \A n \in Ids : SI(t.st[n]) = p.st[n]
    /\ \A n \in Ids : t.st[n] # "none" => QI(t.q[n]) = p.q[n]

EvIds(evs) == [j \in 1..Len(evs) |-> evs[j][1]]

StepModel(t, e) ==
    CASE e.op = "add"    -> Add(Fresh(t), e.n)
      [] e.op = "upd"    -> Update(Fresh(t), e.n, e.old)
      [] e.op = "del"    -> PDelete(Fresh(t), e.n)
      [] e.op = "acc"    -> Access(Fresh(t), e.n)
      [] e.op = "evict"  -> EvictNodes([Fresh(t) EXCEPT !.rd = <<e.rd[1], e.rd[2]>>], [n \in Ids |-> e.f[n]], e.r)
      [] e.op = "climb"  -> Climb(Fresh(t), e.a)
      [] e.op = "setmax" -> SetMax(Fresh(t), e.m)
      [] e.op = "new"    -> [Fresh(t) EXCEPT !.w[e.n] = e.w, !.st[e.n] = "alive", !.key[e.n] = e.k, !.q[e.n] = QW]
      [] e.op = "retire" -> [Fresh(t) EXCEPT !.st[e.n] = "retired"]
      [] OTHER           -> t

\* C07 / C04 on the logged callbacks: a live node is evicted only when the total exceeded the maximum at that moment (or
\* it alone exceeds it), and never a weightless one.  mx = the maximum during the call.
Unjustified(e, w, mx) ==
    {j \in 1..Len(e.evs) : e.evs[j][3] = 1 /\ ~(w[e.evs[j][1]] > 0 /\ (e.evs[j][2] > mx \/ w[e.evs[j][1]] > mx))}

\* C18: the comparisons the model made (t.cmp = <<candidate, victim, admitted, callback index>>)
Displaced(t, e) ==
    {x \in 1..Len(t.cmp) :
        LET c == t.cmp[x][1] v == t.cmp[x][2] k == t.cmp[x][4]
        IN /\ t.cmp[x][3] = 0
           /\ k <= Len(e.evs)
           /\ \A j \in 1..(k - 1) : e.evs[j][1] = t.evs[j][1]
           /\ e.evs[k][1] = v
           /\ c \in Linked(e.post)
           /\ ~\E j \in 1..Len(e.evs) : e.evs[j][1] = c}

TInit ==
    /\ s = EmptyPolicy(1)
    /\ cur = [k \in Keys |-> Nil] /\ pend = <<>> /\ used = 0 /\ last = "other" /\ bad = FALSE
    /\ i = 1 /\ viol = <<>> /\ drift = <<>> /\ skip = FALSE /\ ro = FALSE

TStep ==
    /\ i <= Len(Trace)
    /\ i' = i + 1
    /\ UNCHANGED <<cur, pend, used, last, bad>>
    /\ LET e == Trace[i]
           p == e.post
       IN IF e.op = "reset"
          THEN /\ s' = FromPost(p, [n \in Ids |-> 0], [n \in Ids |-> 0])
               /\ skip' = FALSE
               /\ ro' = (e.a = 1)
               /\ UNCHANGED <<viol, drift>>
          ELSE IF skip \/ e.op = "panic"
               THEN \* the deques are corrupt (reported when it happened): the model cannot follow, but the size bound is still judged on
                    \* what the code reports - entries no deque reaches any more can never be chosen as victims (C04)
                    /\ skip' = TRUE
                    /\ viol' = viol \o (IF e.op = "evict" /\ e.pend = 0 /\ p.ws > p.max
                                        THEN <<[line |-> i, pred |-> "C04.bound_after_eviction", detail |-> <<p.ws, p.max, "deques corrupt">>]>> ELSE <<>>)
                    /\ UNCHANGED <<s, drift, ro>>
          ELSE LET t   == StepModel(s, e)
                   w   == t.w
                   wf  == PostWellFormed(p)
                   v1  == IF ~wf THEN <<[line |-> i, pred |-> "C05.deque_malformed", detail |-> <<p.W, p.P, p.T, p.len, p.tail>>]>> ELSE <<>>
                   v2  == IF wf /\ ~FlagsOK(p) THEN <<[line |-> i, pred |-> "C05.queue_flag_disagrees", detail |-> <<p.W, p.P, p.T, p.q>>]>> ELSE <<>>
                   v3  == IF wf /\ ~NoDeadLinked(p) THEN <<[line |-> i, pred |-> "C05.dead_node_linked", detail |-> <<p.W, p.P, p.T, p.st>>]>> ELSE <<>>
                   v4  == IF wf /\ e.pend = 0 /\ ~QuiescentAgree(p)
                          THEN <<[line |-> i, pred |-> "C05.alive_iff_linked", detail |-> <<p.W, p.P, p.T, p.st>>]>> ELSE <<>>
                   v5  == IF wf /\ e.pend = 0 /\ ~TotalsOK(p, w)
                          THEN <<[line |-> i, pred |-> "C05.totals", detail |-> <<p.ws, p.wws, p.pws, SumWt(w, Linked(p)), SumWt(w, SeqSet(p.W)), SumWt(w, SeqSet(p.T))>>]>> ELSE <<>>
                   v6  == IF wf /\ e.pend = 0 /\ e.op = "evict" /\ p.ws > p.max
                          THEN <<[line |-> i, pred |-> "C04.bound_after_eviction", detail |-> <<p.ws, p.max>>]>> ELSE <<>>
                   v7  == IF ~ro /\ Unjustified(e, w, s.max) # {}
                          THEN <<[line |-> i, pred |-> "C07.unjustified_eviction", detail |-> <<e.evs, s.max>>]>> ELSE <<>>
                   v8  == IF ~MaximaP(p) THEN <<[line |-> i, pred |-> "C04.maxima", detail |-> <<p.max, p.wmax, p.pmax>>]>> ELSE <<>>
                   v9  == IF e.op = "evict" /\ Displaced(t, e) # {}
                          THEN <<[line |-> i, pred |-> "C18.displaced_without_greater_estimate",
                                  detail |-> <<{<<t.cmp[x][1], t.cmp[x][2], e.f[t.cmp[x][1]], e.f[t.cmp[x][2]]>> : x \in Displaced(t, e)}, e.r>>]>>
                          ELSE <<>>
                   same == SameState(t, p) /\ EvIds(t.evs) = EvIds(e.evs)
               IN /\ viol' = viol \o v1 \o v2 \o v3 \o v4 \o v5 \o v6 \o v7 \o v8 \o v9
                  /\ skip' = ~wf
                  /\ UNCHANGED ro
                  /\ drift' = IF same \/ ~wf THEN drift ELSE Append(drift, <<i, e.op>>)
                  /\ s' = IF same \/ ~wf THEN t ELSE FromPost(p, w, t.key)

TNext ==
    \/ TStep
    \/ /\ i = Len(Trace) + 1
       /\ JsonSerialize(IOEnv.VERIF_DEVOUT, [n |-> Len(Trace), drift |-> Len(drift), driftat |-> SubSeq(drift, 1, IF Len(drift) < 40 THEN Len(drift) ELSE 40), devs |-> viol])
       /\ i' = i + 1
       /\ UNCHANGED <<s, cur, pend, used, last, bad, viol, drift, skip, ro>>

TSpec == TInit /\ [][TNext]_tvars
=============================================================================
