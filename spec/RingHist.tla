------------------------------ MODULE RingHist ------------------------------
(***************************************************************************)
(* Judges histories of the real lossy read buffer (ring or striped) with   *)
(* the invariants of Ring.tla restated over the logged adds and deliveries:*)
(* the abstract object is a lossy bag - delivered is a sub-bag of the      *)
(* Success adds, nothing twice, never more than the capacity held, and the *)
(* final drain (started after every recorder finished) leaves nothing.     *)
(***************************************************************************)
EXTENDS Integers, Sequences, FiniteSets, TLC, Json, IOUtils

Recs == ndJsonDeserialize(IOEnv.VERIF_TRACE)
VARIABLES i, dev
vars == <<i, dev>>
F(idx, name, detail) == [rec |-> idx, pred |-> name, detail |-> ToString(detail)]

Check(r, idx) ==
    LET del == r.delivered
        delSet == {del[j] : j \in DOMAIN del}
        succ == {r.adds[j].id : j \in {x \in DOMAIN r.adds : r.adds[x].st = 0}}
        allIds == {r.adds[j].id : j \in DOMAIN r.adds}
    IN
    (IF r.diag # "" THEN <<F(idx, "C17.abnormal_end", r.diag)>> ELSE <<>>)
    \o (IF Cardinality(delSet) # Len(del) THEN <<F(idx, "C17.delivered_twice", del)>> ELSE <<>>)
    \o (IF ~(delSet \subseteq allIds) THEN <<F(idx, "C17.invented", delSet \ allIds)>> ELSE <<>>)
    \o (IF ~(delSet \subseteq succ) THEN <<F(idx, "C17.delivered_unrecorded", delSet \ succ)>> ELSE <<>>)
    \o (IF r.diag = "" /\ ~(succ \subseteq delSet) THEN <<F(idx, "C17.recorded_not_delivered", succ \ delSet)>> ELSE <<>>)
    \o (IF r.maxlenseen > r.cap \/ r.maxlenseen < 0 THEN <<F(idx, "C17.over_capacity", <<r.maxlenseen, r.cap>>)>> ELSE <<>>)
    \o (IF r.diag = "" /\ r.leftlen # 0 THEN <<F(idx, "C17.left_after_final_drain", r.leftlen)>> ELSE <<>>)
    \* storm runs log only the set differences (computed by the driver from the same adds / deliveries)
    \o (IF r.lost # <<>> THEN <<F(idx, "C17.recorded_not_delivered", r.lost)>> ELSE <<>>)
    \o (IF r.phantom # <<>> THEN <<F(idx, "C17.delivered_unrecorded", r.phantom)>> ELSE <<>>)
    \o (IF r.dups # <<>> THEN <<F(idx, "C17.delivered_twice", r.dups)>> ELSE <<>>)
    \o (IF r.sc.level = "striped" /\ r.stripes > r.sc.maxlen THEN <<F(idx, "C17.too_many_stripes", r.stripes)>> ELSE <<>>)

Init == i = 1 /\ dev = <<>>
Next == \/ /\ i <= Len(Recs)
           /\ dev' = dev \o Check(Recs[i], i)
           /\ i' = i + 1
        \/ /\ i = Len(Recs) + 1
           /\ JsonSerialize(IOEnv.VERIF_DEVOUT, [n |-> Len(Recs), devs |-> dev])
           /\ i' = i + 1
           /\ UNCHANGED dev
Spec == Init /\ [][Next]_vars
=============================================================================
