------------------------------- MODULE DropHist -------------------------------
(***************************************************************************)
(* C17, last clause: "dropping reads never changes what any cache          *)
(* operation returns".  In Cache.tla the results of an operation are a     *)
(* function of the abstract map and the operation's own clock sample; the  *)
(* read buffer does not occur.  harness/otter/verif_drop_test.go runs one  *)
(* script twice on the real cache - once with reads dropped whenever the   *)
(* buffer is full (the dropped read makes its caller run maintenance, at a *)
(* later clock sample), once with every read recorded - and logs both      *)
(* result sequences.  They must be equal.                                  *)
(***************************************************************************)
EXTENDS Integers, Sequences, FiniteSets, TLC, Json, IOUtils
Recs == ndJsonDeserialize(IOEnv.VERIF_TRACE)
VARIABLES i, dev
vars == <<i, dev>>
F(idx, name, detail) == [rec |-> idx, pred |-> name, detail |-> ToString(detail)]
Check(r, idx) ==
    LET diff == {j \in DOMAIN r.a : j \in DOMAIN r.b /\ r.a[j] # r.b[j]}
    IN IF Len(r.a) # Len(r.b) THEN <<F(idx, "C17.drop_changed_result", <<"lengths", Len(r.a), Len(r.b)>>)>>
       ELSE IF diff # {} THEN LET j == CHOOSE x \in diff : \A y \in diff : x <= y
                              IN <<F(idx, "C17.drop_changed_result", <<j, r.ops[j], r.a[j], r.b[j], Cardinality(diff)>>)>>
       ELSE <<>>
Init == i = 1 /\ dev = <<>>
Next == \/ /\ i <= Len(Recs)
           /\ dev' = dev \o Check(Recs[i], i)
           /\ i' = i + 1
        \/ /\ i = Len(Recs) + 1
           /\ JsonSerialize(IOEnv.VERIF_DEVOUT, [n |-> Len(Recs), devs |-> dev])
           /\ i' = i + 1
           /\ UNCHANGED dev
Spec == Init /\ [][Next]_vars
=============================================================================
