------------------------------- MODULE Policy -------------------------------
(***************************************************************************)
(* The eviction policy object of the cache (policy.go: adaptive W-TinyLFU   *)
(* with a hill climber, internal/deque/linked.go: intrusive deques) as a    *)
(* sequential state machine, transliterated at POINTER level: every node    *)
(* carries prev / next, every deque head / tail / len, exactly as the Go    *)
(* code does, so that an operation applied to a node whose queue flag and   *)
(* actual deque disagree has the same (wrong) effect here as there.         *)
(*                                                                         *)
(* The state is one record `s`; every method of policy.go is an operator    *)
(* from records to records:                                                 *)
(*   Add(s,n)  Update(s,n,old)  PDelete(s,n)  Access(s,n)                   *)
(*   EvictNodes(s,f,r)   (evictFromWindow + evictFromMain; f = popularity   *)
(*                        estimate per node, r = the random draw)          *)
(*   Climb(s,a)          (demoteFromMainProtected + increase/decreaseWindow *)
(*                        for the adjustment a that determineAdjustment    *)
(*                        produced)                                         *)
(*   SetMax(s,m)                                                            *)
(* EvictCB is cache.evictNode as seen from the policy: the table removal    *)
(* (alive -> retired), policy.delete, makeDead.                             *)
(*                                                                         *)
(* Next drives the object the way the cache does: writes and invalidations  *)
(* of keys create tasks (add / update(n, old) / delete) which are applied   *)
(* possibly out of order (the publication of a task is not ordered with the *)
(* table computation), reads are replayed, maintenance evicts and climbs.   *)
(*                                                                         *)
(* Properties (C04 C05 C07; C18's admission rule is in Admit):              *)
(*   WellFormed  the three deques are proper doubly linked lists            *)
(*   Agree       quiescent => a node is linked exactly once, in the deque   *)
(*               its flag names, iff it is alive; the running totals are    *)
(*               the sums over the deques                                   *)
(*   Maxima      window and protected maxima are non-negative and never     *)
(*               exceed the maximum together (the climber only moves quota) *)
(*   Bound       after an eviction pass at quiescence the total is within   *)
(*               the maximum                                                *)
(*   Justified   a live entry is evicted only when the total exceeded the   *)
(*               maximum (or it alone does), and never a weightless one     *)
(***************************************************************************)
EXTENDS Integers, Sequences, FiniteSets, TLC

CONSTANTS N,          \* node ids 1..N; 0 is nil
          Keys,       \* keys of the driving cache
          Weights,    \* weights a write may carry
          Maxima,     \* values SetMax may choose (the first one is the initial maximum)
          Adjust,     \* adjustments Climb may be given
          Freqs,      \* popularity estimates an eviction pass may see
          Signed,     \* TRUE: a running total that went below zero compares as a negative number (the repaired code, finding F25; Caffeine keeps
                      \* these totals in signed variables); FALSE: as a huge unsigned number (policy.go before the repair)
          Reorder,    \* TRUE: the second pending task may overtake the first
          KeepObs     \* TRUE: the records of the eviction callbacks / comparisons of the last operation stay in the state

Ids == 1..N
\* the running totals are unsigned in the code: a total that went below zero (a delete / update task applied before the add
\* it follows) compares as a huge number until the missing task arrives
U(a) == IF a < 0 /\ ~Signed THEN a + 1073741824 ELSE a
Nil == 0
QW == "W"
QP == "P"
QT == "T"
Queues == {QW, QP, QT}

----------------------------------------------------------------------------
\* internal/deque/linked.go

PushBack(s, d, n) ==
    IF s.len[d] = 0
    THEN [s EXCEPT !.head[d] = n, !.tail[d] = n, !.len[d] = 1]
    ELSE [s EXCEPT !.prev[n] = s.tail[d], !.next[s.tail[d]] = n, !.tail[d] = n, !.len[d] = @ + 1]

PushFront(s, d, n) ==
    IF s.len[d] = 0
    THEN [s EXCEPT !.head[d] = n, !.tail[d] = n, !.len[d] = 1]
    ELSE [s EXCEPT !.next[n] = s.head[d], !.prev[s.head[d]] = n, !.head[d] = n, !.len[d] = @ + 1]

DeleteL(s, d, n) ==
    LET nx == s.next[n]
        pv == s.prev[n]
    IN IF pv = Nil /\ nx = Nil /\ s.head[d] # n THEN s
       ELSE LET s1 == IF pv = Nil THEN [s EXCEPT !.head[d] = nx]
                      ELSE [s EXCEPT !.next[pv] = nx, !.prev[n] = Nil]
                s2 == IF nx = Nil THEN [s1 EXCEPT !.tail[d] = pv]
                      ELSE [s1 EXCEPT !.prev[nx] = pv, !.next[n] = Nil]
            IN [s2 EXCEPT !.len[d] = @ - 1]

UpdateNodeL(s, d, n, old) ==
    LET on == s.next[old]
        s1 == IF on = Nil THEN (IF s.tail[d] = old THEN [s EXCEPT !.tail[d] = n] ELSE s)
              ELSE [s EXCEPT !.prev[on] = n, !.next[n] = on, !.next[old] = Nil]
        op == s1.prev[old]
    IN IF op = Nil THEN (IF s1.head[d] = old THEN [s1 EXCEPT !.head[d] = n] ELSE s1)
       ELSE [s1 EXCEPT !.prev[n] = op, !.next[op] = n, !.prev[old] = Nil]

Contains(s, d, n) == s.prev[n] # Nil \/ s.next[n] # Nil \/ s.head[d] = n

MoveToBack(s, d, n)  == IF n = s.tail[d] THEN s ELSE PushBack(DeleteL(s, d, n), d, n)
MoveToFront(s, d, n) == IF n = s.head[d] THEN s ELSE PushFront(DeleteL(s, d, n), d, n)

----------------------------------------------------------------------------
\* policy.go

MakeDead(s, n) ==
    IF s.st[n] = "dead" THEN s
    ELSE LET w == s.w[n]
         IN [s EXCEPT !.wws = IF s.q[n] = QW THEN @ - w ELSE @,
                      !.pws = IF s.q[n] = QT THEN @ - w ELSE @,
                      !.ws = @ - w,
                      !.st[n] = "dead"]

PDelete(s, n) == MakeDead(DeleteL(s, s.q[n], n), n)

\* cache.evictNode: the callback policy.go is given.  The record of the call keeps the total at that moment.
EvictCB(s, n) ==
    LET s0 == [s EXCEPT !.evs = Append(@, <<n, s.ws, IF s.st[n] = "alive" THEN 1 ELSE 0>>)]
        s1 == IF s0.st[n] = "alive" THEN [s0 EXCEPT !.st[n] = "retired"] ELSE s0
        s2 == PDelete(s1, n)
    IN \* s.rd = <<i, x>>: "another goroutine" invalidates the live node x right after the i-th callback of this operation
       IF s2.rd[1] > 0 /\ Len(s2.evs) = s2.rd[1] /\ s2.st[s2.rd[2]] = "alive"
       THEN [s2 EXCEPT !.st[s2.rd[2]] = "retired"]
       ELSE s2

ReorderQ(s, d, n) == IF Contains(s, d, n) THEN MoveToBack(s, d, n) ELSE s

ReorderProbation(s, n) ==
    IF ~Contains(s, QP, n) THEN s
    ELSE IF s.w[n] > s.pmax THEN ReorderQ(s, QP, n)
    ELSE LET s1 == [s EXCEPT !.pws = @ + s.w[n]]
             s2 == DeleteL(s1, QP, n)
             s3 == PushBack(s2, QT, n)
         IN [s3 EXCEPT !.q[n] = QT]

Access(s, n) ==
    CASE s.q[n] = QW -> ReorderQ(s, QW, n)
      [] s.q[n] = QP -> ReorderProbation(s, n)
      [] OTHER       -> ReorderQ(s, QT, n)

Add(s, n) ==
    LET w  == s.w[n]
        s1 == [s EXCEPT !.ws = @ + w, !.wws = @ + w]
    IN IF s.st[n] # "alive" THEN s1
       ELSE IF w > s.max THEN EvictCB(s1, n)
       ELSE IF w > s.wmax THEN PushFront(s1, QW, n)
       ELSE PushBack(s1, QW, n)

UpdateNode(s, n, old) ==
    LET d  == s.q[old]
        s1 == IF s.st[n] # "alive" THEN DeleteL(s, d, old)
              ELSE IF Contains(s, d, old) THEN UpdateNodeL([s EXCEPT !.q[n] = s.q[old]], d, n, old)
              ELSE PushBack([s EXCEPT !.q[n] = QW], QW, n)
    IN MakeDead(s1, old)

Update(s, n, old) ==
    LET w  == s.w[n]
        s1 == UpdateNode(s, n, old)
        s2 == CASE s1.q[n] = QW ->
                     LET t == [s1 EXCEPT !.wws = @ + w]
                     IN IF w > t.max THEN EvictCB(t, n)
                        ELSE IF w <= t.wmax THEN Access(t, n)
                        ELSE IF Contains(t, QW, n) THEN MoveToFront(t, QW, n)
                        ELSE t
                [] s1.q[n] = QP -> IF w <= s1.max THEN Access(s1, n) ELSE EvictCB(s1, n)
                [] OTHER ->
                     LET t == [s1 EXCEPT !.pws = @ + w]
                     IN IF w <= t.max THEN Access(t, n) ELSE EvictCB(t, n)
    IN [s2 EXCEPT !.ws = @ + w]

RECURSIVE EFW(_, _, _)
EFW(s, n, first) ==
    IF U(s.wws) <= s.wmax \/ n = Nil THEN <<s, first>>
    ELSE LET nx == s.next[n]
         IN IF s.w[n] # 0
            THEN LET s1 == [s EXCEPT !.q[n] = QP]
                     s2 == DeleteL(s1, QW, n)
                     s3 == PushBack(s2, QP, n)
                     s4 == [s3 EXCEPT !.wws = @ - s.w[n]]
                 IN EFW(s4, nx, IF first = Nil THEN n ELSE first)
            ELSE EFW(s, nx, first)

\* C18: a new arrival displaces the victim only if its estimate is strictly greater, apart from the random admission of
\* warm candidates (estimate >= 6, one draw in 128)
Admit(fc, fv, r) == fc > fv \/ (fc >= 6 /\ r % 128 = 0)

\* a comparison and the index of the callback it leads to
Cmp(s, c, v, a) == [s EXCEPT !.cmp = Append(@, <<c, v, IF a THEN 1 ELSE 0, Len(s.evs) + 1>>)]

RECURSIVE EFM(_, _, _, _, _, _, _, _)
EFM(s, c0, v, vq, cq0, f, r, fuel) ==
    IF U(s.ws) <= s.max \/ fuel = 0 THEN s
    ELSE LET sw == c0 = Nil /\ cq0 = QP
             c  == IF sw THEN s.head[QW] ELSE c0
             cq == IF sw THEN QW ELSE cq0
         IN IF c = Nil /\ v = Nil
            THEN IF vq = QP THEN EFM(s, c, s.head[QT], QT, cq, f, r, fuel - 1)
                 ELSE IF vq = QT THEN EFM(s, c, s.head[QW], QW, cq, f, r, fuel - 1)
                 ELSE s
            ELSE IF v # Nil /\ s.w[v] = 0 THEN EFM(s, c, s.next[v], vq, cq, f, r, fuel - 1)
            ELSE IF c # Nil /\ s.w[c] = 0 THEN EFM(s, s.next[c], v, vq, cq, f, r, fuel - 1)
            ELSE IF v = Nil THEN EFM(EvictCB(s, c), s.next[c], v, vq, cq, f, r, fuel - 1)
            ELSE IF c = Nil THEN EFM(EvictCB(s, v), c, s.next[v], vq, cq, f, r, fuel - 1)
            ELSE IF c = v THEN EFM(EvictCB(s, c), Nil, s.next[v], vq, cq, f, r, fuel - 1)
            ELSE IF s.st[v] # "alive" THEN EFM(EvictCB(s, v), c, s.next[v], vq, cq, f, r, fuel - 1)
            ELSE IF s.st[c] # "alive" THEN EFM(EvictCB(s, c), s.next[c], v, vq, cq, f, r, fuel - 1)
            ELSE IF s.w[c] > s.max THEN EFM(EvictCB(s, c), s.next[c], v, vq, cq, f, r, fuel - 1)
            ELSE IF Admit(f[c], f[v], r)
                 THEN LET s1 == EvictCB(Cmp(s, c, v, TRUE), v)
                      IN EFM(s1, s1.next[c], s.next[v], vq, cq, f, r, fuel - 1)
                 ELSE EFM(EvictCB(Cmp(s, c, v, FALSE), c), s.next[c], v, vq, cq, f, r, fuel - 1)

EvictNodes(s, f, r) ==
    LET p == EFW(s, s.head[QW], Nil)
    IN EFM(p[1], p[2], p[1].head[QP], QP, QP, f, r, 8 * N + 8)

RECURSIVE DEM(_, _, _)
DEM(s, m, fuel) ==
    IF U(m) <= s.pmax \/ fuel = 0 \/ s.len[QT] = 0 THEN [s EXCEPT !.pws = m]
    ELSE LET d  == s.head[QT]
             s1 == DeleteL(s, QT, d)
             s2 == PushBack([s1 EXCEPT !.q[d] = QP], QP, d)
         IN DEM(s2, m - s.w[d], fuel - 1)

Demote(s) == IF U(s.pws) <= s.pmax THEN s ELSE DEM(s, s.pws, 1000)

RECURSIVE INC(_, _, _)
INC(s, quota, fuel) ==
    IF fuel = 0 THEN <<s, quota>>
    ELSE LET ph    == s.head[QP]
             fromP == ph # Nil /\ ~(quota < s.w[ph])
             c     == IF fromP THEN ph ELSE s.head[QT]
         IN IF c = Nil \/ quota < s.w[c] THEN <<s, quota>>
            ELSE LET w  == s.w[c]
                     s1 == IF fromP THEN DeleteL(s, QP, c)
                           ELSE DeleteL([s EXCEPT !.pws = @ - w], QT, c)
                     s2 == PushBack([s1 EXCEPT !.wws = @ + w], QW, c)
                 IN INC([s2 EXCEPT !.q[c] = QW], quota - w, fuel - 1)

IncreaseWindow(s) ==
    IF s.pmax = 0 THEN s
    ELSE LET q0 == IF s.pmax < s.adj THEN s.pmax ELSE s.adj
             s1 == Demote([s EXCEPT !.pmax = @ - q0, !.wmax = @ + q0])
             p  == INC(s1, q0, 1000)
         IN [p[1] EXCEPT !.pmax = @ + p[2], !.wmax = @ - p[2], !.adj = p[2]]

RECURSIVE DEC(_, _, _)
DEC(s, quota, fuel) ==
    IF fuel = 0 THEN <<s, quota>>
    ELSE LET c == s.head[QW]
         IN IF c = Nil \/ quota < s.w[c] THEN <<s, quota>>
            ELSE LET w  == s.w[c]
                     s1 == DeleteL([s EXCEPT !.wws = @ - w], QW, c)
                     s2 == PushBack(s1, QP, c)
                 IN DEC([s2 EXCEPT !.q[c] = QP], quota - w, fuel - 1)

DecreaseWindow(s) ==
    IF s.wmax <= 1 THEN s
    ELSE LET q0 == IF s.wmax - 1 < -s.adj THEN s.wmax - 1 ELSE -s.adj
             p  == DEC([s EXCEPT !.pmax = @ + q0, !.wmax = @ - q0], q0, 1000)
         IN [p[1] EXCEPT !.pmax = @ - p[2], !.wmax = @ + p[2], !.adj = -p[2]]

Climb(s, a) ==
    LET s1 == Demote([s EXCEPT !.adj = a])
    IN IF a = 0 THEN s1 ELSE IF a > 0 THEN IncreaseWindow(s1) ELSE DecreaseWindow(s1)

WindowFor(m) == m - (99 * m) \div 100
ProtectedFor(m) == (8 * (m - WindowFor(m))) \div 10
SetMax(s, m) ==
    IF m = s.max THEN s
    ELSE [s EXCEPT !.max = m, !.wmax = WindowFor(m), !.pmax = ProtectedFor(m)]

Fresh(s) == [s EXCEPT !.evs = <<>>, !.cmp = <<>>, !.rd = <<0, 0>>]

EmptyPolicy(m) ==
    [w |-> [i \in Ids |-> 0], st |-> [i \in Ids |-> "none"], q |-> [i \in Ids |-> QW], key |-> [i \in Ids |-> 0],
     prev |-> [i \in Ids |-> Nil], next |-> [i \in Ids |-> Nil],
     head |-> [d \in Queues |-> Nil], tail |-> [d \in Queues |-> Nil], len |-> [d \in Queues |-> 0],
     max |-> m, wmax |-> WindowFor(m), pmax |-> ProtectedFor(m), ws |-> 0, wws |-> 0, pws |-> 0, adj |-> 0,
     evs |-> <<>>, cmp |-> <<>>, rd |-> <<0, 0>>]

----------------------------------------------------------------------------
\* the deques as sequences (for the properties and for the conformance projection)

RECURSIVE Walk(_, _, _)
Walk(s, n, fuel) == IF n = Nil \/ fuel = 0 THEN <<>> ELSE <<n>> \o Walk(s, s.next[n], fuel - 1)
ListOf(s, d) == Walk(s, s.head[d], N + 1)
SeqSet(q) == {q[i] : i \in 1..Len(q)}
RECURSIVE SumW(_, _)
SumW(s, S) == IF S = {} THEN 0 ELSE LET x == CHOOSE y \in S : TRUE IN s.w[x] + SumW(s, S \ {x})

WellFormedS(s) ==
    /\ \A d \in Queues :
         LET L == ListOf(s, d)
         IN /\ Len(L) = s.len[d]
            /\ Cardinality(SeqSet(L)) = Len(L)
            /\ (Len(L) = 0 => s.head[d] = Nil)
            /\ (Len(L) > 0 => /\ s.tail[d] = L[Len(L)]
                              /\ s.prev[L[1]] = Nil
                              /\ s.next[L[Len(L)]] = Nil
                              /\ \A i \in 2..Len(L) : s.prev[L[i]] = L[i - 1])
    /\ \A d, e \in Queues : d # e => SeqSet(ListOf(s, d)) \cap SeqSet(ListOf(s, e)) = {}
    /\ \A n \in Ids : (\A d \in Queues : n \notin SeqSet(ListOf(s, d))) => s.prev[n] = Nil /\ s.next[n] = Nil

AgreeS(s) ==
    /\ \A d \in Queues : \A n \in SeqSet(ListOf(s, d)) : s.q[n] = d /\ s.st[n] = "alive"
    /\ \A n \in Ids : s.st[n] = "alive" => \E d \in Queues : n \in SeqSet(ListOf(s, d))
    /\ \A n \in Ids : s.st[n] \in {"none", "alive", "dead"}
    /\ s.wws = SumW(s, SeqSet(ListOf(s, QW)))
    /\ s.pws = SumW(s, SeqSet(ListOf(s, QT)))
    /\ s.ws = SumW(s, UNION {SeqSet(ListOf(s, d)) : d \in Queues})

MaximaS(s) == s.wmax >= 0 /\ s.pmax >= 0 /\ s.wmax + s.pmax <= s.max

JustifiedS(s) ==
    \A i \in 1..Len(s.evs) :
        LET e == s.evs[i]
        IN e[3] = 1 => s.w[e[1]] > 0 /\ (e[2] > s.max \/ s.w[e[1]] > s.max)

----------------------------------------------------------------------------
\* the cache as the driver of the policy

VARIABLES s,      \* the policy
          cur,    \* key -> current node (Nil: absent)
          pend,   \* tasks recorded and not yet applied
          used,   \* ids handed out
          last,   \* name of the last action
          bad     \* an eviction callback of some operation so far was not justified
vars == <<s, cur, pend, used, last, bad>>

\* exhaustive runs do not keep the observation records in the state (they multiply states without adding behaviour)
Obs(t) == IF KeepObs THEN t ELSE [t EXCEPT !.evs = <<>>, !.cmp = <<>>]

Init ==
    /\ s = EmptyPolicy(CHOOSE m \in Maxima : \A x \in Maxima : m <= x)
    /\ cur = [k \in Keys |-> Nil]
    /\ pend = <<>>
    /\ used = 0
    /\ bad = FALSE
    /\ last = "other"

\* an eviction of a live node removes it from the table
Sync(c, t) == [k \in Keys |-> IF c[k] # Nil /\ t.st[c[k]] # "alive" THEN Nil ELSE c[k]]

Write(k, w) ==
    /\ used < N
    /\ LET n == used + 1
           s1 == [s EXCEPT !.w[n] = w, !.st[n] = "alive", !.key[n] = k]
       IN /\ used' = n
          /\ IF cur[k] = Nil
             THEN /\ s' = s1
                  /\ pend' = Append(pend, [t |-> "add", n |-> n, old |-> Nil])
             ELSE /\ s' = [s1 EXCEPT !.st[cur[k]] = "retired"]
                  /\ pend' = Append(pend, [t |-> "upd", n |-> n, old |-> cur[k]])
          /\ cur' = [cur EXCEPT ![k] = n]
    /\ UNCHANGED bad
    /\ last' = "other"

Invalidate(k) ==
    /\ cur[k] # Nil
    /\ s' = [s EXCEPT !.st[cur[k]] = "retired"]
    /\ pend' = Append(pend, [t |-> "del", n |-> cur[k], old |-> Nil])
    /\ cur' = [cur EXCEPT ![k] = Nil]
    /\ UNCHANGED <<used, bad>>
    /\ last' = "other"

RunTask(t, p) ==
    CASE p.t = "add" -> Add(t, p.n)
      [] p.t = "upd" -> Update(t, p.n, p.old)
      [] OTHER       -> PDelete(t, p.n)

Apply(i) ==
    /\ i \in 1..Len(pend)
    /\ i = 1 \/ (Reorder /\ i = 2)
    /\ LET t == RunTask(Fresh(s), pend[i])
       IN /\ s' = Obs(t)
          /\ bad' = (bad \/ ~JustifiedS(t))
          /\ cur' = Sync(cur, t)
    /\ pend' = SubSeq(pend, 1, i - 1) \o SubSeq(pend, i + 1, Len(pend))
    /\ UNCHANGED used
    /\ last' = "other"

Read(n) ==
    /\ n \in 1..used
    /\ s' = Obs(Access(Fresh(s), n))
    /\ UNCHANGED <<cur, pend, used, bad>>
    /\ last' = "other"

Evict(f, r, rd) ==
    /\ rd[1] = 0 \/ (rd[2] \in 1..used /\ s.st[rd[2]] = "alive")
    /\ LET t == EvictNodes([Fresh(s) EXCEPT !.rd = rd], [n \in Ids |-> IF s.key[n] = 0 THEN 0 ELSE f[s.key[n]]], r)
           x == rd[2]
           \* the invalidation took place unless the node had been evicted (as a live node) before
           inv == rd[1] > 0 /\ t.st[x] # "alive" /\ ~\E i \in 1..Len(t.evs) : t.evs[i][1] = x /\ t.evs[i][3] = 1
       IN /\ s' = Obs([t EXCEPT !.rd = <<0, 0>>])
          /\ bad' = (bad \/ ~JustifiedS(t))
          /\ cur' = Sync(cur, t)
          /\ pend' = IF inv THEN Append(pend, [t |-> "del", n |-> x, old |-> Nil]) ELSE pend
    /\ UNCHANGED used
    /\ last' = "evict"

DoClimb(a) ==
    /\ s' = Obs(Climb(Fresh(s), a))
    /\ UNCHANGED <<cur, pend, used, bad>>
    /\ last' = "other"

DoSetMax(m) ==
    /\ m # s.max
    /\ s' = Obs(SetMax(Fresh(s), m))
    /\ UNCHANGED <<cur, pend, used, bad>>
    /\ last' = "other"

Next ==
    \/ \E k \in Keys, w \in Weights : Write(k, w)
    \/ \E k \in Keys : Invalidate(k)
    \/ \E i \in 1..2 : Apply(i)
    \/ \E n \in Ids : Read(n)
    \/ \E f \in [Keys -> Freqs], r \in {0, 1}, rd \in {<<0, 0>>} \cup {<<1, cur[k]>> : k \in {j \in Keys : cur[j] # Nil}} : Evict(f, r, rd)
    \/ \E a \in Adjust : DoClimb(a)
    \/ \E m \in Maxima : DoSetMax(m)

Spec == Init /\ [][Next]_vars

Quiescent == pend = <<>>

WellFormed == WellFormedS(s)
Agree      == Quiescent => AgreeS(s)
MaximaOK   == MaximaS(s)
Bound      == (Quiescent /\ last = "evict") => s.ws <= s.max
Justified  == ~bad /\ JustifiedS(s)
\* the table and the policy agree on which nodes are current
CurAlive   == \A k \in Keys : cur[k] # Nil => s.st[cur[k]] = "alive" /\ s.key[cur[k]] = k
=============================================================================
