------------------------------- MODULE Cache -------------------------------
(***************************************************************************)
(* Sequential abstract specification of the otter cache: a map whose       *)
(* entries carry an expiration deadline, a refresh time and a weight.      *)
(*                                                                         *)
(* Every public operation is a step function  Step(s, a)  from a state     *)
(* record and an argument record to a successor state plus the results     *)
(* the operation must return.  CacheMC.tla picks the argument record       *)
(* nondeterministically (exhaustive design check, and the source of the    *)
(* operation sequences replayed on the implementation); CacheTrace.tla     *)
(* takes it from a trace recorded from the real code and compares the      *)
(* results.  Automatic removals (size eviction, expiration sweep) are not  *)
(* predicted: they are environment steps  Auto(s, ev)  that are enabled    *)
(* only when justified (C07), because which victim the policy picks is     *)
(* not part of the contract.                                               *)
(*                                                                         *)
(* Entries are PHYSICAL: ent[k].p says a node is in the table, possibly    *)
(* expired and not yet swept.  What operations may observe is Live(s,k).   *)
(*                                                                         *)
(* Time is an integer number of units; INF (-1) is "effectively never".    *)
(* BAD (-2) is what the trace writer logs for a wrapped / misaligned       *)
(* deadline; the model never produces it.                                  *)
(***************************************************************************)
EXTENDS Integers, Sequences, FiniteSets, TLC

INF == -1
BAD == -2

Pos(d)      == d > 0 \/ d = INF                 \* a duration the code acts upon
Plus(t, d)  == IF d = INF \/ t = INF THEN INF ELSE t + d
Before(t, x) == x = INF \/ (x >= 0 /\ t < x)    \* t < x with x possibly INF; BAD is never after t

SeqToSet(q) == {q[i] : i \in DOMAIN q}
RECURSIVE Dedup(_)
Dedup(q) == IF q = <<>> THEN <<>>
            ELSE LET r == Dedup(SubSeq(q, 1, Len(q) - 1))
                     x == q[Len(q)]
                 IN IF x \in SeqToSet(r) THEN r ELSE Append(r, x)
RECURSIVE SumSet(_, _)
SumSet(f(_), S) == IF S = {} THEN 0 ELSE LET x == CHOOSE y \in S : TRUE IN f(x) + SumSet(f, S \ {x})
RECURSIVE SetToSortedSeq(_)
SetToSortedSeq(S) == IF S = {} THEN <<>>
                     ELSE LET m == CHOOSE x \in S : \A y \in S : x <= y
                          IN <<m>> \o SetToSortedSeq(S \ {m})
Count(x, q) == Cardinality({i \in DOMAIN q : q[i] = x})
BagEq(q1, q2) == Len(q1) = Len(q2) /\ \A x \in SeqToSet(q1) \cup SeqToSet(q2) : Count(x, q1) = Count(x, q2)
\* q1 minus one occurrence of each element of q2 (q2 must be a sub-bag of q1)
RECURSIVE BagMinus(_, _)
BagMinus(q1, q2) ==
    IF q2 = <<>> THEN q1
    ELSE LET x == Head(q2)
             i == CHOOSE j \in DOMAIN q1 : q1[j] = x
         IN BagMinus(SubSeq(q1, 1, i - 1) \o SubSeq(q1, i + 1, Len(q1)), Tail(q2))
SubBag(q2, q1) == \A x \in SeqToSet(q2) : Count(x, q2) <= Count(x, q1)

----------------------------------------------------------------------------
(* Configuration *)

HasExp(c)  == c.expiry # "none"
HasRef(c)  == c.refresh # "none"
HasSize(c) == c.size # "none"
HasTime(c) == HasExp(c) \/ HasRef(c)
Tab(t, v)  == IF Len(t) = 0 THEN 0 ELSE t[(v % Len(t)) + 1]
Weight(c, v) == IF c.size = "weight" THEN Tab(c.wt, v) ELSE 1

\* duration the configured expiry calculator returns for a hook; 0 = "keep the current deadline"
ExpDur(c, hook, v) ==
    CASE c.expiry = "none"      -> 0
      [] c.expiry = "creating"  -> IF hook = "create" THEN c.e ELSE 0
      [] c.expiry = "writing"   -> IF hook = "read" THEN 0 ELSE c.e
      [] c.expiry = "accessing" -> c.e
      [] c.expiry = "custom"    -> CASE hook = "create" -> Tab(c.dc, v)
                                     [] hook = "update" -> Tab(c.du, v)
                                     [] OTHER           -> Tab(c.dr, v)
RefDur(c, hook, v) ==
    CASE c.refresh = "none"     -> 0
      [] c.refresh = "creating" -> IF hook = "create" THEN c.r ELSE 0
      [] c.refresh = "writing"  -> IF hook = "fail" THEN 0 ELSE c.r
      [] c.refresh = "custom"   -> CASE hook = "create" -> Tab(c.rc, v)
                                     [] hook = "update" -> Tab(c.ru, v)
                                     [] hook = "reload" -> Tab(c.rr, v)
                                     [] OTHER           -> Tab(c.rf, v)

----------------------------------------------------------------------------
(* State *)

Absent == [p |-> FALSE, v |-> -1, w |-> 0, exp |-> 0, ref |-> 0]
Keys(s) == 0 .. (s.cfg.nk - 1)

InitState(c, now) ==
    [cfg |-> c, now |-> now, max |-> c.max,
     ent |-> [k \in 0 .. (c.nk - 1) |-> Absent],
     st  |-> <<0, 0, 0, 0, 0, 0>>]       \* hits, misses, evictions, evictionWeight, loadOk, loadFail

Live(s, k)  == s.ent[k].p /\ Before(s.now, s.ent[k].exp)
Dead(s, k)  == s.ent[k].p /\ ~Before(s.now, s.ent[k].exp)    \* expired, not yet swept
Fresh(s, k) == Before(s.now, s.ent[k].ref)
Phys(s)     == {k \in Keys(s) : s.ent[k].p}
LiveKeys(s) == {k \in Keys(s) : Live(s, k)}
WeightOf(s, k) == s.ent[k].w
Total(s)    == LET f(k) == s.ent[k].w IN SumSet(f, Phys(s))
Cause(s, k, base) == IF Dead(s, k) THEN "Expiration" ELSE base
EvOf(s, k, base) == IF s.ent[k].p THEN <<[k |-> k, v |-> s.ent[k].v, c |-> Cause(s, k, base)]>> ELSE <<>>
EntRec(s, k) == [k |-> k, p |-> 1, v |-> s.ent[k].v, w |-> s.ent[k].w, exp |-> s.ent[k].exp, ref |-> s.ent[k].ref]

Hit(s)    == [s EXCEPT !.st[1] = @ + 1]
Miss(s)   == [s EXCEPT !.st[2] = @ + 1]
LoadOk(s) == [s EXCEPT !.st[5] = @ + 1]
LoadKo(s) == [s EXCEPT !.st[6] = @ + 1]
Remove(s, k) == [s EXCEPT !.ent[k] = Absent]

\* The entry a write installs.  cl: "none" explicit write, "load" completed load, "refresh" completed (re)load of a
\* refresh.  A write over an absent or expired entry is a creation for both calculators and inherits nothing: an
\* expired entry is absent, whether or not it has been swept (F21: the code used to consult the refresh calculator's
\* update hook and to inherit both deadlines from the dead node).
NewEntry(s, k, v, cl) ==
    LET old  == s.ent[k]
        c    == s.cfg
        created == ~Live(s, k)
        inhExp  == IF HasExp(c) /\ ~created THEN old.exp ELSE INF
        inhRef  == IF HasRef(c) /\ ~created THEN old.ref ELSE INF
        de   == ExpDur(c, IF created THEN "create" ELSE "update", v)
        rh   == IF created THEN "create" ELSE IF cl = "refresh" THEN "reload" ELSE "update"
        dr   == RefDur(c, rh, v)
    IN [p |-> TRUE, v |-> v, w |-> Weight(c, v),
        exp |-> IF HasExp(c) /\ Pos(de) THEN Plus(s.now, de) ELSE inhExp,
        ref |-> IF HasRef(c) /\ Pos(dr) THEN Plus(s.now, dr) ELSE inhRef]
Install(s, k, v, cl) == [s EXCEPT !.ent[k] = NewEntry(s, k, v, cl)]
\* (until F21 was repaired the refresh time of a write over an expired-unswept entry was accepted either way)
RefAny(s, k) == {}

\* a counted read of a live entry: read hook of the expiry calculator, hit
ReadHook(s, k) ==
    LET d == ExpDur(s.cfg, "read", s.ent[k].v)
    IN IF HasExp(s.cfg) /\ Pos(d) THEN [s EXCEPT !.ent[k].exp = Plus(s.now, d)] ELSE s
GetNode(s, k) == IF Live(s, k) THEN [s |-> Hit(ReadHook(s, k)), hit |-> TRUE]
                 ELSE [s |-> Miss(s), hit |-> FALSE]
FailHook(s, k) ==   \* reload failure: only the refresh time may move
    LET d == RefDur(s.cfg, "fail", s.ent[k].v)
    IN IF HasRef(s.cfg) /\ s.ent[k].p /\ Pos(d) THEN [s EXCEPT !.ent[k].ref = Plus(s.now, d)] ELSE s

----------------------------------------------------------------------------
(* Results.  Table writes are not applied by the step function itself: it returns them as micro-writes   *)
(* (field mw: a sequence of phases, each a set of writes on distinct keys).  The code performs the       *)
(* writes of one phase in an unspecified order and runs maintenance after each, so automatic removals    *)
(* interleave with them; RunAll below applies them without interleaving, CacheTrace!RunMW follows the    *)
(* order of the logged deletion events.                                                                  *)

O0 == [ok |-> 0, val |-> -1, err |-> "", panic |-> 0, res |-> {}, ents |-> {}, ch |-> 0, rrs |-> {},
       num |-> 0, cbs |-> <<>>, loads |-> {}, mw |-> <<>>,
       gated |-> FALSE,     \* TRUE: every phase is the completion of one loader invocation and starts after it
       early |-> FALSE,     \* TRUE: the in-flight loads of every phase start before the first phase completes
       cmp |-> {"ok", "val", "err", "panic", "cbs", "loads"}]   \* result fields that are compared
R(s, o) == [s |-> s, o |-> o]

\* t: "put" | "del" | "fail".  real: the write completes an in-flight load of a requested key; such a write is
\* dropped when the key's live value was evicted after the load started (C09; the removal of an expired entry cancels nothing, F24).  Keys a bulk loader
\* volunteered, and explicit writes, are never dropped.
MW(k, t, v, cl, real) == [k |-> k, t |-> t, v |-> v, cl |-> cl, real |-> real]
Dropped(w, evk) == w.real /\ w.t # "fail" /\ w.k \in evk
\* ... and it is also dropped when, at the moment it would be applied, the key holds a live entry other than the one the
\* load was started for: live0 = keys that were live when the operation began (their reload expects that entry), changed =
\* keys installed since then (by a loader that volunteered them)
DroppedAt(w, s, evk, live0, changed) ==
    Dropped(w, evk) \/ (w.real /\ w.t # "fail" /\ Live(s, w.k) /\ (w.k \notin live0 \/ w.k \in changed))
ExecMW(s, w) == CASE w.t = "put" -> Install(s, w.k, w.v, w.cl)
                  [] w.t = "del" -> Remove(s, w.k)
                  [] OTHER       -> FailHook(s, w.k)
EvMW(s, w)   == CASE w.t = "put" -> EvOf(s, w.k, "Replacement")
                  [] w.t = "del" -> EvOf(s, w.k, "Invalidation")
                  [] OTHER       -> <<>>
RefAnyMW(s, w) == CASE w.t = "put"  -> RefAny(s, w.k)
                    [] w.t = "fail" -> RefAny(s, w.k)
                    [] OTHER        -> {}

RECURSIVE RunAll(_, _, _)      \* apply every phase, lowest key first; returns final state and the events raised
RunAll(s, ph, evs) ==
    IF ph = <<>> THEN [s |-> s, ev |-> evs]
    ELSE IF Head(ph) = {} THEN RunAll(s, Tail(ph), evs)
    ELSE LET w == CHOOSE x \in Head(ph) : \A y \in Head(ph) : x.k <= y.k
         IN RunAll(ExecMW(s, w), <<Head(ph) \ {w}>> \o Tail(ph), evs \o EvMW(s, w))

----------------------------------------------------------------------------
(* Explicit writes and reads *)

DoSet(s, a) ==
    LET k == a.k
    IN R(s, [O0 EXCEPT !.ok = IF Live(s, k) THEN 0 ELSE 1,
                       !.val = IF Live(s, k) THEN s.ent[k].v ELSE a.v,
                       !.mw = <<{MW(k, "put", a.v, "none", FALSE)}>>])

DoSetIfAbsent(s, a) ==
    LET k == a.k
    IN IF Live(s, k)
       THEN R(ReadHook(s, k), [O0 EXCEPT !.ok = 0, !.val = s.ent[k].v])
       ELSE R(s, [O0 EXCEPT !.ok = 1, !.val = a.v, !.mw = <<{MW(k, "put", a.v, "none", FALSE)}>>])

DoGetIfPresent(s, a) ==
    LET g == GetNode(s, a.k)
    IN R(g.s, [O0 EXCEPT !.ok = IF g.hit THEN 1 ELSE 0, !.val = IF g.hit THEN s.ent[a.k].v ELSE -1])

DoGetEntry(s, a) ==
    LET g == GetNode(s, a.k)
    IN R(g.s, [O0 EXCEPT !.ok = IF g.hit THEN 1 ELSE 0, !.val = IF g.hit THEN s.ent[a.k].v ELSE -1,
                         !.ents = IF g.hit THEN {EntRec(g.s, a.k)} ELSE {},
                         !.num = IF g.hit /\ HasTime(s.cfg) THEN s.now ELSE 0,
                         !.cmp = @ \cup {"ents", "num"}])

DoGetEntryQuietly(s, a) ==
    R(s, [O0 EXCEPT !.ok = IF Live(s, a.k) THEN 1 ELSE 0, !.val = IF Live(s, a.k) THEN s.ent[a.k].v ELSE -1,
                    !.ents = IF Live(s, a.k) THEN {EntRec(s, a.k)} ELSE {},
                    !.num = IF Live(s, a.k) /\ HasTime(s.cfg) THEN s.now ELSE 0,
                    !.cmp = @ \cup {"ents", "num"}])

\* the body shared by the three compute flavours, applied after the flavour's own lookup
ComputeBody(s, k, how, v, cb) ==
    CASE how = "panic"  -> R(s, [O0 EXCEPT !.panic = 1, !.cbs = cb])
      [] how = "cancel" -> IF Dead(s, k)
                           THEN R(s, [O0 EXCEPT !.mw = <<{MW(k, "del", 0, "none", FALSE)}>>, !.cbs = cb])
                           ELSE R(s, [O0 EXCEPT !.ok = IF Live(s, k) THEN 1 ELSE 0,
                                               !.val = IF Live(s, k) THEN s.ent[k].v ELSE -1, !.cbs = cb])
      [] how = "write"  -> R(s, [O0 EXCEPT !.ok = 1, !.val = v, !.mw = <<{MW(k, "put", v, "none", FALSE)}>>, !.cbs = cb])
      [] how = "inv"    -> R(s, [O0 EXCEPT !.mw = <<{MW(k, "del", 0, "none", FALSE)}>>, !.cbs = cb])

DoCompute(s, a) ==
    LET k == a.k
        found == Live(s, k)
        cb == <<[found |-> IF found THEN 1 ELSE 0, old |-> IF found THEN s.ent[k].v ELSE -1]>>
        how == IF found THEN a.iff ELSE a.ifa
        r == ComputeBody(s, k, how, a.v, cb)
    IN IF how = "panic" THEN r ELSE R(IF found THEN Hit(r.s) ELSE Miss(r.s), r.o)

DoComputeIfAbsent(s, a) ==
    LET g == GetNode(s, a.k)
    IN IF g.hit THEN R(g.s, [O0 EXCEPT !.ok = 1, !.val = s.ent[a.k].v])
       ELSE ComputeBody(g.s, a.k, a.ifa, a.v, <<[found |-> 0, old |-> -1]>>)

DoComputeIfPresent(s, a) ==
    LET g == GetNode(s, a.k)
    IN IF ~g.hit THEN R(g.s, O0)
       ELSE ComputeBody(g.s, a.k, a.iff, a.v, <<[found |-> 1, old |-> s.ent[a.k].v]>>)

DoInvalidate(s, a) ==
    R(s, [O0 EXCEPT !.ok = IF Live(s, a.k) THEN 1 ELSE 0,
                    !.val = IF Live(s, a.k) THEN s.ent[a.k].v ELSE -1,
                    !.mw = <<{MW(a.k, "del", 0, "none", FALSE)}>>])

DoInvalidateAll(s, a) == R(s, [O0 EXCEPT !.mw = <<{MW(k, "del", 0, "none", FALSE) : k \in Phys(s)}>>])

\* per-entry deadline overrides act on live entries only (C03: never make a dead entry visible again)
DoSetExpiresAfter(s, a) ==
    IF HasExp(s.cfg) /\ Pos(a.d) /\ Live(s, a.k)
    THEN R([s EXCEPT !.ent[a.k].exp = Plus(s.now, a.d)], O0) ELSE R(s, O0)

DoSetRefreshableAfter(s, a) ==
    IF HasRef(s.cfg) /\ Pos(a.d) /\ Live(s, a.k)
    THEN R([s EXCEPT !.ent[a.k].ref = Plus(s.now, a.d)], O0) ELSE R(s, O0)

----------------------------------------------------------------------------
(* Loading.  A completed single (re)load for key k with scripted outcome ld is applied by the code inside  *)
(* the key's table computation: install, remove (not found) or - for a failed reload - move the refresh    *)
(* time only.  cl = "load" | "refresh".                                                                    *)

IsNF(ld) == ld = "nf" \/ ld = "nfw"

Finish(s, k, ld, v, cl) ==
    CASE ld = "val" -> [s |-> LoadOk(s), ph |-> {MW(k, "put", v, cl, TRUE)}]
      [] IsNF(ld)   -> [s |-> LoadOk(s), ph |-> {MW(k, "del", 0, cl, TRUE)}]
      [] OTHER      -> [s |-> LoadKo(s), ph |-> IF cl = "refresh" THEN {MW(k, "fail", 0, cl, TRUE)} ELSE {}]

\* Time may pass inside a loader (user code): the scripted loader moves the clock by a.adv units in the first invocation of an operation.
\* The lookups of the operation happen before, the installation (and the maintenance that follows it) after: deadlines are counted from
\* the later instant, and entries that were expired but unswept at the lookup may be swept meanwhile - which is not a write (finding F24).
Adv(s, a) == [s EXCEPT !.now = @ + a.adv]

DoGet(s, a) ==
    LET k == a.k
        g0 == GetNode(s, k)
        g == [g0 EXCEPT !.s = IF g0.hit /\ ~(HasRef(s.cfg) /\ ~Fresh(g0.s, k)) THEN g0.s ELSE Adv(g0.s, a)]
        stale == g.hit /\ HasRef(s.cfg) /\ ~Fresh(g0.s, k)
    IN IF g.hit /\ ~stale
       THEN R(g.s, [O0 EXCEPT !.ok = 1, !.val = s.ent[k].v])
       ELSE IF g.hit
       THEN \* serve the value cached at that moment, hand a reload to the executor (synchronous here)
            LET f == Finish(g.s, k, a.ld, a.v, "refresh")
            IN R(f.s, [O0 EXCEPT !.ok = 1, !.val = s.ent[k].v, !.mw = <<f.ph>>, !.gated = TRUE,
                                !.panic = IF a.ld = "panic" THEN 1 ELSE 0,
                                !.loads = {[fn |-> "Reload", ks |-> <<k>>, olds |-> <<s.ent[k].v>>]}])
       ELSE LET f == Finish(g.s, k, a.ld, a.v, "load")
            IN R(f.s, [O0 EXCEPT !.ok = IF a.ld = "val" THEN 1 ELSE 0,
                                !.val = IF a.ld \in {"val", "err"} THEN a.v ELSE -1,
                                !.err = CASE a.ld = "val" -> "" [] a.ld = "err" -> "err" [] IsNF(a.ld) -> "nf" [] OTHER -> "",
                                !.panic = IF a.ld = "panic" THEN 1 ELSE 0,
                                !.mw = <<f.ph>>, !.gated = TRUE,
                                !.cmp = IF a.ld \in {"val", "err"} THEN @ ELSE @ \ {"val"},
                                !.loads = {[fn |-> "Load", ks |-> <<k>>, olds |-> <<>>]}])

DoRefresh(s, a) ==
    LET k == a.k
    IN IF ~HasRef(s.cfg) THEN R(s, [O0 EXCEPT !.cmp = @ \cup {"ch"}])
       ELSE LET f == Finish(Adv(s, a), k, a.ld, a.v, "refresh")
                rr == CASE a.ld = "val" -> [k |-> k, v |-> a.v, err |-> ""]
                        [] a.ld = "err" -> [k |-> k, v |-> 0, err |-> "err"]
                        [] OTHER        -> [k |-> k, v |-> 0, err |-> "nf"]
            IN R(f.s, [O0 EXCEPT !.ch = 1, !.mw = <<f.ph>>, !.gated = TRUE,
                                !.panic = IF a.ld = "panic" THEN 1 ELSE 0,
                                !.rrs = IF a.ld = "panic" THEN {} ELSE {rr},
                                !.cmp = (@ \cup {"ch"}) \cup (IF a.ld = "panic" THEN {} ELSE {"rrs"}),
                                !.loads = IF Live(s, k)
                                          THEN {[fn |-> "Reload", ks |-> <<k>>, olds |-> <<s.ent[k].v>>]}
                                          ELSE {[fn |-> "Load", ks |-> <<k>>, olds |-> <<>>]}])

\* One bulk loader invocation for the requested key set Q, outcome (shape, supply, v): every requested key the
\* loader supplied is installed, every requested key it omitted is treated as not found (an existing entry is
\* removed), keys it volunteered are installed, an error or panic changes nothing but the refresh time of
\* reloaded entries.  cl = "load" | "refresh".
\* value the scripted bulk loader supplies for key k in its idx-th invocation within one operation
BV(s, a, k, idx) == a.v + k + (idx - 1) * s.cfg.nk
BulkCall(s, Q, a, cl, idx) ==
    IF a.shape \in {"map", "nil"}
    THEN LET sup == IF a.shape = "map" THEN SeqToSet(a.supply) \cap Keys(s) ELSE {}
         IN [s |-> LoadOk(s), ok |-> TRUE,
             ph |-> {MW(k, "put", BV(s, a, k, idx), cl, k \in Q) : k \in sup} \cup {MW(k, "del", 0, cl, TRUE) : k \in Q \ sup}]
    ELSE \* the code also applies the reload-failure hook to entries of keys a failing bulk reload volunteered;
         \* a failure wrapping the not-found sentinel ("errnf") fails the whole call like any error, but the load
         \* statistics count it as a success (as they do for a single not-found load)
         LET extra == IF a.shape \in {"err", "errnf"} THEN SeqToSet(a.supply) \cap Keys(s) ELSE {}
         IN [s |-> IF a.shape = "errnf" THEN LoadOk(s) ELSE LoadKo(s), ok |-> FALSE,
             ph |-> IF cl = "refresh" THEN {MW(k, "fail", 0, cl, TRUE) : k \in Q \cup extra} ELSE {}]

RECURSIVE Lookups(_, _, _)   \* counted lookups of BulkGet, in request order
Lookups(s, ks, acc) ==
    IF ks = <<>> THEN [s |-> s, hits |-> acc]
    ELSE LET g == GetNode(s, Head(ks))
         IN Lookups(g.s, Tail(ks), IF g.hit THEN acc \cup {Head(ks)} ELSE acc)

BulkLoadRec(fn, Q, s) == [fn |-> fn, ks |-> SetToSortedSeq(Q),
                          olds |-> IF fn = "BulkReload" THEN [i \in 1 .. Cardinality(Q) |-> s.ent[SetToSortedSeq(Q)[i]].v]
                                   ELSE <<>>]
NoCall(s) == [s |-> s, ok |-> TRUE, ph |-> {}]

DoBulkGet(s, a) ==
    LET ks == Dedup(a.ks)
        lk == Lookups(s, ks, {})
        H  == lk.hits
        M  == SeqToSet(ks) \ H
        hitv == {<<k, s.ent[k].v>> : k \in H}
        T  == {k \in H : HasRef(s.cfg) /\ ~Fresh(lk.s, k)}       \* served stale, reloaded in one bulk reload
        sA == IF T # {} \/ M # {} THEN Adv(lk.s, a) ELSE lk.s
        c1 == IF T = {} THEN NoCall(sA) ELSE BulkCall(sA, T, a, "refresh", 1)
        l1 == IF T = {} THEN {} ELSE {BulkLoadRec("BulkReload", T, lk.s)}
        p1 == T # {} /\ a.shape = "panic"
        i2 == IF T = {} THEN 1 ELSE 2
        c2 == IF M = {} \/ p1 THEN NoCall(c1.s) ELSE BulkCall(c1.s, M, a, "load", i2)
        l2 == IF M = {} \/ p1 THEN {} ELSE {BulkLoadRec("BulkLoad", M, c1.s)}
        sup == IF a.shape = "map" THEN SeqToSet(a.supply) ELSE {}
        loaded == IF M = {} \/ p1 \/ ~c2.ok THEN {} ELSE {<<k, BV(s, a, k, i2)>> : k \in M \cap sup}
        pan == p1 \/ (M # {} /\ a.shape = "panic")
    IN R(c2.s, [O0 EXCEPT !.ok = IF M # {} /\ ~p1 /\ a.shape \in {"err", "errnf"} THEN 0 ELSE 1,
                          !.err = IF M # {} /\ ~p1 /\ a.shape = "err" THEN "err" ELSE IF M # {} /\ ~p1 /\ a.shape = "errnf" THEN "nf" ELSE "",
                          !.panic = IF pan THEN 1 ELSE 0,
                          !.res = hitv \cup loaded,
                          !.mw = (IF T = {} THEN <<>> ELSE <<c1.ph>>) \o (IF M = {} \/ p1 THEN <<>> ELSE <<c2.ph>>),
                          !.gated = TRUE,
                          !.loads = l1 \cup l2,
                          !.cmp = (@ \ {"val"}) \cup (IF pan THEN {} ELSE {"res"})])

DoBulkRefresh(s, a) ==
    IF ~HasRef(s.cfg) THEN R(s, [O0 EXCEPT !.cmp = @ \cup {"ch"}])
    ELSE
    LET Q  == SeqToSet(a.ks) \cap Keys(s)
        TR == {k \in Q : Live(s, k)}          \* reloaded with their current value
        TL == Q \ TR                          \* loaded
        sA == IF Q # {} THEN Adv(s, a) ELSE s
        c1 == IF TL = {} THEN NoCall(sA) ELSE BulkCall(sA, TL, a, "refresh", 1)
        l1 == IF TL = {} THEN {} ELSE {BulkLoadRec("BulkLoad", TL, s)}
        p1 == TL # {} /\ a.shape = "panic"
        i2 == IF TL = {} THEN 1 ELSE 2
        c2 == IF TR = {} \/ p1 THEN NoCall(c1.s) ELSE BulkCall(c1.s, TR, a, "refresh", i2)
        l2 == IF TR = {} \/ p1 THEN {} ELSE {BulkLoadRec("BulkReload", TR, s)}   \* old values as read at the start
        sup == IF a.shape = "map" THEN SeqToSet(a.supply) ELSE {}
        pan == a.shape = "panic" /\ Q # {}
        rr(k) == IF a.shape = "err" THEN [k |-> k, v |-> 0, err |-> "err"]
                 ELSE IF a.shape = "errnf" THEN [k |-> k, v |-> 0, err |-> "nf"]
                 ELSE IF k \in sup THEN [k |-> k, v |-> BV(s, a, k, IF k \in TL THEN 1 ELSE i2), err |-> ""]
                 ELSE [k |-> k, v |-> 0, err |-> "nf"]
    IN R(c2.s, [O0 EXCEPT !.ch = 1, !.panic = IF pan THEN 1 ELSE 0,
                          !.rrs = IF pan THEN {} ELSE {rr(k) : k \in Q},
                          !.num = IF pan THEN 0 ELSE 1,
                          !.mw = (IF TL = {} THEN <<>> ELSE <<c1.ph>>) \o (IF TR = {} \/ p1 THEN <<>> ELSE <<c2.ph>>),
                          !.gated = TRUE, !.early = TRUE,
                          !.loads = l1 \cup l2,
                          !.cmp = (@ \cup {"ch"}) \cup (IF pan THEN {} ELSE {"rrs", "num"})])

----------------------------------------------------------------------------
(* Iteration, policy views, maintenance, clock *)

DoAll(s, a)    == R(s, [O0 EXCEPT !.res = {<<k, s.ent[k].v>> : k \in LiveKeys(s)}, !.cmp = @ \cup {"res"}])
DoKeys(s, a)   == R(s, [O0 EXCEPT !.res = {<<k, 0>> : k \in LiveKeys(s)}, !.cmp = @ \cup {"res"}])
DoValues(s, a) == R(s, [O0 EXCEPT !.res = {<<0, s.ent[k].v>> : k \in LiveKeys(s)}, !.cmp = @ \cup {"res"}])
DoOrder(s, a)  == R(s, [O0 EXCEPT !.ents = {EntRec(s, k) : k \in LiveKeys(s)}, !.cmp = @ \cup {"ents"}])

DoSetMaximum(s, a) == IF HasSize(s.cfg) THEN R([s EXCEPT !.max = a.m], O0) ELSE R(s, O0)
DoGetMaximum(s, a) == R(s, [O0 EXCEPT !.num = IF HasSize(s.cfg) THEN s.max ELSE INF, !.cmp = @ \cup {"num"}])
DoWeightedSize(s, a) == R(s, [O0 EXCEPT !.num = IF s.cfg.size = "weight" THEN Total(s) ELSE 0, !.cmp = @ \cup {"num"}])
DoEstimatedSize(s, a) == R(s, [O0 EXCEPT !.num = Cardinality(Phys(s)), !.cmp = @ \cup {"num"}])
DoIsWeighted(s, a) == R(s, [O0 EXCEPT !.num = IF s.cfg.size = "weight" THEN 1 ELSE 0, !.cmp = @ \cup {"num"}])
DoNothing(s, a) == R(s, O0)
DoAdvance(s, a) == R([s EXCEPT !.now = @ + a.d], O0)

Step(s, a) ==
    CASE a.op = "Set"                 -> DoSet(s, a)
      [] a.op = "SetIfAbsent"         -> DoSetIfAbsent(s, a)
      [] a.op = "GetIfPresent"        -> DoGetIfPresent(s, a)
      [] a.op = "GetEntry"            -> DoGetEntry(s, a)
      [] a.op = "GetEntryQuietly"     -> DoGetEntryQuietly(s, a)
      [] a.op = "Compute"             -> DoCompute(s, a)
      [] a.op = "ComputeIfAbsent"     -> DoComputeIfAbsent(s, a)
      [] a.op = "ComputeIfPresent"    -> DoComputeIfPresent(s, a)
      [] a.op = "Invalidate"          -> DoInvalidate(s, a)
      [] a.op = "InvalidateAll"       -> DoInvalidateAll(s, a)
      [] a.op = "SetExpiresAfter"     -> DoSetExpiresAfter(s, a)
      [] a.op = "SetRefreshableAfter" -> DoSetRefreshableAfter(s, a)
      [] a.op = "Get"                 -> DoGet(s, a)
      [] a.op = "BulkGet"             -> DoBulkGet(s, a)
      [] a.op = "Refresh"             -> DoRefresh(s, a)
      [] a.op = "BulkRefresh"         -> DoBulkRefresh(s, a)
      [] a.op = "All"                 -> DoAll(s, a)
      [] a.op = "Keys"                -> DoKeys(s, a)
      [] a.op = "Values"              -> DoValues(s, a)
      [] a.op \in {"Hottest", "Coldest"} -> DoOrder(s, a)
      [] a.op = "SetMaximum"          -> DoSetMaximum(s, a)
      [] a.op = "GetMaximum"          -> DoGetMaximum(s, a)
      [] a.op = "WeightedSize"        -> DoWeightedSize(s, a)
      [] a.op = "EstimatedSize"       -> DoEstimatedSize(s, a)
      [] a.op = "IsWeighted"          -> DoIsWeighted(s, a)
      [] a.op \in {"CleanUp", "Stats", "SaveLoad"} -> DoNothing(s, a)
      [] a.op = "Advance"             -> DoAdvance(s, a)

----------------------------------------------------------------------------
(* Automatic removals: environment steps, enabled only when justified (C07). *)

OverflowOK(s, k, v) ==
    /\ HasSize(s.cfg) /\ k \in Keys(s) /\ s.ent[k].p /\ s.ent[k].v = v
    /\ s.ent[k].w > 0
    /\ (Total(s) > s.max \/ s.ent[k].w > s.max)
ExpireOK(s, k, v) ==
    /\ HasExp(s.cfg) /\ k \in Keys(s) /\ s.ent[k].p /\ s.ent[k].v = v
    /\ Dead(s, k)
AutoOK(s, ev) == \/ (ev.c = "Overflow" /\ OverflowOK(s, ev.k, ev.v))
                 \/ (ev.c = "Expiration" /\ ExpireOK(s, ev.k, ev.v))
Auto(s, ev) == [Remove(s, ev.k) EXCEPT !.st[3] = @ + 1, !.st[4] = @ + s.ent[ev.k].w]

\* size bound, as restored by every maintenance run (C04, sequential form)
BoundOK(s) == HasSize(s.cfg) => (Total(s) <= s.max /\ \A k \in Phys(s) : s.ent[k].w <= s.max)

----------------------------------------------------------------------------
(* Persistence (C19): what a cache loaded at clock now2 with maximum max2 from a snapshot of s may contain. *)
(* tgt: function key -> entry record with fields p (0/1), v, w, exp, ref.                                   *)

Eligible(s, now2) == {k \in LiveKeys(s) : Before(now2, s.ent[k].exp)}
LoadedOK(s, k, t, now2) ==
    /\ k \in Eligible(s, now2)
    /\ t.v = s.ent[k].v /\ t.w = s.ent[k].w
    /\ t.exp = s.ent[k].exp
    /\ IF Before(now2, s.ent[k].ref) THEN t.ref = s.ent[k].ref
       ELSE ~Before(now2 + 1, t.ref)            \* already due: loaded as due
SaveLoadDevs(s, tgt, now2, max2) ==
    LET E == Eligible(s, now2)
        P == {k \in Keys(s) : tgt[k].p = 1}
        f(k) == s.ent[k].w
        fits == ~HasSize(s.cfg) \/ SumSet(f, E) <= max2
        g(k) == tgt[k].w
    IN  [k \in {x \in P : ~LoadedOK(s, x, tgt[x], now2)} |-> "loaded-entry"]
        @@ [k \in (IF fits THEN E \ P ELSE {}) |-> "missing-entry"]
        @@ [k \in (IF HasSize(s.cfg) /\ SumSet(g, P) > max2 THEN {-1} ELSE {}) |-> "target-over-maximum"]
=============================================================================
