-------------------------------- MODULE CLHT --------------------------------
(***************************************************************************)
(* The CLHT-style concurrent table of internal/hashmap/map.go at the       *)
(* granularity of its shared accesses (labels = verifhook points):         *)
(*   - per-root-bucket mutex, S slots + meta word per bucket node, chain   *)
(*     of overflow nodes;                                                  *)
(*   - lock-free Get: table pointer, then per node the meta word           *)
(*     (get.ldMeta), then the pointer of each matching slot (get.ldNode),  *)
(*     key re-check, next node (get.ldNext);                               *)
(*   - Compute: lock the root bucket (cp.lock), re-check the resize flag   *)
(*     and the table identity (cp.locked), scan; insert = meta then        *)
(*     pointer (cp.insNode), delete = meta then pointer (cp.delNode),      *)
(*     replace = pointer (cp.replNode), chain extension (cp.link);         *)
(*   - resize: flag (rs.casFlag), copy bucket by bucket under the source   *)
(*     lock (rs.copy), publish (rs.publish), clear the flag; the new       *)
(*     table's counter is the number of copied nodes.                      *)
(*                                                                         *)
(* abs is the abstract map; writers update it at their linearisation       *)
(* step.  C15:                                                             *)
(*   GetOK   - a Get returns a value (or absence) that the key had at      *)
(*             some moment between its call and its return;                *)
(*   Agree   - at quiescence the current table holds exactly abs, each     *)
(*             key once;   SizeOK - the counter equals the number of keys. *)
(* Recheck = FALSE drops the table-identity re-check after locking (a      *)
(* lost insert into a retired table); the instance must then fail.         *)
(*                                                                         *)
(* Clear() is a resize with the clear hint: no copy, no bucket locks.  It  *)
(* linearises at the publication of the empty table; a writer that has     *)
(* passed its checks in the old table is thereby ordered BEFORE the clear  *)
(* (its write is lost, `lost`).  ClearOK: when Clear returns, every value  *)
(* present was written after Clear was called.  ClearRetries = FALSE is    *)
(* the code before the fix (a Clear that finds the resize flag taken waits *)
(* and returns without clearing): ClearOK must then fail.                  *)
(***************************************************************************)
EXTENDS Integers, Sequences, FiniteSets, TLC

CONSTANTS Keys, S, H2, B2,       \* H2[k]: meta byte of k; B2[k] in {0,1}: root bucket of k in a 2-bucket table
          Writers, Prog,         \* Prog[w]: sequence of <<"put"|"del", key>>
          Getters, GProg,        \* GProg[g]: sequence of keys
          Resizers, MaxTables, Recheck,
          Clearers, ClearRetries \* Clear() callers (one call each); ClearRetries = FALSE: the code before the fix

NIL == <<0, 0>>
E == 0
Procs == Writers \cup Getters \cup Resizers \cup Clearers

VARIABLES tabs, cur, resizing, abs, ps, ver, bad
vars == <<tabs, cur, resizing, abs, ps, ver, bad>>

EmptyNode == [meta |-> [i \in 1 .. S |-> E], ptr |-> [i \in 1 .. S |-> NIL]]
NewTable(nb) == [nb |-> nb, chain |-> [r \in 0 .. (nb - 1) |-> <<EmptyNode>>], lk |-> [r \in 0 .. (nb - 1) |-> FALSE], size |-> 0]
Root(t, k) == IF tabs[t].nb = 1 THEN 0 ELSE B2[k]
KeyOf(p) == p[1]

\* position <<bi, i>> of key k in chain c, or <<0, 0>>
Find(c, k) == IF \E bi \in DOMAIN c, i \in 1 .. S : c[bi].ptr[i] # NIL /\ KeyOf(c[bi].ptr[i]) = k
              THEN CHOOSE pos \in (DOMAIN c) \X (1 .. S) : c[pos[1]].ptr[pos[2]] # NIL /\ KeyOf(c[pos[1]].ptr[pos[2]]) = k
              ELSE <<0, 0>>
FirstEmpty(c) == IF \E bi \in DOMAIN c, i \in 1 .. S : c[bi].meta[i] = E
                 THEN CHOOSE pos \in (DOMAIN c) \X (1 .. S) :
                         /\ c[pos[1]].meta[pos[2]] = E
                         /\ \A q \in (DOMAIN c) \X (1 .. S) : c[q[1]].meta[q[2]] = E => (q[1] > pos[1] \/ (q[1] = pos[1] /\ q[2] >= pos[2]))
                 ELSE <<0, 0>>
\* appendToBucket: first slot whose pointer is nil, else a new node
RECURSIVE AppendTo(_, _, _)
AppendTo(c, h, p) ==
    IF \E bi \in DOMAIN c, i \in 1 .. S : c[bi].ptr[i] = NIL
    THEN LET pos == CHOOSE q \in (DOMAIN c) \X (1 .. S) :
                        /\ c[q[1]].ptr[q[2]] = NIL
                        /\ \A r \in (DOMAIN c) \X (1 .. S) : c[r[1]].ptr[r[2]] = NIL => (r[1] > q[1] \/ (r[1] = q[1] /\ r[2] >= q[2]))
         IN [c EXCEPT ![pos[1]].meta[pos[2]] = h, ![pos[1]].ptr[pos[2]] = p]
    ELSE Append(c, [EmptyNode EXCEPT !.meta[1] = h, !.ptr[1] = p])

Idle == [pc |-> "idle", n |-> 1]
Init == /\ tabs = <<NewTable(1)>> /\ cur = 1 /\ resizing = FALSE
        /\ abs = [k \in Keys |-> NIL] /\ ver = 0 /\ bad = FALSE
        /\ ps = [p \in Procs |-> Idle]

SetAbs(k, v) == /\ abs' = [abs EXCEPT ![k] = v]
                \* every Get of k in flight may have observed the new value
                /\ TRUE
Seen(pstate, k, v) == IF pstate.pc \in {"g_ldMeta", "g_ldNode", "g_ldNext"} /\ pstate.k = k
                      THEN [pstate EXCEPT !.seen = @ \cup {v}] ELSE pstate
WithAbs(newps, k, v) == [p \in Procs |-> Seen(newps[p], k, v)]
\* a write that a Clear ordered before itself: only readers of the same (old) table can observe it
WithAbsT(newps, k, v, t) == [p \in Procs |-> IF "t" \in DOMAIN newps[p] /\ newps[p].t = t THEN Seen(newps[p], k, v) ELSE newps[p]]
IsLost(st) == "lost" \in DOMAIN st /\ st.lost

----------------------------------------------------------------------------
(* Getter *)
GStart(g) == /\ ps[g].pc = "idle" /\ ps[g].n <= Len(GProg[g])
             /\ LET k == GProg[g][ps[g].n]
                IN ps' = [ps EXCEPT ![g] = [pc |-> "g_ldMeta", n |-> ps[g].n, k |-> k, t |-> cur, bi |-> 1, cand |-> <<>>, seen |-> {abs[k]}]]
             /\ UNCHANGED <<tabs, cur, resizing, abs, ver, bad>>
GLdMeta(g) == /\ ps[g].pc = "g_ldMeta"
              /\ LET st == ps[g]
                     nd == tabs[st.t].chain[Root(st.t, st.k)][st.bi]
                     cand == SelectSeq(<<1, 2, 3, 4, 5>>, LAMBDA i : i <= S /\ nd.meta[i] = H2[st.k])
                 IN ps' = [ps EXCEPT ![g].pc = "g_ldNode", ![g].cand = cand]
              /\ UNCHANGED <<tabs, cur, resizing, abs, ver, bad>>
GReturn(g, r) == /\ bad' = (bad \/ r \notin ps[g].seen)
                 /\ ps' = [ps EXCEPT ![g] = [pc |-> "idle", n |-> ps[g].n + 1]]
GLdNode(g) == /\ ps[g].pc = "g_ldNode"
              /\ LET st == ps[g] IN
                 IF st.cand = <<>> THEN ps' = [ps EXCEPT ![g].pc = "g_ldNext"] /\ UNCHANGED bad
                 ELSE LET p == tabs[st.t].chain[Root(st.t, st.k)][st.bi].ptr[Head(st.cand)]
                      IN IF p # NIL /\ KeyOf(p) = st.k THEN GReturn(g, p)
                         ELSE ps' = [ps EXCEPT ![g].cand = Tail(st.cand)] /\ UNCHANGED bad
              /\ UNCHANGED <<tabs, cur, resizing, abs, ver>>
GLdNext(g) == /\ ps[g].pc = "g_ldNext"
              /\ LET st == ps[g] IN
                 IF st.bi < Len(tabs[st.t].chain[Root(st.t, st.k)])
                 THEN ps' = [ps EXCEPT ![g].pc = "g_ldMeta", ![g].bi = st.bi + 1] /\ UNCHANGED bad
                 ELSE GReturn(g, NIL)
              /\ UNCHANGED <<tabs, cur, resizing, abs, ver>>

----------------------------------------------------------------------------
(* Writer (Compute) *)
WStart(w) == /\ ps[w].pc = "idle" /\ ps[w].n <= Len(Prog[w])
             /\ ps' = [ps EXCEPT ![w] = [pc |-> "cp_lock", n |-> ps[w].n, kind |-> Prog[w][ps[w].n][1], k |-> Prog[w][ps[w].n][2],
                                         t |-> cur, pos |-> <<0, 0>>, lost |-> FALSE]]
             /\ UNCHANGED <<tabs, cur, resizing, abs, ver, bad>>
WLock(w) == /\ ps[w].pc = "cp_lock"
            /\ LET st == ps[w] r == Root(st.t, st.k) IN
               /\ ~tabs[st.t].lk[r]
               /\ tabs' = [tabs EXCEPT ![st.t].lk[r] = TRUE]
               /\ ps' = [ps EXCEPT ![w].pc = "cp_locked"]
            /\ UNCHANGED <<cur, resizing, abs, ver, bad>>
Unlock(tb, t, r) == [tb EXCEPT ![t].lk[r] = FALSE]
Done(w) == [pc |-> "idle", n |-> ps[w].n + 1]
WLocked(w) ==
    /\ ps[w].pc = "cp_locked"
    /\ LET st == ps[w] r == Root(st.t, st.k) c == tabs[st.t].chain[r] IN
       IF resizing THEN /\ tabs' = Unlock(tabs, st.t, r) /\ ps' = [ps EXCEPT ![w].pc = "cp_wait"] /\ UNCHANGED <<abs, ver>>
       ELSE IF Recheck /\ cur # st.t THEN /\ tabs' = Unlock(tabs, st.t, r) /\ ps' = [ps EXCEPT ![w].pc = "cp_lock", ![w].t = cur] /\ UNCHANGED <<abs, ver>>
       ELSE LET f == Find(c, st.k) e == FirstEmpty(c) IN
            CASE f # <<0, 0>> /\ st.kind = "del" -> /\ ps' = [ps EXCEPT ![w].pc = "cp_delMeta", ![w].pos = f] /\ UNCHANGED <<tabs, abs, ver>>
              [] f # <<0, 0>> /\ st.kind = "put" -> /\ ps' = [ps EXCEPT ![w].pc = "cp_replNode", ![w].pos = f] /\ UNCHANGED <<tabs, abs, ver>>
              [] f = <<0, 0>> /\ st.kind = "del" -> /\ tabs' = Unlock(tabs, st.t, r) /\ ps' = [ps EXCEPT ![w] = Done(w)] /\ UNCHANGED <<abs, ver>>
              [] f = <<0, 0>> /\ st.kind = "put" /\ e # <<0, 0>> -> /\ ps' = [ps EXCEPT ![w].pc = "cp_insMeta", ![w].pos = e] /\ UNCHANGED <<tabs, abs, ver>>
              [] OTHER -> /\ ps' = [ps EXCEPT ![w].pc = "cp_link"] /\ UNCHANGED <<tabs, abs, ver>>
    /\ UNCHANGED <<cur, resizing, bad>>
WWait(w) == /\ ps[w].pc = "cp_wait" /\ ~resizing
            /\ ps' = [ps EXCEPT ![w].pc = "cp_lock", ![w].t = cur]
            /\ UNCHANGED <<tabs, cur, resizing, abs, ver, bad>>
WDelMeta(w) == /\ ps[w].pc = "cp_delMeta"
               /\ LET st == ps[w] r == Root(st.t, st.k) IN
                  /\ tabs' = [tabs EXCEPT ![st.t].chain[r][st.pos[1]].meta[st.pos[2]] = E]
                  /\ abs' = IF IsLost(st) THEN abs ELSE [abs EXCEPT ![st.k] = NIL]
                  /\ ps' = IF IsLost(st) THEN WithAbsT([ps EXCEPT ![w].pc = "cp_delNode"], st.k, NIL, st.t)
                            ELSE WithAbs([ps EXCEPT ![w].pc = "cp_delNode"], st.k, NIL)
               /\ UNCHANGED <<cur, resizing, ver, bad>>
WDelNode(w) == /\ ps[w].pc = "cp_delNode"
               /\ LET st == ps[w] r == Root(st.t, st.k) IN
                  /\ tabs' = [Unlock(tabs, st.t, r) EXCEPT ![st.t].chain[r][st.pos[1]].ptr[st.pos[2]] = NIL]
                  /\ ps' = [ps EXCEPT ![w].pc = "cp_decSize"]
               /\ UNCHANGED <<cur, resizing, abs, ver, bad>>
WDecSize(w) == /\ ps[w].pc = "cp_decSize"
               /\ tabs' = [tabs EXCEPT ![ps[w].t].size = @ - 1]
               /\ ps' = [ps EXCEPT ![w] = Done(w)]
               /\ UNCHANGED <<cur, resizing, abs, ver, bad>>
WReplNode(w) == /\ ps[w].pc = "cp_replNode"
                /\ LET st == ps[w] r == Root(st.t, st.k) nv == <<st.k, ver + 1>> IN
                   /\ tabs' = [Unlock(tabs, st.t, r) EXCEPT ![st.t].chain[r][st.pos[1]].ptr[st.pos[2]] = nv]
                   /\ abs' = (IF IsLost(st) THEN abs ELSE [abs EXCEPT ![st.k] = nv]) /\ ver' = ver + 1
                   /\ ps' = IF IsLost(st) THEN WithAbsT([ps EXCEPT ![w] = Done(w)], st.k, nv, st.t) ELSE WithAbs([ps EXCEPT ![w] = Done(w)], st.k, nv)
                /\ UNCHANGED <<cur, resizing, bad>>
WInsMeta(w) == /\ ps[w].pc = "cp_insMeta"
               /\ LET st == ps[w] r == Root(st.t, st.k) IN
                  /\ tabs' = [tabs EXCEPT ![st.t].chain[r][st.pos[1]].meta[st.pos[2]] = H2[st.k]]
                  /\ ps' = [ps EXCEPT ![w].pc = "cp_insNode"]
               /\ UNCHANGED <<cur, resizing, abs, ver, bad>>
WInsNode(w) == /\ ps[w].pc = "cp_insNode"
               /\ LET st == ps[w] r == Root(st.t, st.k) nv == <<st.k, ver + 1>> IN
                  /\ tabs' = [Unlock(tabs, st.t, r) EXCEPT ![st.t].chain[r][st.pos[1]].ptr[st.pos[2]] = nv]
                  /\ abs' = (IF IsLost(st) THEN abs ELSE [abs EXCEPT ![st.k] = nv]) /\ ver' = ver + 1
                  /\ ps' = IF IsLost(st) THEN WithAbsT([ps EXCEPT ![w].pc = "cp_incSize"], st.k, nv, st.t) ELSE WithAbs([ps EXCEPT ![w].pc = "cp_incSize"], st.k, nv)
               /\ UNCHANGED <<cur, resizing, bad>>
WLink(w) == /\ ps[w].pc = "cp_link"
            /\ LET st == ps[w] r == Root(st.t, st.k) nv == <<st.k, ver + 1>> IN
               /\ tabs' = [Unlock(tabs, st.t, r) EXCEPT ![st.t].chain[r] = Append(@, [EmptyNode EXCEPT !.meta[1] = H2[st.k], !.ptr[1] = nv])]
               /\ abs' = (IF IsLost(st) THEN abs ELSE [abs EXCEPT ![st.k] = nv]) /\ ver' = ver + 1
               /\ ps' = IF IsLost(st) THEN WithAbsT([ps EXCEPT ![w].pc = "cp_incSize"], st.k, nv, st.t) ELSE WithAbs([ps EXCEPT ![w].pc = "cp_incSize"], st.k, nv)
            /\ UNCHANGED <<cur, resizing, bad>>
WIncSize(w) == /\ ps[w].pc = "cp_incSize"
               /\ tabs' = [tabs EXCEPT ![ps[w].t].size = @ + 1]
               /\ ps' = [ps EXCEPT ![w] = Done(w)]
               /\ UNCHANGED <<cur, resizing, abs, ver, bad>>

----------------------------------------------------------------------------
(* Resizer: grow 1 -> 2 buckets, shrink 2 -> 1, ... *)
RStart(r) == /\ ps[r].pc = "idle" /\ Len(tabs) < MaxTables /\ ~resizing
             /\ resizing' = TRUE
             /\ ps' = [ps EXCEPT ![r] = [pc |-> "rs_ldTable", n |-> ps[r].n]]
             /\ UNCHANGED <<tabs, cur, abs, ver, bad>>
RLdTable(r) == /\ ps[r].pc = "rs_ldTable"
               /\ tabs' = Append(tabs, NewTable(IF tabs[cur].nb = 1 THEN 2 ELSE 1))
               /\ ps' = [ps EXCEPT ![r] = [pc |-> "rs_copy", n |-> ps[r].n, t |-> cur, nt |-> Len(tabs) + 1, i |-> 0]]
               /\ UNCHANGED <<cur, resizing, abs, ver, bad>>
RECURSIVE CopyNodes(_, _, _)
CopyNodes(tb, nt, nodes) ==        \* nodes: sequence of node pointers of one source bucket, in slot order
    IF nodes = <<>> THEN tb
    ELSE LET p == Head(nodes)
             k == KeyOf(p)
             r == IF tb[nt].nb = 1 THEN 0 ELSE B2[k]
         IN CopyNodes([tb EXCEPT ![nt].chain[r] = AppendTo(@, H2[k], p), ![nt].size = @ + 1], nt, Tail(nodes))
RECURSIVE NodesOf(_, _)
NodesOf(c, bi) == IF bi > Len(c) THEN <<>>
                  ELSE SelectSeq([i \in 1 .. S |-> c[bi].ptr[i]], LAMBDA p : p # NIL) \o NodesOf(c, bi + 1)
RCopy(r) == /\ ps[r].pc = "rs_copy"
            /\ LET st == ps[r] IN
               IF st.i >= tabs[st.t].nb THEN ps' = [ps EXCEPT ![r].pc = "rs_publish"] /\ UNCHANGED tabs
               ELSE /\ ~tabs[st.t].lk[st.i]          \* source bucket lock: taken and released within the step
                    /\ tabs' = CopyNodes(tabs, st.nt, NodesOf(tabs[st.t].chain[st.i], 1))
                    /\ ps' = [ps EXCEPT ![r].i = st.i + 1]
            /\ UNCHANGED <<cur, resizing, abs, ver, bad>>
RPublish(r) == /\ ps[r].pc = "rs_publish"
               /\ cur' = ps[r].nt
               /\ ps' = [ps EXCEPT ![r].pc = "rs_clearFlag"]
               /\ UNCHANGED <<tabs, resizing, abs, ver, bad>>
RClear(r) == /\ ps[r].pc = "rs_clearFlag"
             /\ resizing' = FALSE
             /\ ps' = [ps EXCEPT ![r] = [pc |-> "idle", n |-> ps[r].n + 1]]
             /\ UNCHANGED <<tabs, cur, abs, ver, bad>>

----------------------------------------------------------------------------
(* Clearer: Clear() = resize(table, clear hint) *)
PastChecks == {"cp_delMeta", "cp_replNode", "cp_insMeta", "cp_insNode", "cp_link"}
CStart(c) == /\ ps[c].pc = "idle" /\ ps[c].n = 1 /\ Len(tabs) < MaxTables
             /\ IF resizing THEN /\ ps' = [ps EXCEPT ![c] = [pc |-> "cl_wait", n |-> 1, v0 |-> ver]] /\ UNCHANGED resizing
                ELSE /\ resizing' = TRUE /\ ps' = [ps EXCEPT ![c] = [pc |-> "cl_ldTable", n |-> 1, v0 |-> ver]]
             /\ UNCHANGED <<tabs, cur, abs, ver, bad>>
\* returning from Clear: every value present must have been written after the call
CReturn(c) == ps' = [ps EXCEPT ![c] = [pc |-> "idle", n |-> 2, ok |-> ~\E k \in Keys : abs[k] # NIL /\ abs[k][2] <= ps[c].v0]]
CWait(c) == /\ ps[c].pc = "cl_wait" /\ ~resizing
            /\ IF ClearRetries
               THEN /\ resizing' = TRUE /\ ps' = [ps EXCEPT ![c].pc = "cl_ldTable"]
               ELSE CReturn(c) /\ UNCHANGED resizing
            /\ UNCHANGED <<tabs, cur, abs, ver, bad>>
CLdTable(c) == /\ ps[c].pc = "cl_ldTable"
               /\ tabs' = Append(tabs, NewTable(1))
               /\ ps' = [ps EXCEPT ![c] = [pc |-> "cl_publish", n |-> 1, v0 |-> ps[c].v0, nt |-> Len(tabs) + 1]]
               /\ UNCHANGED <<cur, resizing, abs, ver, bad>>
CPublish(c) == /\ ps[c].pc = "cl_publish"
               /\ cur' = ps[c].nt
               /\ abs' = [k \in Keys |-> NIL]
               /\ ps' = [p \in Procs |->
                            IF p = c THEN [ps[c] EXCEPT !.pc = "cl_clearFlag"]
                            ELSE IF p \in Writers /\ ps[p].pc \in PastChecks THEN [ps[p] EXCEPT !.lost = TRUE]
                            ELSE IF ps[p].pc \in {"g_ldMeta", "g_ldNode", "g_ldNext"} THEN [ps[p] EXCEPT !.seen = @ \cup {NIL}]
                            ELSE ps[p]]
               /\ UNCHANGED <<tabs, resizing, ver, bad>>
CClearFlag(c) == /\ ps[c].pc = "cl_clearFlag"
                 /\ resizing' = FALSE
                 /\ CReturn(c)
                 /\ UNCHANGED <<tabs, cur, abs, ver, bad>>

Next == \/ \E c \in Clearers : CStart(c) \/ CWait(c) \/ CLdTable(c) \/ CPublish(c) \/ CClearFlag(c)
        \/ \E g \in Getters : GStart(g) \/ GLdMeta(g) \/ GLdNode(g) \/ GLdNext(g)
        \/ \E w \in Writers : WStart(w) \/ WLock(w) \/ WLocked(w) \/ WWait(w) \/ WDelMeta(w) \/ WDelNode(w) \/ WDecSize(w)
                              \/ WReplNode(w) \/ WInsMeta(w) \/ WInsNode(w) \/ WLink(w) \/ WIncSize(w)
        \/ \E r \in Resizers : RStart(r) \/ RLdTable(r) \/ RCopy(r) \/ RPublish(r) \/ RClear(r)
Spec == Init /\ [][Next]_vars

----------------------------------------------------------------------------
GetOK == ~bad
ClearOK == \A c \in Clearers : "ok" \in DOMAIN ps[c] => ps[c].ok
Quiescent == /\ \A p \in Procs : ps[p].pc = "idle"
             /\ \A w \in Writers : ps[w].n > Len(Prog[w])
             /\ \A g \in Getters : ps[g].n > Len(GProg[g])
             /\ \A c \in Clearers : ps[c].n > 1
AllNodes(t) == UNION {{tabs[t].chain[r][bi].ptr[i] : bi \in DOMAIN tabs[t].chain[r], i \in 1 .. S} : r \in 0 .. (tabs[t].nb - 1)} \ {NIL}
Lookup(t, k) == LET f == Find(tabs[t].chain[Root(t, k)], k)
                IN IF f = <<0, 0>> THEN NIL ELSE tabs[t].chain[Root(t, k)][f[1]].ptr[f[2]]
Agree == Quiescent => /\ \A k \in Keys : Lookup(cur, k) = abs[k]
                      /\ AllNodes(cur) = {abs[k] : k \in Keys} \ {NIL}
                      /\ \A k \in Keys : Cardinality({p \in AllNodes(cur) : KeyOf(p) = k}) <= 1
SizeOK == Quiescent => tabs[cur].size = Cardinality({k \in Keys : abs[k] # NIL})
NoLockLeft == Quiescent => \A t \in DOMAIN tabs : \A r \in 0 .. (tabs[t].nb - 1) : ~tabs[t].lk[r]
\* a key in the meta word of the right bucket implies consistent h2 (meta is written before the pointer)
MetaBeforePtr == \A t \in DOMAIN tabs : \A r \in 0 .. (tabs[t].nb - 1) : \A bi \in DOMAIN tabs[t].chain[r] : \A i \in 1 .. S :
                    LET nd == tabs[t].chain[r][bi] IN
                    (nd.ptr[i] # NIL /\ nd.meta[i] # E) => nd.meta[i] = H2[KeyOf(nd.ptr[i])]
=============================================================================
