------------------------------ MODULE WRAudit ------------------------------
(***************************************************************************)
(* Judges audit records written by harness/otter/verif_wr_test.go after    *)
(* the real cache reached quiescence and maintenance ran: the terminal     *)
(* predicates of WriteReplay.tla (Agree, Bound, Once) restated over the    *)
(* LOGGED real state - table, three deques with running totals, timer      *)
(* wheel, public derived views, deletion events.                           *)
(*   C05 Agree*   C04 Bound*   C06 Cons*                                   *)
(* Deterministic fold: one record per step; failed predicates are          *)
(* collected (record index, predicate, detail) and written as JSON.        *)
(***************************************************************************)
EXTENDS Integers, Sequences, FiniteSets, TLC, Json, IOUtils

Recs == ndJsonDeserialize(IOEnv.VERIF_TRACE)

VARIABLES i, dev
vars == <<i, dev>>

SeqToSet(q) == {q[j] : j \in DOMAIN q}
RECURSIVE SumSeq(_, _)
SumSeq(f(_), q) == IF q = <<>> THEN 0 ELSE f(Head(q)) + SumSeq(f, Tail(q))
Count(P(_), q) == Cardinality({j \in DOMAIN q : P(q[j])})
MaxOfSeq(q) == CHOOSE m \in {q[j] : j \in DOMAIN q} : \A j \in DOMAIN q : q[j] <= m
F(idx, name, detail) == [rec |-> idx, pred |-> name, detail |-> ToString(detail)]

Check(r, idx) ==
    LET nodes  == r.nodes
        hasSize == r.sc.size # "none"
        hasExp  == r.sc.expiry = 1
        mapped == SelectSeq(nodes, LAMBDA n : n.mapped > 0)
        w(n) == n.w
        one(n) == 1
        inq(n) == n.inwin + n.inprob + n.inprot
        sumMapped == SumSeq(w, mapped)
        sumWin  == SumSeq(w, SelectSeq(nodes, LAMBDA n : n.inwin > 0))
        sumProt == SumSeq(w, SelectSeq(nodes, LAMBDA n : n.inprot > 0))
        allKeys == {r.all[j].k : j \in DOMAIN r.all}
        \* ---- C05
        a1 == {n \in SeqToSet(nodes) : (n.state = "alive") # (n.mapped > 0)}
        a2 == {n \in SeqToSet(nodes) : n.mapped > 1 \/ inq(n) > 1 \/ n.inwheel > 1}
        a3 == IF hasSize THEN {n \in SeqToSet(nodes) : (n.mapped > 0) # (inq(n) = 1)} ELSE {}
        a4 == IF hasExp THEN {n \in SeqToSet(nodes) : (n.mapped > 0) # (n.inwheel = 1)} ELSE {}
        a5 == IF hasSize THEN {n \in SeqToSet(nodes) : inq(n) = 1 /\ ~((n.inwin = 1 /\ n.qtype = 0) \/ (n.inprob = 1 /\ n.qtype = 1) \/ (n.inprot = 1 /\ n.qtype = 2))} ELSE {}
        keysOf(q) == {q[j] : j \in DOMAIN q}
        \* ---- C06
        evA == SelectSeq(r.events, LAMBDA e : e.h = "A")
        evD == SelectSeq(r.events, LAMBDA e : e.h = "D")
        valsA == [j \in DOMAIN evA |-> <<evA[j].k, evA[j].v, evA[j].c>>]
        valsD == [j \in DOMAIN evD |-> <<evD[j].k, evD[j].v, evD[j].c>>]
        written == {<<r.writes[j].k, r.writes[j].v>> : j \in DOMAIN r.writes}
        present == {<<r.all[j].k, r.all[j].v>> : j \in DOMAIN r.all}
        reported == {<<evA[j].k, evA[j].v>> : j \in DOMAIN evA}
        posA(k, v) == CHOOSE j \in DOMAIN evA : evA[j].k = k /\ evA[j].v = v
    IN
    (IF r.diag # "" THEN <<F(idx, "run.diag", r.diag)>> ELSE <<>>)
    \* the code under test panicked inside a goroutine the cache started (maintenance): the policy structures are corrupt and,
    \* with the eviction mutex never released, neither the bound nor the notifications are maintained any more
    \o (IF r.libpanic # "" THEN <<F(idx, "C05.abnormal_end", r.libpanic), F(idx, "C04.abnormal_end", r.libpanic), F(idx, "C06.abnormal_end", r.libpanic)>> ELSE <<>>)
    \* C16, cache level: one producer, one key, same-goroutine executor - its events are replayed in the order it submitted them,
    \* so the values it overwrote / removed are reported to OnDeletion in the order it wrote them (also across a buffer overflow)
    \o (IF r.libpanic = "" /\ r.sc.writers = 1 /\ r.sc.keys = 1 /\ r.sc.syncexec = 1 /\ r.sc.invall = 0 /\ r.sc.setmax = <<>>
           /\ \E a, b \in DOMAIN evD : a < b /\ evD[a].v > evD[b].v /\ evD[a].c \in {"Replacement", "Invalidation"} /\ evD[b].c \in {"Replacement", "Invalidation"}
        THEN <<F(idx, "C16.producer_order", [j \in DOMAIN evD |-> evD[j].v])>> ELSE <<>>)
    \* C17, cache level: the read buffer has ONE consumer at a time (the holder of the eviction mutex); after the final clean-up
    \* of a quiescent cache every recorded read has been delivered
    \o (IF r.libpanic = "" /\ r.rbuf # 0 THEN <<F(idx, "C17.read_buffer_not_drained", r.rbuf)>> ELSE <<>>)
    \* C07, concurrent form: a cache that never exceeds its maximum loses nothing to size eviction
    \* (weighted caches too: every key at its heaviest still fits - there the policy's running total can go below zero when a key's delete
    \* event is applied before its add event, finding F25)
    \o (IF hasSize /\ ((r.sc.size = "count" /\ r.sc.keys <= r.sc.max)
                       \/ (r.sc.size = "weight" /\ r.sc.wt # <<>> /\ r.sc.keys * MaxOfSeq(r.sc.wt) <= r.sc.max))
           /\ r.sc.setmax = <<>> /\ r.sc.stale = 0 /\ r.sc.smallbuf = 0
           /\ \E j \in DOMAIN evA : evA[j].c = "Overflow"
        THEN <<F(idx, "C07.overflow_within_maximum", <<r.sc.keys, r.sc.max, evA>>)>> ELSE <<>>)
    \* C16: "no cache write is forgotten by the policies" - after a write-only phase of a single producer with a same-goroutine executor, in
    \* which user code (the deletion handler) once wrote from inside a maintenance run, the events of the later writes have been consumed
    \* (a few may wait for the next call by design; a buffer that kept (almost) all of them has lost its consumer: seeded C16l)
    \o (IF r.sc.hwrite = 1 /\ r.sc.syncexec = 1 /\ r.prewbuf >= 10 THEN <<F(idx, "C16.events_stranded_after_write_only_phase", <<r.prewbuf, r.sc.ops>>)>> ELSE <<>>)
    \o (IF r.status # 0 \/ r.wbuf # 0 THEN <<F(idx, "C14.pending", <<r.status, r.wbuf>>)>> ELSE <<>>)
    \* C14: every call had returned, the cache reported no outstanding maintenance (status idle, write buffer empty), the policy's total
    \* was above its maximum - and one explicit CleanUp brought it back: the bound was restored only by a further call
    \o (IF r.preidle = 1 /\ r.preover = 1 /\ r.postover = 0 THEN <<F(idx, "C14.bound_restored_only_by_a_further_call", <<r.wsize, r.max, r.sc>>)>> ELSE <<>>)
    \* C05: policy bookkeeping agrees with the map
    \o (IF a1 # {} THEN <<F(idx, "C05.alive_iff_mapped", a1)>> ELSE <<>>)
    \o (IF a2 # {} THEN <<F(idx, "C05.linked_once", a2)>> ELSE <<>>)
    \o (IF a3 # {} THEN <<F(idx, "C05.mapped_iff_in_policy", a3)>> ELSE <<>>)
    \o (IF a4 # {} THEN <<F(idx, "C05.mapped_iff_in_wheel", a4)>> ELSE <<>>)
    \o (IF a5 # {} THEN <<F(idx, "C05.queue_tag", a5)>> ELSE <<>>)
    \o (IF hasSize /\ r.wsize # sumMapped THEN <<F(idx, "C05.weightedSize", <<r.wsize, sumMapped>>)>> ELSE <<>>)
    \o (IF hasSize /\ r.winsize # sumWin THEN <<F(idx, "C05.windowWeightedSize", <<r.winsize, sumWin>>)>> ELSE <<>>)
    \o (IF hasSize /\ r.protsize # sumProt THEN <<F(idx, "C05.protectedWeightedSize", <<r.protsize, sumProt>>)>> ELSE <<>>)
    \o (IF r.mapsize # Len(mapped) THEN <<F(idx, "C05.tableSize", <<r.mapsize, Len(mapped)>>)>> ELSE <<>>)
    \o (IF r.pubest # Len(r.all) THEN <<F(idx, "C05.EstimatedSize", <<r.pubest, Len(r.all)>>)>> ELSE <<>>)
    \o (IF r.sc.size = "weight" /\ r.pubwsize # SumSeq(w, r.all) THEN <<F(idx, "C05.WeightedSize", <<r.pubwsize, SumSeq(w, r.all)>>)>> ELSE <<>>)
    \o (IF Len(r.all) # Len(mapped) THEN <<F(idx, "C05.All_vs_table", <<Len(r.all), Len(mapped)>>)>> ELSE <<>>)
    \o (IF hasSize /\ (keysOf(r.hottest) # allKeys \/ Len(r.hottest) # Len(r.all)) THEN <<F(idx, "C05.Hottest", <<r.hottest, allKeys>>)>> ELSE <<>>)
    \o (IF hasSize /\ (keysOf(r.coldest) # allKeys \/ Len(r.coldest) # Len(r.all)) THEN <<F(idx, "C05.Coldest", <<r.coldest, allKeys>>)>> ELSE <<>>)
    \* C04: size bound at quiescence
    \o (IF hasSize /\ SumSeq(w, r.all) > r.max THEN <<F(idx, "C04.bound", <<SumSeq(w, r.all), r.max>>)>> ELSE <<>>)
    \o (IF hasSize /\ \E j \in DOMAIN r.all : r.all[j].w > r.max THEN <<F(idx, "C04.oversized_retained", r.all)>> ELSE <<>>)
    \o (IF hasSize /\ r.pubmax # r.max THEN <<F(idx, "C04.GetMaximum", <<r.pubmax, r.max>>)>> ELSE <<>>)
    \o (IF \E j \in DOMAIN evA : evA[j].c = "Overflow" /\ (~hasSize) THEN <<F(idx, "C04.overflow_unbounded", evA)>> ELSE <<>>)
    \* C06: every removed value reported exactly once to each handler, with one cause; written = present + reported
    \o (IF Cardinality(SeqToSet(valsA)) # Len(valsA) THEN <<F(idx, "C06.atomic_twice", valsA)>> ELSE <<>>)
    \o (IF Cardinality(SeqToSet(valsD)) # Len(valsD) THEN <<F(idx, "C06.async_twice", valsD)>> ELSE <<>>)
    \o (IF SeqToSet(valsA) # SeqToSet(valsD) THEN <<F(idx, "C06.atomic_vs_async", <<SeqToSet(valsA) \ SeqToSet(valsD), SeqToSet(valsD) \ SeqToSet(valsA)>>)>> ELSE <<>>)
    \o (IF present \cap reported # {} THEN <<F(idx, "C06.present_reported", present \cap reported)>> ELSE <<>>)
    \o (IF written # present \cup reported THEN <<F(idx, "C06.conservation", <<written \ (present \cup reported), (present \cup reported) \ written>>)>> ELSE <<>>)
    \o (IF \E j \in DOMAIN evA : evA[j].c \notin {"Replacement", "Invalidation", "Overflow", "Expiration"} THEN <<F(idx, "C06.cause", evA)>> ELSE <<>>)
    \o (IF \E j \in DOMAIN evA : evA[j].c = "Expiration" THEN <<F(idx, "C06.cause_expiration_on_frozen_clock", evA)>> ELSE <<>>)
    \* per key the atomic handler sees removals in installation order: a value is reported before the value that replaced it
    \o (LET bad == {j \in DOMAIN r.writes : /\ r.writes[j].prev # -1
                                           /\ <<r.writes[j].k, r.writes[j].v>> \in reported
                                           /\ <<r.writes[j].k, r.writes[j].prev>> \in reported
                                           /\ posA(r.writes[j].k, r.writes[j].prev) > posA(r.writes[j].k, r.writes[j].v)}
        IN IF bad # {} THEN <<F(idx, "C06.order", {r.writes[j] : j \in bad})>> ELSE <<>>)
    \o (LET bad == {j \in DOMAIN r.writes : r.writes[j].prev # -1 /\ <<r.writes[j].k, r.writes[j].prev>> \notin reported}
        IN IF bad # {} THEN <<F(idx, "C06.replaced_not_reported", {r.writes[j] : j \in bad})>> ELSE <<>>)

Init == i = 1 /\ dev = <<>>
Next == \/ /\ i <= Len(Recs)
           /\ dev' = dev \o Check(Recs[i], i)
           /\ i' = i + 1
        \/ /\ i = Len(Recs) + 1
           /\ JsonSerialize(IOEnv.VERIF_DEVOUT, [n |-> Len(Recs), devs |-> dev])
           /\ i' = i + 1
           /\ UNCHANGED dev
Spec == Init /\ [][Next]_vars
=============================================================================
