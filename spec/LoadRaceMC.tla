---------------------------- MODULE LoadRaceMC ----------------------------
EXTENDS LoadRace
WK_set == (11 :> "set")
WK_inv == (11 :> "invalidate")
WK_ev  == (11 :> "evict")
WK_two == (11 :> "set") @@ (12 :> "invalidate")
WK_three == (11 :> "set") @@ (12 :> "evict") @@ (13 :> "invalidate")
WK_stale == (11 :> "stale")
WK_set_stale == (11 :> "set") @@ (12 :> "stale")
WK_sweep == (11 :> "sweep")
WK_sweep_set == (11 :> "sweep") @@ (12 :> "set")
WK_sweep_inv == (11 :> "sweep") @@ (12 :> "invalidate")
WK_cancel == (11 :> "cancel")
WK_cancel_sweep == (11 :> "cancel") @@ (12 :> "sweep")
WK_none == [w \in {} |-> "set"]
=============================================================================
