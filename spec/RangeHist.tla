------------------------------ MODULE RangeHist ------------------------------
(***************************************************************************)
(* C15, iteration and size: judges records of harness/hashmap/             *)
(* verif_clht_test.go.  Events and iterations share one sequence counter.  *)
(*   - an iteration never yields a key twice;                              *)
(*   - it yields (exactly once) every key that was present for its whole   *)
(*     duration: some write of the key returned before it began and every  *)
(*     removal of the key either returned before that write was called or  *)
(*     was called after the iteration ended;                               *)
(*   - it never yields a value that some operation, which returned before  *)
(*     the iteration began, had already replaced or removed;               *)
(*   - at quiescence the reported size equals the number of keys found;    *)
(*   - the update function of every filler Compute ran exactly once.       *)
(***************************************************************************)
EXTENDS Integers, Sequences, FiniteSets, TLC, Json, IOUtils
Recs == ndJsonDeserialize(IOEnv.VERIF_TRACE)
VARIABLES i, dev
vars == <<i, dev>>
F(idx, name, detail) == [rec |-> idx, pred |-> name, detail |-> ToString(detail)]
SeqToSet(q) == {q[j] : j \in DOMAIN q}

Check(r, idx) ==
    LET ev == r.events
        rets == {j \in DOMAIN ev : ev[j].t = "ret" /\ ev[j].op = "cmp"}
        callSeq(j) == LET c == {x \in DOMAIN ev : ev[x].t = "call" /\ ev[x].c = ev[j].c /\ ev[x].seq < ev[j].seq}
                      IN IF c = {} THEN 0 ELSE ev[CHOOSE x \in c : \A y \in c : ev[y].seq <= ev[x].seq].seq
        writes(k) == {j \in rets : ev[j].k = k /\ ev[j].act = "write"}
        clrs == {j \in DOMAIN ev : ev[j].t = "ret" /\ ev[j].op = "clr"}       \* a Clear removes every key
        removes(k) == {j \in rets : ev[j].k = k /\ ev[j].act = "inv"} \cup clrs
        \* removals still pending at the end of the log are calls without a return: treat any such call as overlapping
        openCalls(k) == {x \in DOMAIN ev : ev[x].t = "call" /\ ((ev[x].op = "cmp" /\ ev[x].k = k) \/ ev[x].op = "clr")
                                          /\ ~\E y \in DOMAIN ev : ev[y].t = "ret" /\ ev[y].c = ev[x].c /\ ev[y].seq > ev[x].seq}
        stable(k, S, E) == \E w \in writes(k) :
                              /\ ev[w].seq < S
                              /\ \A d \in removes(k) : ev[d].seq < callSeq(w) \/ callSeq(d) > E
                              /\ openCalls(k) = {}
        goneBefore(k, v, S) == \/ \E j \in rets : ev[j].k = k /\ ev[j].saw = v /\ ev[j].act \in {"write", "inv"} /\ ev[j].seq < S
                               \/ \E j \in clrs, w \in writes(k) : ev[w].v = v /\ ev[w].seq < callSeq(j) /\ ev[j].seq < S
        rangeDevs(g) ==
            LET rg == r.ranges[g]
                ks == rg.keys
                dup == Cardinality(SeqToSet(ks)) # Len(ks)
                must == {k \in 0 .. (r.sc.keys - 1) : stable(k, rg.start, rg.end)}
                missing == must \ SeqToSet(ks)
                stale == {j \in DOMAIN ks : goneBefore(ks[j], rg.vals[j], rg.start)}
            IN (IF dup THEN <<F(idx, "C15.range_duplicate", ks)>> ELSE <<>>)
               \o (IF missing # {} THEN <<F(idx, "C15.range_missing", <<missing, ks, rg.start, rg.end>>)>> ELSE <<>>)
               \o (IF stale # {} THEN <<F(idx, "C15.range_stale", <<{<<ks[j], rg.vals[j]>> : j \in stale}, rg.start>>)>> ELSE <<>>)
        RECURSIVE allRanges(_)
        allRanges(g) == IF g > Len(r.ranges) THEN <<>> ELSE rangeDevs(g) \o allRanges(g + 1)
    IN (IF r.diag # "" THEN <<F(idx, "C15.abnormal_end", r.diag)>> ELSE <<>>)
       \o (IF r.churnnc # 0 THEN <<F(idx, "C15.update_not_once", r.churnnc)>> ELSE <<>>)
       \o (IF r.diag = "" /\ r.size # r.present THEN <<F(idx, "C15.size", <<r.size, r.present>>)>> ELSE <<>>)
       \o allRanges(1)

Init == i = 1 /\ dev = <<>>
Next == \/ /\ i <= Len(Recs)
           /\ dev' = dev \o Check(Recs[i], i)
           /\ i' = i + 1
        \/ /\ i = Len(Recs) + 1
           /\ JsonSerialize(IOEnv.VERIF_DEVOUT, [n |-> Len(Recs), devs |-> dev])
           /\ i' = i + 1
           /\ UNCHANGED dev
Spec == Init /\ [][Next]_vars
=============================================================================
