-------------------------- MODULE TimerWheelTrace --------------------------
(***************************************************************************)
(* Trace validation of the real timer wheel against TimerWheel.tla with    *)
(* the real geometry (64,64,32,4,1 buckets; 2^30..2^49 ns spans), in units *)
(* of 2^20 ns.  Deterministic fold: after every logged call the bucket of  *)
(* every scheduled timer and the set of expired timers must equal what     *)
(* FindBucket / Advance compute, and SweptWithinTick must hold.            *)
(***************************************************************************)
EXTENDS Integers, Sequences, FiniteSets, TLC, Json, IOUtils

Timers == 1 .. 8
MaxTime == 1073741823
Buckets == <<64, 64, 32, 4, 1>>
Shift == <<10, 16, 22, 27, 29>>
Clamp == TRUE
Due == TRUE
VARIABLES time, where, dl, expired, schedAt, tog
W == INSTANCE TimerWheel

Recs == ndJsonDeserialize(IOEnv.VERIF_TRACE)
VARIABLES i, dev
allvars == <<time, where, dl, expired, schedAt, tog, i, dev>>
F(idx, name, detail) == [rec |-> idx, pred |-> name, detail |-> ToString(detail)]

PosOf(r) == [t \in Timers |-> IF \E j \in DOMAIN r.pos : r.pos[j].t = t
                               THEN LET j == CHOOSE x \in DOMAIN r.pos : r.pos[x].t = t IN <<r.pos[j].level, r.pos[j].slot>>
                               ELSE W!None]
Init == /\ W!Init /\ i = 1 /\ dev = <<>>

Step(r) ==
    CASE r.tp = "reset" -> /\ time' = 0 /\ where' = [t \in Timers |-> W!None] /\ dl' = [t \in Timers |-> 0]
                           /\ expired' = {} /\ schedAt' = [t \in Timers |-> 0] /\ UNCHANGED tog
      [] r.tp = "add"   -> /\ dl' = [dl EXCEPT ![r.t] = r.d]
                           /\ where' = [where EXCEPT ![r.t] = W!FindBucket(time, r.d)]
                           /\ schedAt' = [schedAt EXCEPT ![r.t] = time]
                           /\ expired' = expired \ {r.t}
                           /\ UNCHANGED <<time, tog>>
      [] r.tp = "ext"   -> /\ dl' = [dl EXCEPT ![r.t] = r.d]      \* W!Extend: deadline moved in place, the wheel is not told
                           /\ UNCHANGED <<time, where, expired, schedAt, tog>>
      [] r.tp = "del"   -> /\ where' = IF r.t \in Timers THEN [where EXCEPT ![r.t] = W!None] ELSE where
                           /\ UNCHANGED <<time, dl, expired, schedAt, tog>>
      [] r.tp = "adv"   -> LET T == r.d
                               hit(t) == W!Hit(where[t], time, T)
                           IN /\ expired' = {t \in Timers : hit(t) /\ dl[t] < T}
                              /\ where' = [t \in Timers |-> IF ~hit(t) THEN where[t]
                                                             ELSE IF dl[t] < T THEN W!None ELSE W!FindBucket(T, dl[t])]
                              /\ time' = T
                              /\ tog' = ~tog
                              /\ UNCHANGED <<dl, schedAt>>

Devs(r, idx) ==
    LET logged == PosOf(r)
        wrong == {t \in Timers : logged[t] # where'[t]}
        \* (F23: no excuse for timers that were scheduled less than a tick ago - the write may have returned long before)
        lateReal == {t \in Timers : logged[t] # W!None /\ ~(dl'[t] + W!Tick >= r.time)}
    IN (IF wrong # {} THEN <<F(idx, "C13.bucket", [t \in wrong |-> <<"want", where'[t], "got", logged[t], "dl", dl'[t], "time", time'>>])>> ELSE <<>>)
       \o (IF r.tp = "adv" /\ {r.expired[j] : j \in DOMAIN r.expired} # expired'
           THEN <<F(idx, "C13.expired_set", <<"want", expired', "got", r.expired>>)>> ELSE <<>>)
       \o (IF r.time # time' THEN <<F(idx, "C13.wheel_time", <<time', r.time>>)>> ELSE <<>>)
       \o (IF r.tp = "adv" /\ lateReal # {} THEN <<F(idx, "C13.not_swept_within_tick", lateReal)>> ELSE <<>>)
       \o (IF r.tp = "adv" /\ \E j \in DOMAIN r.expired : ~(dl[r.expired[j]] < r.d)
           THEN <<F(idx, "C13.expired_early", r.expired)>> ELSE <<>>)

Next == \/ /\ i <= Len(Recs)
           /\ Step(Recs[i])
           /\ dev' = dev \o (IF Recs[i].tp = "reset" THEN <<>> ELSE Devs(Recs[i], i))
           /\ i' = i + 1
        \/ /\ i = Len(Recs) + 1
           /\ JsonSerialize(IOEnv.VERIF_DEVOUT, [n |-> Len(Recs), devs |-> dev])
           /\ i' = i + 1
           /\ UNCHANGED <<time, where, dl, expired, schedAt, tog, dev>>
Spec == Init /\ [][Next]_allvars
=============================================================================
