------------------------------ MODULE LoadRace ------------------------------
(***************************************************************************)
(* Single-flight loading against explicit writes, invalidations and        *)
(* evictions on one key (singleflight.go startCall/doCall/deleteCall,      *)
(* cache_impl.go Get/refreshKey/afterDeleteCall/atomicSet/atomicDelete/    *)
(* deleteNodeFromMap).  One label per step that the gate replayer can      *)
(* control: the lock-free lookup, the registration of the in-flight        *)
(* record (NOT under the bucket lock), the loader entry and exit (the      *)
(* scripted loader is the gate), the installation (one table computation   *)
(* under the bucket lock), the release of the waiters.  A write is two     *)
(* steps under the bucket lock, as in the code: it clears the in-flight    *)
(* record at the START of its computation and publishes its node at the    *)
(* END - a load can be registered in between (finding F14).                *)
(*                                                                         *)
(* C08  NoOverlap, CleanTable, termination (every process reaches Done)    *)
(* C09  NoStaleInstall: a load result is installed only if no write,       *)
(*      invalidation or eviction of the key happened since the load        *)
(*      started; afterwards the cache holds the explicit write.            *)
(* C02/C10  NoDrop: a successfully loaded value is installed unless the    *)
(*      key changed since the loading call looked it up (finding F16).     *)
(*                                                                         *)
(* Switches (each reproduces a finding on the model when set the old way): *)
(*   Expected = "none" : the install step does not re-check the node the    *)
(*                       load was started for -> NoStaleInstall violated   *)
(*                       (code before fix 1a80e99, finding F14)            *)
(*   Expected = "live" : it re-checks only against a live entry: a reload  *)
(*                       registered while an invalidation of the PRESENT   *)
(*                       key is between its two steps still resurrects     *)
(*                       the key (found by TLC on this model: F17)         *)
(*   Expected = "full" : the key must still hold what the lookup found     *)
(*                       (closes the reload case, not the one below)       *)
(*   RegLocked = FALSE : the in-flight record is registered without the    *)
(*                       key's bucket lock (code before fix 1a4f8c2): a    *)
(*                       load registered while an INVALIDATION of the key  *)
(*                       is between its two steps is not cleared, finds    *)
(*                       the key absent at its install step and installs   *)
(*                       although the invalidation took effect after it    *)
(*                       started (finding F17, for every value of          *)
(*                       Expected): NoWindowInstall violated.  With        *)
(*                       RegLocked = TRUE the registration is one step     *)
(*                       under the bucket lock and NoWindowInstall holds;  *)
(*                       the repair was checked here before the Go patch.  *)
(* NoStaleInstall excludes loads registered inside such a window            *)
(* (`inWindow`); NoWindowInstall states the full requirement.               *)
(*   FailClears = "any"  : a load that ended with an error removes whatever *)
(*                          in-flight record is registered, not only its   *)
(*                          own -> NoOverlap violated (a change seeded in   *)
(*                          round 8; TLC's counterexample is replayed on   *)
(*                          the real cache as a directed schedule)         *)
(*   StaleCancels = TRUE  : evicting a node that is no longer current      *)
(*                          clears the in-flight load -> NoDrop violated   *)
(*                          (code before fix 7dd53de)                      *)
(*   Dead = TRUE          : the key initially holds an EXPIRED entry that   *)
(*                          maintenance has not removed yet: lookups miss, *)
(*                          the node is still in the table.  Writer kind   *)
(*                          "sweep" is the expiration sweep removing it,   *)
(*                          "cancel" a computation that cancels itself     *)
(*                          (it removes the dead node it finds, no write). *)
(*   SweepCancels = TRUE  : removing that dead node clears the in-flight   *)
(*                          load of the key (the load that was started     *)
(*                          BECAUSE the entry had expired) -> NoDrop       *)
(*                          violated (finding F24; FALSE = repaired code)  *)
(***************************************************************************)
EXTENDS Integers, Sequences, FiniteSets, TLC

CONSTANTS Getters,      \* processes calling Get (load on miss)
          Refreshers,   \* processes calling Refresh (explicit reload of whatever the lookup found)
          Writers,      \* processes performing one explicit write each
          WriterKind,   \* Writers -> {"set", "invalidate", "evict", "stale"}   ("stale": eviction of a node that is not current)
          Outcomes,     \* subset of {"val", "err", "nf", "panic"}
          Preload,      \* TRUE: the key holds a value (50) initially
          Expected, StaleCancels,
          Dead, SweepCancels,
          FailClears,   \* "own": a load that failed removes its own in-flight record only (the code); "any": whatever record is registered
          RegLocked     \* TRUE: the in-flight record is registered inside the key's table computation (under the bucket lock)

Nil == 0
(* --algorithm LoadRace
variables dead = Dead,               \* an expired, not yet removed node of the key is in the table (val = Nil: lookups miss)
          val = IF Preload THEN 50 ELSE Nil,   \* cached value of the key (Nil = absent); loaded values are 100 + id, written ones 200 + writer
          infl = Nil,                \* in-flight record of the key (id of the process that created it)
          locked = FALSE,            \* bucket lock of the key
          done = {},                 \* calls whose waiters have been released
          running = {},              \* calls whose loader is executing
          created = {},              \* calls created whose loader has not returned yet
          res = [p \in Getters \cup Refreshers |-> <<"none", Nil>>],    \* result of each call, by creator
          \* history, kept as flags so that the state space stays small:
          stale = [p \in Getters \cup Refreshers |-> FALSE],      \* an explicit write / invalidation / eviction took effect since p created its in-flight record
          touched = [p \in Getters \cup Refreshers |-> FALSE],    \* val changed (write or installation) or an explicit invalidation ran since p's lookup
          seen = [p \in Getters \cup Refreshers |-> Nil],              \* value found by the lookup (the node a refresh reloads)
          superseded = {},           \* running calls during which the key was written
          got = [p \in Getters \cup Refreshers |-> <<"none", Nil>>],   \* what each caller returned
          inWindow = [p \in Getters \cup Refreshers |-> FALSE],      \* registered while a writer was inside its computation
          staleInstall = FALSE,
          windowInstall = FALSE,
          dropped = FALSE;

fair process Loader \in Getters \cup Refreshers
variables mine = Nil, outcome = "val", correct = FALSE;
begin
 lookup:   touched[self] := FALSE;
           if self \in Getters /\ val # Nil then
              got[self] := <<"hit", val>>; goto finish;
           else
              seen[self] := val;
           end if;
 start:    await ~(RegLocked /\ locked);
           if infl = Nil then
              infl := self; mine := self; stale[self] := FALSE; created := created \cup {self};
              inWindow[self] := locked;
           else
              mine := infl; goto wait;
           end if;
 ldEnter:  running := running \cup {self};
 ldExit:   with o \in Outcomes do outcome := o; end with;
           running := running \ {self}; superseded := superseded \ {self}; created := created \ {self};
 install:  \* afterDeleteCall: one computation on the key, under its bucket lock
           await ~locked;
           correct := (infl = self) /\ CASE Expected = "none" -> TRUE
                                           [] Expected = "live" -> val = Nil \/ val = seen[self]
                                           [] OTHER -> val = seen[self];
           if infl = self \/ (FailClears = "any" /\ outcome \in {"err", "panic"}) then infl := Nil; end if;
           if correct /\ outcome = "nf" then
              if val # Nil then touched := [p \in Getters \cup Refreshers |-> TRUE]; end if;
              val := Nil;
           elsif correct /\ outcome = "val" then
              if stale[self] then
                 if inWindow[self] then windowInstall := TRUE; else staleInstall := TRUE; end if;
              end if;
              val := 100 + self; touched := [p \in Getters \cup Refreshers |-> TRUE]; dead := FALSE;
           elsif outcome = "val" /\ ~touched[self] then
              dropped := TRUE;     \* loaded, nothing intervened, and yet not installed
           end if;
           res[self] := <<outcome, IF outcome = "val" THEN 100 + self ELSE Nil>>;
 release:  done := done \cup {self};
           got[self] := res[self]; goto finish;
 wait:     await mine \in done;
           got[self] := res[mine];
 finish:   skip;
end process;

fair process Writer \in Writers
variables wrote = FALSE;
begin
 w_cancel: \* start of the table computation: take the bucket lock, clear the in-flight record
           await ~locked;
           locked := TRUE;
           \* removing an absent key changes nothing (but an explicit invalidation still clears the in-flight record)
           wrote := WriterKind[self] = "set" \/ (WriterKind[self] \in {"invalidate", "evict"} /\ val # Nil);
           if wrote \/ WriterKind[self] = "invalidate" \/ (WriterKind[self] = "stale" /\ StaleCancels)
                    \/ (WriterKind[self] \in {"sweep", "cancel"} /\ dead /\ SweepCancels) then
              infl := Nil; superseded := superseded \cup created;
           end if;
           \* C09: after an explicit invalidation the cache holds nothing - a load it cancelled is not "dropped"
           if WriterKind[self] = "invalidate" then touched := [p \in Getters \cup Refreshers |-> TRUE]; end if;
 w_store:  \* end of the computation: publish, unlock
           if wrote then
              val := IF WriterKind[self] = "set" THEN 200 + self ELSE Nil;
              stale := [p \in Getters \cup Refreshers |-> TRUE]; touched := [p \in Getters \cup Refreshers |-> TRUE];
           end if;
           \* the dead node leaves the table with a write, an invalidation or the sweep; nothing visible changes (val was Nil already)
           if WriterKind[self] \in {"set", "invalidate", "sweep", "cancel"} then dead := FALSE; end if;
           locked := FALSE;
end process;
end algorithm; *)
\* BEGIN TRANSLATION
VARIABLES pc, dead, val, infl, locked, done, running, created, res, stale, 
          touched, seen, superseded, got, inWindow, staleInstall, 
          windowInstall, dropped, mine, outcome, correct, wrote

vars == << pc, dead, val, infl, locked, done, running, created, res, stale, 
           touched, seen, superseded, got, inWindow, staleInstall, 
           windowInstall, dropped, mine, outcome, correct, wrote >>

ProcSet == (Getters \cup Refreshers) \cup (Writers)

Init == (* Global variables *)
        /\ dead = Dead
        /\ val = IF Preload THEN 50 ELSE Nil
        /\ infl = Nil
        /\ locked = FALSE
        /\ done = {}
        /\ running = {}
        /\ created = {}
        /\ res = [p \in Getters \cup Refreshers |-> <<"none", Nil>>]
        /\ stale = [p \in Getters \cup Refreshers |-> FALSE]
        /\ touched = [p \in Getters \cup Refreshers |-> FALSE]
        /\ seen = [p \in Getters \cup Refreshers |-> Nil]
        /\ superseded = {}
        /\ got = [p \in Getters \cup Refreshers |-> <<"none", Nil>>]
        /\ inWindow = [p \in Getters \cup Refreshers |-> FALSE]
        /\ staleInstall = FALSE
        /\ windowInstall = FALSE
        /\ dropped = FALSE
        (* Process Loader *)
        /\ mine = [self \in Getters \cup Refreshers |-> Nil]
        /\ outcome = [self \in Getters \cup Refreshers |-> "val"]
        /\ correct = [self \in Getters \cup Refreshers |-> FALSE]
        (* Process Writer *)
        /\ wrote = [self \in Writers |-> FALSE]
        /\ pc = [self \in ProcSet |-> CASE self \in Getters \cup Refreshers -> "lookup"
                                        [] self \in Writers -> "w_cancel"]

lookup(self) == /\ pc[self] = "lookup"
                /\ touched' = [touched EXCEPT ![self] = FALSE]
                /\ IF self \in Getters /\ val # Nil
                      THEN /\ got' = [got EXCEPT ![self] = <<"hit", val>>]
                           /\ pc' = [pc EXCEPT ![self] = "finish"]
                           /\ seen' = seen
                      ELSE /\ seen' = [seen EXCEPT ![self] = val]
                           /\ pc' = [pc EXCEPT ![self] = "start"]
                           /\ got' = got
                /\ UNCHANGED << dead, val, infl, locked, done, running, 
                                created, res, stale, superseded, inWindow, 
                                staleInstall, windowInstall, dropped, mine, 
                                outcome, correct, wrote >>

start(self) == /\ pc[self] = "start"
               /\ ~(RegLocked /\ locked)
               /\ IF infl = Nil
                     THEN /\ infl' = self
                          /\ mine' = [mine EXCEPT ![self] = self]
                          /\ stale' = [stale EXCEPT ![self] = FALSE]
                          /\ created' = (created \cup {self})
                          /\ inWindow' = [inWindow EXCEPT ![self] = locked]
                          /\ pc' = [pc EXCEPT ![self] = "ldEnter"]
                     ELSE /\ mine' = [mine EXCEPT ![self] = infl]
                          /\ pc' = [pc EXCEPT ![self] = "wait"]
                          /\ UNCHANGED << infl, created, stale, inWindow >>
               /\ UNCHANGED << dead, val, locked, done, running, res, touched, 
                               seen, superseded, got, staleInstall, 
                               windowInstall, dropped, outcome, correct, wrote >>

ldEnter(self) == /\ pc[self] = "ldEnter"
                 /\ running' = (running \cup {self})
                 /\ pc' = [pc EXCEPT ![self] = "ldExit"]
                 /\ UNCHANGED << dead, val, infl, locked, done, created, res, 
                                 stale, touched, seen, superseded, got, 
                                 inWindow, staleInstall, windowInstall, 
                                 dropped, mine, outcome, correct, wrote >>

ldExit(self) == /\ pc[self] = "ldExit"
                /\ \E o \in Outcomes:
                     outcome' = [outcome EXCEPT ![self] = o]
                /\ running' = running \ {self}
                /\ superseded' = superseded \ {self}
                /\ created' = created \ {self}
                /\ pc' = [pc EXCEPT ![self] = "install"]
                /\ UNCHANGED << dead, val, infl, locked, done, res, stale, 
                                touched, seen, got, inWindow, staleInstall, 
                                windowInstall, dropped, mine, correct, wrote >>

install(self) == /\ pc[self] = "install"
                 /\ ~locked
                 /\ correct' = [correct EXCEPT ![self] = (infl = self) /\ CASE Expected = "none" -> TRUE
                                                                              [] Expected = "live" -> val = Nil \/ val = seen[self]
                                                                              [] OTHER -> val = seen[self]]
                 /\ IF infl = self \/ (FailClears = "any" /\ outcome[self] \in {"err", "panic"})
                       THEN /\ infl' = Nil
                       ELSE /\ TRUE
                            /\ infl' = infl
                 /\ IF correct'[self] /\ outcome[self] = "nf"
                       THEN /\ IF val # Nil
                                  THEN /\ touched' = [p \in Getters \cup Refreshers |-> TRUE]
                                  ELSE /\ TRUE
                                       /\ UNCHANGED touched
                            /\ val' = Nil
                            /\ UNCHANGED << dead, staleInstall, windowInstall, 
                                            dropped >>
                       ELSE /\ IF correct'[self] /\ outcome[self] = "val"
                                  THEN /\ IF stale[self]
                                             THEN /\ IF inWindow[self]
                                                        THEN /\ windowInstall' = TRUE
                                                             /\ UNCHANGED staleInstall
                                                        ELSE /\ staleInstall' = TRUE
                                                             /\ UNCHANGED windowInstall
                                             ELSE /\ TRUE
                                                  /\ UNCHANGED << staleInstall, 
                                                                  windowInstall >>
                                       /\ val' = 100 + self
                                       /\ touched' = [p \in Getters \cup Refreshers |-> TRUE]
                                       /\ dead' = FALSE
                                       /\ UNCHANGED dropped
                                  ELSE /\ IF outcome[self] = "val" /\ ~touched[self]
                                             THEN /\ dropped' = TRUE
                                             ELSE /\ TRUE
                                                  /\ UNCHANGED dropped
                                       /\ UNCHANGED << dead, val, touched, 
                                                       staleInstall, 
                                                       windowInstall >>
                 /\ res' = [res EXCEPT ![self] = <<outcome[self], IF outcome[self] = "val" THEN 100 + self ELSE Nil>>]
                 /\ pc' = [pc EXCEPT ![self] = "release"]
                 /\ UNCHANGED << locked, done, running, created, stale, seen, 
                                 superseded, got, inWindow, mine, outcome, 
                                 wrote >>

release(self) == /\ pc[self] = "release"
                 /\ done' = (done \cup {self})
                 /\ got' = [got EXCEPT ![self] = res[self]]
                 /\ pc' = [pc EXCEPT ![self] = "finish"]
                 /\ UNCHANGED << dead, val, infl, locked, running, created, 
                                 res, stale, touched, seen, superseded, 
                                 inWindow, staleInstall, windowInstall, 
                                 dropped, mine, outcome, correct, wrote >>

wait(self) == /\ pc[self] = "wait"
              /\ mine[self] \in done
              /\ got' = [got EXCEPT ![self] = res[mine[self]]]
              /\ pc' = [pc EXCEPT ![self] = "finish"]
              /\ UNCHANGED << dead, val, infl, locked, done, running, created, 
                              res, stale, touched, seen, superseded, inWindow, 
                              staleInstall, windowInstall, dropped, mine, 
                              outcome, correct, wrote >>

finish(self) == /\ pc[self] = "finish"
                /\ TRUE
                /\ pc' = [pc EXCEPT ![self] = "Done"]
                /\ UNCHANGED << dead, val, infl, locked, done, running, 
                                created, res, stale, touched, seen, superseded, 
                                got, inWindow, staleInstall, windowInstall, 
                                dropped, mine, outcome, correct, wrote >>

Loader(self) == lookup(self) \/ start(self) \/ ldEnter(self)
                   \/ ldExit(self) \/ install(self) \/ release(self)
                   \/ wait(self) \/ finish(self)

w_cancel(self) == /\ pc[self] = "w_cancel"
                  /\ ~locked
                  /\ locked' = TRUE
                  /\ wrote' = [wrote EXCEPT ![self] = WriterKind[self] = "set" \/ (WriterKind[self] \in {"invalidate", "evict"} /\ val # Nil)]
                  /\ IF wrote'[self] \/ WriterKind[self] = "invalidate" \/ (WriterKind[self] = "stale" /\ StaleCancels)
                                     \/ (WriterKind[self] \in {"sweep", "cancel"} /\ dead /\ SweepCancels)
                        THEN /\ infl' = Nil
                             /\ superseded' = (superseded \cup created)
                        ELSE /\ TRUE
                             /\ UNCHANGED << infl, superseded >>
                  /\ IF WriterKind[self] = "invalidate"
                        THEN /\ touched' = [p \in Getters \cup Refreshers |-> TRUE]
                        ELSE /\ TRUE
                             /\ UNCHANGED touched
                  /\ pc' = [pc EXCEPT ![self] = "w_store"]
                  /\ UNCHANGED << dead, val, done, running, created, res, 
                                  stale, seen, got, inWindow, staleInstall, 
                                  windowInstall, dropped, mine, outcome, 
                                  correct >>

w_store(self) == /\ pc[self] = "w_store"
                 /\ IF wrote[self]
                       THEN /\ val' = (IF WriterKind[self] = "set" THEN 200 + self ELSE Nil)
                            /\ stale' = [p \in Getters \cup Refreshers |-> TRUE]
                            /\ touched' = [p \in Getters \cup Refreshers |-> TRUE]
                       ELSE /\ TRUE
                            /\ UNCHANGED << val, stale, touched >>
                 /\ IF WriterKind[self] \in {"set", "invalidate", "sweep", "cancel"}
                       THEN /\ dead' = FALSE
                       ELSE /\ TRUE
                            /\ dead' = dead
                 /\ locked' = FALSE
                 /\ pc' = [pc EXCEPT ![self] = "Done"]
                 /\ UNCHANGED << infl, done, running, created, res, seen, 
                                 superseded, got, inWindow, staleInstall, 
                                 windowInstall, dropped, mine, outcome, 
                                 correct, wrote >>

Writer(self) == w_cancel(self) \/ w_store(self)

(* Allow infinite stuttering to prevent deadlock on termination. *)
Terminating == /\ \A self \in ProcSet: pc[self] = "Done"
               /\ UNCHANGED vars

Next == (\E self \in Getters \cup Refreshers: Loader(self))
           \/ (\E self \in Writers: Writer(self))
           \/ Terminating

Spec == /\ Init /\ [][Next]_vars
        /\ \A self \in Getters \cup Refreshers : WF_vars(Loader(self))
        /\ \A self \in Writers : WF_vars(Writer(self))

Termination == <>(\A self \in ProcSet: pc[self] = "Done")

\* END TRANSLATION

AllDone == \A p \in Getters \cup Refreshers \cup Writers : pc[p] = "Done"

\* C08
NoOverlap  == Cardinality(running \ superseded) <= 1
CleanTable == AllDone => infl = Nil
Returned   == AllDone => \A p \in Getters \cup Refreshers : got[p][1] # "none"
JoinersShare == \A p \in Getters \cup Refreshers :
                   (pc[p] = "Done" /\ mine[p] # Nil /\ mine[p] # p) => got[p] = res[mine[p]]
Terminates == <>AllDone
\* C09
NoStaleInstall == ~staleInstall
NoWindowInstall == ~windowInstall       \* F17: violated by the model of the current code
\* C02 / C10 (F16)
NoDrop == ~dropped
LockFree == AllDone => ~locked
=============================================================================
