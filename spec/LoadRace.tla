------------------------------ MODULE LoadRace ------------------------------
(***************************************************************************)
(* Single-flight loading against explicit writes, invalidations and        *)
(* evictions on one key (singleflight.go startCall/doCall/deleteCall,      *)
(* cache_impl.go Get/refreshKey/afterDeleteCall/atomicSet/atomicDelete/    *)
(* deleteNodeFromMap).  One label per step that the gate replayer can      *)
(* control: the lookup, the loader entry and exit (the scripted loader is   *)
(* the gate), the installation (one table computation), the release of the *)
(* waiters.                                                                *)
(*                                                                         *)
(* C08  NoOverlap, CleanTable, termination (every process reaches Done)    *)
(* C09  NoStaleInstall: a load result is installed only if no write,       *)
(*      invalidation or eviction of the key happened since the load        *)
(*      started; afterwards the cache holds the explicit write.            *)
(***************************************************************************)
EXTENDS Integers, Sequences, FiniteSets, TLC

CONSTANTS Getters,      \* processes calling Get (load on miss, serve + reload when stale is not modelled here)
          Refreshers,   \* processes calling Refresh (explicit reload)
          Writers,      \* processes performing one explicit write each
          WriterKind,   \* Writers -> {"set", "invalidate", "evict"}
          Outcomes      \* subset of {"val", "err", "nf", "panic"}

Nil == 0
(* --algorithm LoadRace
variables val = Nil,                 \* cached value of the key (Nil = absent); loaded values are 100 + infl id, written ones 200 + writer
          infl = Nil,                \* in-flight record of the key (infl id = id of the process that created it)
          done = {},                 \* calls whose waiters have been released
          running = {},              \* calls whose loader is executing
          created = {},              \* calls created whose loader has not returned yet
          res = [p \in Getters \cup Refreshers |-> <<"none", Nil>>],    \* result of each infl, by creator
          writes = 0,                \* number of explicit writes / invalidations / evictions so far
          startedAt = [p \in Getters \cup Refreshers |-> -1],          \* writes counter when the infl was created
          superseded = {},           \* running calls during which the key was written
          got = [p \in Getters \cup Refreshers |-> <<"none", Nil>>],   \* what each caller returned
          staleInstall = FALSE;

fair process Loader \in Getters \cup Refreshers
variables mine = Nil, outcome = "val", correct = FALSE;
begin
 lookup:   if self \in Getters /\ val # Nil then
              got[self] := <<"hit", val>>; goto finish;
           end if;
 start:    if infl = Nil then
              infl := self; mine := self; startedAt[self] := writes; created := created \cup {self};
           else
              mine := infl; goto wait;
           end if;
 ldEnter:  running := running \cup {self};
 ldExit:   with o \in Outcomes do outcome := o; end with;
           running := running \ {self}; superseded := superseded \ {self}; created := created \ {self};
 install:  \* afterDeleteCall: one computation on the key
           correct := (infl = self);
           if correct then infl := Nil; end if;
           if correct /\ outcome = "nf" then
              val := Nil;
           elsif correct /\ outcome = "val" then
              if startedAt[self] # writes then staleInstall := TRUE; end if;
              val := 100 + self;
           end if;
           res[self] := <<outcome, IF outcome = "val" THEN 100 + self ELSE Nil>>;
 release:  done := done \cup {self};
           got[self] := res[self]; goto finish;
 wait:     await mine \in done;
           got[self] := res[mine];
 finish:   skip;
end process;

fair process Writer \in Writers
begin
 write:    \* Set / Invalidate / eviction: clears the in-flight record inside the table computation
           if WriterKind[self] = "set" then
              val := 200 + self; infl := Nil; writes := writes + 1; superseded := superseded \cup created;
           elsif WriterKind[self] = "invalidate" then
              val := Nil; infl := Nil; writes := writes + 1; superseded := superseded \cup created;
           elsif val # Nil then       \* eviction only removes a present entry
              val := Nil; infl := Nil; writes := writes + 1; superseded := superseded \cup created;
           end if;
end process;
end algorithm; *)
\* BEGIN TRANSLATION
VARIABLES pc, val, infl, done, running, created, res, writes, startedAt, 
          superseded, got, staleInstall, mine, outcome, correct

vars == << pc, val, infl, done, running, created, res, writes, startedAt, 
           superseded, got, staleInstall, mine, outcome, correct >>

ProcSet == (Getters \cup Refreshers) \cup (Writers)

Init == (* Global variables *)
        /\ val = Nil
        /\ infl = Nil
        /\ done = {}
        /\ running = {}
        /\ created = {}
        /\ res = [p \in Getters \cup Refreshers |-> <<"none", Nil>>]
        /\ writes = 0
        /\ startedAt = [p \in Getters \cup Refreshers |-> -1]
        /\ superseded = {}
        /\ got = [p \in Getters \cup Refreshers |-> <<"none", Nil>>]
        /\ staleInstall = FALSE
        (* Process Loader *)
        /\ mine = [self \in Getters \cup Refreshers |-> Nil]
        /\ outcome = [self \in Getters \cup Refreshers |-> "val"]
        /\ correct = [self \in Getters \cup Refreshers |-> FALSE]
        /\ pc = [self \in ProcSet |-> CASE self \in Getters \cup Refreshers -> "lookup"
                                        [] self \in Writers -> "write"]

lookup(self) == /\ pc[self] = "lookup"
                /\ IF self \in Getters /\ val # Nil
                      THEN /\ got' = [got EXCEPT ![self] = <<"hit", val>>]
                           /\ pc' = [pc EXCEPT ![self] = "finish"]
                      ELSE /\ pc' = [pc EXCEPT ![self] = "start"]
                           /\ got' = got
                /\ UNCHANGED << val, infl, done, running, created, res, writes, 
                                startedAt, superseded, staleInstall, mine, 
                                outcome, correct >>

start(self) == /\ pc[self] = "start"
               /\ IF infl = Nil
                     THEN /\ infl' = self
                          /\ mine' = [mine EXCEPT ![self] = self]
                          /\ startedAt' = [startedAt EXCEPT ![self] = writes]
                          /\ created' = (created \cup {self})
                          /\ pc' = [pc EXCEPT ![self] = "ldEnter"]
                     ELSE /\ mine' = [mine EXCEPT ![self] = infl]
                          /\ pc' = [pc EXCEPT ![self] = "wait"]
                          /\ UNCHANGED << infl, created, startedAt >>
               /\ UNCHANGED << val, done, running, res, writes, superseded, 
                               got, staleInstall, outcome, correct >>

ldEnter(self) == /\ pc[self] = "ldEnter"
                 /\ running' = (running \cup {self})
                 /\ pc' = [pc EXCEPT ![self] = "ldExit"]
                 /\ UNCHANGED << val, infl, done, created, res, writes, 
                                 startedAt, superseded, got, staleInstall, 
                                 mine, outcome, correct >>

ldExit(self) == /\ pc[self] = "ldExit"
                /\ \E o \in Outcomes:
                     outcome' = [outcome EXCEPT ![self] = o]
                /\ running' = running \ {self}
                /\ superseded' = superseded \ {self}
                /\ created' = created \ {self}
                /\ pc' = [pc EXCEPT ![self] = "install"]
                /\ UNCHANGED << val, infl, done, res, writes, startedAt, got, 
                                staleInstall, mine, correct >>

install(self) == /\ pc[self] = "install"
                 /\ correct' = [correct EXCEPT ![self] = (infl = self)]
                 /\ IF correct'[self]
                       THEN /\ infl' = Nil
                       ELSE /\ TRUE
                            /\ infl' = infl
                 /\ IF correct'[self] /\ outcome[self] = "nf"
                       THEN /\ val' = Nil
                            /\ UNCHANGED staleInstall
                       ELSE /\ IF correct'[self] /\ outcome[self] = "val"
                                  THEN /\ IF startedAt[self] # writes
                                             THEN /\ staleInstall' = TRUE
                                             ELSE /\ TRUE
                                                  /\ UNCHANGED staleInstall
                                       /\ val' = 100 + self
                                  ELSE /\ TRUE
                                       /\ UNCHANGED << val, staleInstall >>
                 /\ res' = [res EXCEPT ![self] = <<outcome[self], IF outcome[self] = "val" THEN 100 + self ELSE Nil>>]
                 /\ pc' = [pc EXCEPT ![self] = "release"]
                 /\ UNCHANGED << done, running, created, writes, startedAt, 
                                 superseded, got, mine, outcome >>

release(self) == /\ pc[self] = "release"
                 /\ done' = (done \cup {self})
                 /\ got' = [got EXCEPT ![self] = res[self]]
                 /\ pc' = [pc EXCEPT ![self] = "finish"]
                 /\ UNCHANGED << val, infl, running, created, res, writes, 
                                 startedAt, superseded, staleInstall, mine, 
                                 outcome, correct >>

wait(self) == /\ pc[self] = "wait"
              /\ mine[self] \in done
              /\ got' = [got EXCEPT ![self] = res[mine[self]]]
              /\ pc' = [pc EXCEPT ![self] = "finish"]
              /\ UNCHANGED << val, infl, done, running, created, res, writes, 
                              startedAt, superseded, staleInstall, mine, 
                              outcome, correct >>

finish(self) == /\ pc[self] = "finish"
                /\ TRUE
                /\ pc' = [pc EXCEPT ![self] = "Done"]
                /\ UNCHANGED << val, infl, done, running, created, res, writes, 
                                startedAt, superseded, got, staleInstall, mine, 
                                outcome, correct >>

Loader(self) == lookup(self) \/ start(self) \/ ldEnter(self)
                   \/ ldExit(self) \/ install(self) \/ release(self)
                   \/ wait(self) \/ finish(self)

write(self) == /\ pc[self] = "write"
               /\ IF WriterKind[self] = "set"
                     THEN /\ val' = 200 + self
                          /\ infl' = Nil
                          /\ writes' = writes + 1
                          /\ superseded' = (superseded \cup created)
                     ELSE /\ IF WriterKind[self] = "invalidate"
                                THEN /\ val' = Nil
                                     /\ infl' = Nil
                                     /\ writes' = writes + 1
                                     /\ superseded' = (superseded \cup created)
                                ELSE /\ IF val # Nil
                                           THEN /\ val' = Nil
                                                /\ infl' = Nil
                                                /\ writes' = writes + 1
                                                /\ superseded' = (superseded \cup created)
                                           ELSE /\ TRUE
                                                /\ UNCHANGED << val, infl, 
                                                                writes, 
                                                                superseded >>
               /\ pc' = [pc EXCEPT ![self] = "Done"]
               /\ UNCHANGED << done, running, created, res, startedAt, got, 
                               staleInstall, mine, outcome, correct >>

Writer(self) == write(self)

(* Allow infinite stuttering to prevent deadlock on termination. *)
Terminating == /\ \A self \in ProcSet: pc[self] = "Done"
               /\ UNCHANGED vars

Next == (\E self \in Getters \cup Refreshers: Loader(self))
           \/ (\E self \in Writers: Writer(self))
           \/ Terminating

Spec == /\ Init /\ [][Next]_vars
        /\ \A self \in Getters \cup Refreshers : WF_vars(Loader(self))
        /\ \A self \in Writers : WF_vars(Writer(self))

Termination == <>(\A self \in ProcSet: pc[self] = "Done")

\* END TRANSLATION

AllDone == \A p \in Getters \cup Refreshers \cup Writers : pc[p] = "Done"

\* C08
NoOverlap  == Cardinality(running \ superseded) <= 1
CleanTable == AllDone => infl = Nil
Returned   == AllDone => \A p \in Getters \cup Refreshers : got[p][1] # "none"
JoinersShare == \A p \in Getters \cup Refreshers :
                   (pc[p] = "Done" /\ mine[p] # Nil /\ mine[p] # p) => got[p] = res[mine[p]]
Terminates == <>AllDone
\* C09
NoStaleInstall == ~staleInstall
WriteWins == AllDone =>
                \A w \in Writers : TRUE
=============================================================================
