------------------------------ MODULE CacheMC ------------------------------
(***************************************************************************)
(* Bounded exhaustive instance of Cache.tla (design step).                 *)
(*                                                                         *)
(* Next picks every argument record the drivers can produce for 2 keys,    *)
(* 2 values, small durations and a 4-point clock, plus the environment     *)
(* steps (justified automatic removals).  The listed properties are        *)
(* written here a second time, declaratively, as action properties over    *)
(* (s, argument, results, s'), so TLC checks the step functions - which    *)
(* are structured like the code - against the property statements on       *)
(* every transition of the bounded instance.  The same graph is the        *)
(* source of the spec-derived operation sequences (binding B3).            *)
(***************************************************************************)
EXTENDS Cache, Json

CONSTANTS Cfg, MaxNow

\* named configurations (bound through  Cfg <- Name  in the generated .cfg files)
CfgBase == [nk |-> 2, max |-> 0, size |-> "none", expiry |-> "none", refresh |-> "none", e |-> 2, r |-> 1,
            dc |-> <<>>, du |-> <<>>, dr |-> <<>>, rc |-> <<>>, ru |-> <<>>, rr |-> <<>>, rf |-> <<>>, wt |-> <<>>,
            scale |-> 1, t0 |-> 0, initcap |-> 0, stats |-> 1, realclk |-> 0]
Cfg_plain      == CfgBase
Cfg_creating   == [CfgBase EXCEPT !.expiry = "creating"]
Cfg_writing    == [CfgBase EXCEPT !.expiry = "writing"]
Cfg_accessing  == [CfgBase EXCEPT !.expiry = "accessing"]
Cfg_custom     == [CfgBase EXCEPT !.expiry = "custom", !.dc = <<1, 2>>, !.du = <<0, 1>>, !.dr = <<2, 0>>]
Cfg_refresh    == [CfgBase EXCEPT !.refresh = "writing"]
Cfg_refreshC   == [CfgBase EXCEPT !.refresh = "creating", !.expiry = "writing"]
Cfg_refreshX   == [CfgBase EXCEPT !.refresh = "custom", !.rc = <<1, 2>>, !.ru = <<0, 1>>, !.rr = <<2, 0>>, !.rf = <<0, 1>>,
                                  !.expiry = "creating"]
Cfg_count      == [CfgBase EXCEPT !.size = "count", !.max = 1]
Cfg_countExp   == [CfgBase EXCEPT !.size = "count", !.max = 1, !.expiry = "writing"]
Cfg_weight     == [CfgBase EXCEPT !.size = "weight", !.max = 2, !.wt = <<0, 1, 3>>]
Cfg_weightAll  == [CfgBase EXCEPT !.size = "weight", !.max = 2, !.wt = <<2, 1, 0>>, !.expiry = "accessing", !.refresh = "writing"]

VARIABLES s, last
vars == <<s, last>>

K == 0 .. (Cfg.nk - 1)
V == {1, 2}
Durs == {0, 1, 2, INF}
Hows == {"write", "inv", "cancel", "panic"}
Lds  == {"val", "err", "nf", "panic"}
KeySeqs == {<<k>> : k \in K} \cup {<<k1, k2>> : k1 \in K, k2 \in K}
Supplies == {<<>>} \cup {<<k>> : k \in K} \cup {<<0, 1>>}
Shapes == {"map", "nil", "err", "errnf", "panic"}

A0 == [op |-> "", k |-> 0, v |-> 0, d |-> 0, dk |-> "", ks |-> <<>>, supply |-> <<>>, m |-> 0,
       iff |-> "", ifa |-> "", ld |-> "", shape |-> "", dt |-> 0, max2 |-> 0, adv |-> 0]

KeyOps == {"Set", "SetIfAbsent", "GetIfPresent", "GetEntry", "GetEntryQuietly", "Invalidate"}
Args ==
    {[A0 EXCEPT !.op = o, !.k = k, !.v = v] : o \in KeyOps, k \in K, v \in V}
    \cup {[A0 EXCEPT !.op = "Compute", !.k = k, !.v = 2, !.iff = f, !.ifa = g] : k \in K, f \in Hows, g \in Hows}
    \cup {[A0 EXCEPT !.op = "ComputeIfAbsent", !.k = k, !.v = 2, !.ifa = g] : k \in K, g \in {"write", "cancel", "panic"}}
    \cup {[A0 EXCEPT !.op = "ComputeIfPresent", !.k = k, !.v = 2, !.iff = f] : k \in K, f \in Hows}
    \cup {[A0 EXCEPT !.op = o, !.k = k, !.d = d] : o \in {"SetExpiresAfter", "SetRefreshableAfter"}, k \in K, d \in Durs}
    \* (adv: units by which the loader itself moves the clock - time passes inside user code)
    \cup {[A0 EXCEPT !.op = o, !.k = k, !.v = 1, !.ld = l, !.adv = x] : o \in {"Get", "Refresh"}, k \in K, l \in Lds, x \in {0, 1}}
    \cup {[A0 EXCEPT !.op = o, !.ks = q, !.supply = u, !.shape = h, !.v = 1, !.adv = x] :
             o \in {"BulkGet", "BulkRefresh"}, q \in KeySeqs, u \in Supplies, h \in Shapes, x \in {0, 1}}
    \cup {[A0 EXCEPT !.op = o] : o \in {"InvalidateAll", "All", "Keys", "Values", "Hottest", "CleanUp",
                                        "GetMaximum", "WeightedSize", "EstimatedSize"}}
    \cup {[A0 EXCEPT !.op = "SetMaximum", !.m = m] : m \in 0 .. 2}
    \cup {[A0 EXCEPT !.op = "Advance", !.d = 1]}

Z(st) == [st EXCEPT !.st = <<0, 0, 0, 0, 0, 0>>]     \* statistics are checked per step, not accumulated

Init == s = InitState(Cfg, 0) /\ last = [a |-> A0, o |-> O0, ev |-> <<>>, s1 |-> InitState(Cfg, 0)]

DoOp(a) ==
    /\ BoundOK(s)                                     \* maintenance restores the bound before the next call
    /\ a.op = "Advance" => s.now < MaxNow
    /\ a.adv > 0 => s.now < MaxNow
    /\ LET r == Step(s, a)
           f == RunAll(r.s, r.o.mw, <<>>)
       IN /\ s' = Z(f.s)
          /\ last' = [a |-> a, o |-> r.o, ev |-> f.ev, s1 |-> f.s]

DoAuto(k, c) ==
    LET ev == [k |-> k, v |-> s.ent[k].v, c |-> c]
    IN /\ s.ent[k].p
       /\ AutoOK(s, ev)
       /\ s' = Z(Auto(s, ev))
       /\ last' = [a |-> [A0 EXCEPT !.op = "auto", !.k = k], o |-> O0, ev |-> <<ev>>, s1 |-> Auto(s, ev)]

Next == (\E a \in Args : DoOp(a)) \/ (\E k \in K, c \in {"Overflow", "Expiration"} : DoAuto(k, c))
Spec == Init /\ [][Next]_vars

View == s
\* binding B3: in simulation mode every step prints its argument record; the runner turns the behaviours into
\* operation scripts for the sequential driver (the level restarts at every behaviour)
SimLog == PrintT(<<"STEP", TLCGet("level"), ToJson(last'.a), ToJson(Cfg)>>)
----------------------------------------------------------------------------
TimeOK(x) == x = INF \/ (x >= 0 /\ x <= MaxNow + 2)
TypeOK ==
    /\ s.now \in 0 .. MaxNow
    /\ \A k \in K : /\ s.ent[k].p \in BOOLEAN
                    /\ s.ent[k].p => (s.ent[k].v \in 1 .. 4 /\ s.ent[k].w \in 0 .. 3 /\ TimeOK(s.ent[k].exp) /\ TimeOK(s.ent[k].ref))
                    /\ ~HasExp(Cfg) /\ s.ent[k].p => s.ent[k].exp = INF
                    /\ ~HasRef(Cfg) /\ s.ent[k].p => s.ent[k].ref = INF

a == last'.a
o == last'.o
IsOp == a.op # "auto" /\ a.op # ""
Outs(x) == <<x.ok, x.val, x.err, x.panic, x.res, x.ents, x.ch, x.rrs, x.cbs, x.loads>>
Touched == IF a.op \in {"BulkGet", "BulkRefresh"} THEN SeqToSet(a.ks) \cup SeqToSet(a.supply) ELSE {a.k}
PutKeys == UNION {{w.k : w \in {x \in o.mw[j] : x.t = "put"}} : j \in DOMAIN o.mw}

\* C03: an operation behaves on an expired-unswept entry exactly as on an absent key ...
RECURSIVE Purge(_, _)
Purge(st, Q) == IF Q = {} THEN st ELSE LET k == CHOOSE x \in Q : TRUE IN Purge(Remove(st, k), Q \ {k})
DeadKeys(st) == {k \in K : Dead(st, k)}
C03_AsAbsent ==
    [][IsOp /\ a.op \notin {"EstimatedSize", "WeightedSize", "InvalidateAll"}
         => Outs(o) = Outs(Step(Purge(s, DeadKeys(s)), a).o)]_vars
\* ... and leaves the same live contents behind: value, weight, expiration and refresh deadline of every live entry after
\* the operation do not depend on whether the dead entries had been swept before it (C01 "an abstract map whose entries
\* carry an expiration deadline", C11 "reads of fresh entries trigger nothing", C12 "likewise for the refresh time").
\* Violated by the model of the code as found (F21: a write over an expired-unswept entry inherited the dead node's
\* deadlines and consulted the refresh calculator's update hook).
LiveProj(st) == [k \in K |-> IF Live(st, k) THEN <<st.ent[k].v, st.ent[k].w, st.ent[k].exp, st.ent[k].ref>> ELSE <<>>]
After(st, x) == LET r == Step(st, x) IN RunAll(r.s, r.o.mw, <<>>).s
C03_SweepIndependent ==
    [][IsOp /\ a.op \notin {"InvalidateAll"} => LiveProj(s') = LiveProj(After(Purge(s, DeadKeys(s)), a))]_vars
\* ... and nothing but a new write or a completed load makes the key visible again
C03_NoResurrection ==
    [][\A k \in K : Dead(s, k) /\ Live(s', k) => (IsOp /\ k \in PutKeys)]_vars
C03_ClockOnlyKills ==
    [][a.op = "Advance" => \A k \in K : ~Live(s, k) => ~Live(s', k)]_vars

\* C06: every step conserves values: puts - events raised = change of the number of nodes
NPuts == IF IsOp THEN Cardinality({<<j, w>> \in UNION {{<<j, w>> : w \in o.mw[j]} : j \in DOMAIN o.mw} : w.t = "put" /\ TRUE}) ELSE 0
C06_Causes ==
    [][\A j \in DOMAIN last'.ev :
          LET e == last'.ev[j]
          IN /\ e.c \in {"Replacement", "Invalidation", "Overflow", "Expiration"}
             /\ a.op = "auto" => e.c \in {"Overflow", "Expiration"}
             /\ IsOp => e.c \in {"Replacement", "Invalidation", "Expiration"}]_vars

\* C07: automatic removals only when justified; zero weight entries are never evicted for size
C07_Justified ==
    [][a.op = "auto" =>
          LET e == last'.ev[1]
          IN IF e.c = "Overflow"
             THEN HasSize(Cfg) /\ s.ent[e.k].w > 0 /\ (Total(s) > s.max \/ s.ent[e.k].w > s.max)
             ELSE HasExp(Cfg) /\ ~Before(s.now, s.ent[e.k].exp)]_vars

\* C10: load outcomes
C10_Get ==
    [][a.op = "Get" /\ ~Live(s, a.k) =>
          /\ o.loads = {[fn |-> "Load", ks |-> <<a.k>>, olds |-> <<>>]}
          /\ a.ld = "val" => (o.val = a.v /\ o.err = "" /\ Live(s', a.k) => s'.ent[a.k].v = a.v)
          /\ a.ld = "err" => (o.val = a.v /\ o.err = "err" /\ s'.ent = s.ent)
          /\ a.ld = "nf"  => (o.err = "nf" /\ ~s'.ent[a.k].p)]_vars
C10_BulkGet ==
    [][a.op = "BulkGet" /\ o.panic = 0 =>
          LET req == SeqToSet(a.ks)
              sup == IF a.shape = "map" THEN SeqToSet(a.supply) ELSE {}
              hits == {k \in req : Live(s, k)}
              calls == {l \in o.loads : l.fn = "BulkLoad"}
          IN /\ \A kv \in o.res : kv[1] \in req
             /\ \A k \in hits : <<k, s.ent[k].v>> \in o.res
             /\ \A k \in req \ hits : (\E kv \in o.res : kv[1] = k) <=> (k \in sup /\ a.shape = "map")
             /\ \A k \in req \ hits : k \in sup /\ a.shape = "map" => \E kv \in o.res : kv[1] = k /\ kv[2] >= a.v + k
             /\ Cardinality(calls) <= 1
             /\ \A l \in calls : SeqToSet(l.ks) = req \ hits
             /\ (req \ hits = {}) => calls = {}
             /\ a.shape = "err" /\ req \ hits # {} => o.err = "err"
             /\ a.shape \in {"err", "errnf"} => \A k \in Keys(s) : s'.ent[k].p = s.ent[k].p /\ s'.ent[k].v = s.ent[k].v]_vars

\* C11: refresh
C11_ServeOld ==
    [][a.op = "Get" /\ Live(s, a.k) =>
          /\ o.val = s.ent[a.k].v /\ o.ok = 1 /\ o.err = ""
          /\ (Fresh(s, a.k) \/ ~HasRef(Cfg)) => o.loads = {}
          /\ (HasRef(Cfg) /\ ~Fresh(s, a.k)) => o.loads = {[fn |-> "Reload", ks |-> <<a.k>>, olds |-> <<s.ent[a.k].v>>]}
          /\ (HasRef(Cfg) /\ ~Fresh(s, a.k) /\ a.ld \in {"err", "panic"}) =>
                (s'.ent[a.k].p /\ s'.ent[a.k].v = s.ent[a.k].v /\ s'.ent[a.k].exp = last'.s1.ent[a.k].exp)
          /\ (HasRef(Cfg) /\ ~Fresh(s, a.k) /\ a.ld = "nf") => ~s'.ent[a.k].p
          /\ (HasRef(Cfg) /\ ~Fresh(s, a.k) /\ a.ld = "val") => s'.ent[a.k].v = a.v]_vars
C11_RefreshChannel ==
    [][a.op \in {"Refresh", "BulkRefresh"} => (o.ch = 1 <=> HasRef(Cfg))]_vars

\* C12: deadlines per calculator kind
C12_Creating ==
    [][(Cfg.expiry = "creating" /\ IsOp /\ a.op # "SetExpiresAfter") =>
          \* (an entry that is still alive when the operation ends - a loader may take time - keeps its deadline)
          \A k \in K : (Live([s EXCEPT !.now = s'.now], k) /\ s'.ent[k].p) => s'.ent[k].exp = s.ent[k].exp]_vars
C12_Writing ==
    [][(Cfg.expiry = "writing" /\ IsOp) =>
          \A k \in K : (k \in PutKeys /\ s'.ent[k].p /\ s'.ent[k].v # s.ent[k].v) => s'.ent[k].exp = Plus(s'.now, Cfg.e)]_vars
C12_Accessing ==
    [][(Cfg.expiry = "accessing" /\ a.op \in {"GetIfPresent", "GetEntry"} /\ Live(s, a.k)) =>
          s'.ent[a.k].exp = Plus(s.now, Cfg.e)]_vars
C12_Override ==
    [][(a.op = "SetExpiresAfter" /\ HasExp(Cfg) /\ Pos(a.d) /\ Live(s, a.k)) => s'.ent[a.k].exp = Plus(s.now, a.d)]_vars
C12_Visible == \A k \in K : Live(s, k) <=> (s.ent[k].p /\ (s.ent[k].exp = INF \/ s.now < s.ent[k].exp))

\* C20: counters per step (s1 is the state before the statistics were cleared)
C20_Lookups ==
    [][IsOp =>
          LET st1 == last'.s1.st
              n == CASE a.op \in {"GetIfPresent", "GetEntry", "Get", "ComputeIfAbsent", "ComputeIfPresent"} -> 1
                     [] a.op = "Compute" -> IF o.panic = 1 THEN 0 ELSE 1
                     [] a.op = "BulkGet" -> Cardinality(SeqToSet(a.ks))
                     [] OTHER -> 0
              hitsWanted == CASE a.op \in {"GetIfPresent", "GetEntry", "Get", "ComputeIfAbsent", "ComputeIfPresent"} ->
                                    IF Live(s, a.k) THEN 1 ELSE 0
                              [] a.op = "Compute" -> IF o.panic = 0 /\ Live(s, a.k) THEN 1 ELSE 0
                              [] a.op = "BulkGet" -> Cardinality({k \in SeqToSet(a.ks) : Live(s, k)})
                              [] OTHER -> 0
          IN /\ st1[1] + st1[2] = n
             /\ st1[1] = hitsWanted
             /\ st1[5] + st1[6] = Cardinality(o.loads)
             /\ st1[3] = 0 /\ st1[4] = 0]_vars
=============================================================================
