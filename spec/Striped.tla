------------------------------ MODULE Striped ------------------------------
(***************************************************************************)
(* The stripe table of the lossy read buffer (internal/lossy/striped.go,   *)
(* after Caffeine's StripedBuffer / Striped64): rings are attached to nil  *)
(* slots and the table is doubled under the busy flag, after re-checking   *)
(* the table pointer; the fast path and DrainTo read table and slots       *)
(* without the flag.  What a ring does with an element is Ring.tla; here   *)
(* ring.add is an oracle returning Success / Failed / Full.                *)
(*                                                                         *)
(* C17 (stripe part): RingsKept - a ring that was ever reachable (it holds *)
(* recorded elements) stays reachable in the current table, in the same    *)
(* slot; TableOK - the length is a power of two <= MaxLen; the busy flag   *)
(* is free at quiescence.                                                  *)
(* CopyAll = FALSE models an expansion that forgets the last stripe.       *)
(***************************************************************************)
EXTENDS Integers, Sequences, FiniteSets, TLC

CONSTANTS Adders, NAdd, MaxLen, Attempts, CopyAll

(* --algorithm Striped
variables tables = <<>>,          \* every table ever published: sequence of sequences of ring ids (0 = nil slot)
          cur = 0,                \* index of the current table (0 = nil)
          busy = 0,
          nrings = 0,
          lostRing = FALSE;

define
  Tbl(i) == IF i = 0 THEN <<>> ELSE tables[i]
  Pow2(n) == n \in {1, 2, 4, 8, 16}
end define;

fair process Adder \in Adders
variables n = 0, att = 0, bs = 0, rs = 0, idx = 0, buf = 0, collide = TRUE, unc = TRUE, res = "none";
begin
 A0: while n < NAdd do
       n := n + 1; res := "none"; unc := TRUE; collide := TRUE; att := 0;
 st_ldTable: bs := cur;
       if bs = 0 then goto retry; end if;
 fast_ldBuf: with i \in 1 .. Len(Tbl(bs)) do idx := i; end with;
       buf := Tbl(bs)[idx];
       if buf = 0 then goto retry; end if;
 fast_add: with r \in {"Success", "Failed", "Full"} do res := r; end with;
       if res # "Failed" then goto A0; else unc := FALSE; end if;
 retry: while att < Attempts do
          att := att + 1;
 st_retry: bs := cur;
          if bs # 0 then
             if idx > Len(Tbl(bs)) \/ idx = 0 then with i \in 1 .. Len(Tbl(bs)) do idx := i; end with; end if;
 r_ldBuf:    buf := Tbl(bs)[idx];
             if buf = 0 then
 r_casBusy1:    if busy = 0 then
                   busy := 1;
 st_recheck:       rs := cur;
                   if rs # 0 /\ idx <= Len(Tbl(rs)) /\ Tbl(rs)[idx] = 0 then
 st_attach:           nrings := nrings + 1;
                      tables[rs][idx] := nrings;
                      res := "Success";
                   end if;
 st_release1:      busy := 0;
                   if res = "Success" then goto A0; end if;
                else
                   collide := FALSE;
 rehash1:          with i \in 1 .. Len(Tbl(bs)) do idx := i; end with;
                end if;
             elsif ~unc then
                unc := TRUE;
 rehash2:       with i \in 1 .. Len(Tbl(bs)) do idx := i; end with;
             else
 r_add:         with r \in {"Success", "Failed", "Full"} do res := r; end with;
                if res # "Failed" then goto A0;
                elsif Len(Tbl(bs)) >= MaxLen \/ cur # bs then
                   collide := FALSE;
                elsif ~collide then
                   collide := TRUE;
                else
 r_casBusy2:       if busy = 0 then
                      busy := 1;
 st_grow:             if cur = bs then
                         tables := Append(tables, [j \in 1 .. (2 * Len(Tbl(bs))) |->
                                                     IF j <= Len(Tbl(bs)) /\ (CopyAll \/ j < Len(Tbl(bs)) \/ Len(Tbl(bs)) = 1) THEN Tbl(bs)[j] ELSE 0]);
                         cur := Len(tables);
                      end if;
 st_release2:         busy := 0;
                      collide := FALSE;
                      goto retry;
                   end if;
                end if;
 rehash3:       with i \in 1 .. Len(Tbl(bs)) do idx := i; end with;
             end if;
          else
 r_casBusy3: if busy = 0 /\ cur = bs then
                busy := 1;
 st_init:       if cur = bs then
                   nrings := nrings + 1;
                   tables := Append(tables, <<nrings>>);
                   cur := Len(tables);
                   res := "Success";
                end if;
 st_release3:   busy := 0;
                if res = "Success" then goto A0; end if;
             end if;
          end if;
       end while;
     end while;
end process;
end algorithm; *)
\* BEGIN TRANSLATION
VARIABLES pc, tables, cur, busy, nrings, lostRing

(* define statement *)
Tbl(i) == IF i = 0 THEN <<>> ELSE tables[i]
Pow2(n) == n \in {1, 2, 4, 8, 16}

VARIABLES n, att, bs, rs, idx, buf, collide, unc, res

vars == << pc, tables, cur, busy, nrings, lostRing, n, att, bs, rs, idx, buf, 
           collide, unc, res >>

ProcSet == (Adders)

Init == (* Global variables *)
        /\ tables = <<>>
        /\ cur = 0
        /\ busy = 0
        /\ nrings = 0
        /\ lostRing = FALSE
        (* Process Adder *)
        /\ n = [self \in Adders |-> 0]
        /\ att = [self \in Adders |-> 0]
        /\ bs = [self \in Adders |-> 0]
        /\ rs = [self \in Adders |-> 0]
        /\ idx = [self \in Adders |-> 0]
        /\ buf = [self \in Adders |-> 0]
        /\ collide = [self \in Adders |-> TRUE]
        /\ unc = [self \in Adders |-> TRUE]
        /\ res = [self \in Adders |-> "none"]
        /\ pc = [self \in ProcSet |-> "A0"]

A0(self) == /\ pc[self] = "A0"
            /\ IF n[self] < NAdd
                  THEN /\ n' = [n EXCEPT ![self] = n[self] + 1]
                       /\ res' = [res EXCEPT ![self] = "none"]
                       /\ unc' = [unc EXCEPT ![self] = TRUE]
                       /\ collide' = [collide EXCEPT ![self] = TRUE]
                       /\ att' = [att EXCEPT ![self] = 0]
                       /\ pc' = [pc EXCEPT ![self] = "st_ldTable"]
                  ELSE /\ pc' = [pc EXCEPT ![self] = "Done"]
                       /\ UNCHANGED << n, att, collide, unc, res >>
            /\ UNCHANGED << tables, cur, busy, nrings, lostRing, bs, rs, idx, 
                            buf >>

st_ldTable(self) == /\ pc[self] = "st_ldTable"
                    /\ bs' = [bs EXCEPT ![self] = cur]
                    /\ IF bs'[self] = 0
                          THEN /\ pc' = [pc EXCEPT ![self] = "retry"]
                          ELSE /\ pc' = [pc EXCEPT ![self] = "fast_ldBuf"]
                    /\ UNCHANGED << tables, cur, busy, nrings, lostRing, n, 
                                    att, rs, idx, buf, collide, unc, res >>

fast_ldBuf(self) == /\ pc[self] = "fast_ldBuf"
                    /\ \E i \in 1 .. Len(Tbl(bs[self])):
                         idx' = [idx EXCEPT ![self] = i]
                    /\ buf' = [buf EXCEPT ![self] = Tbl(bs[self])[idx'[self]]]
                    /\ IF buf'[self] = 0
                          THEN /\ pc' = [pc EXCEPT ![self] = "retry"]
                          ELSE /\ pc' = [pc EXCEPT ![self] = "fast_add"]
                    /\ UNCHANGED << tables, cur, busy, nrings, lostRing, n, 
                                    att, bs, rs, collide, unc, res >>

fast_add(self) == /\ pc[self] = "fast_add"
                  /\ \E r \in {"Success", "Failed", "Full"}:
                       res' = [res EXCEPT ![self] = r]
                  /\ IF res'[self] # "Failed"
                        THEN /\ pc' = [pc EXCEPT ![self] = "A0"]
                             /\ unc' = unc
                        ELSE /\ unc' = [unc EXCEPT ![self] = FALSE]
                             /\ pc' = [pc EXCEPT ![self] = "retry"]
                  /\ UNCHANGED << tables, cur, busy, nrings, lostRing, n, att, 
                                  bs, rs, idx, buf, collide >>

retry(self) == /\ pc[self] = "retry"
               /\ IF att[self] < Attempts
                     THEN /\ att' = [att EXCEPT ![self] = att[self] + 1]
                          /\ pc' = [pc EXCEPT ![self] = "st_retry"]
                     ELSE /\ pc' = [pc EXCEPT ![self] = "A0"]
                          /\ att' = att
               /\ UNCHANGED << tables, cur, busy, nrings, lostRing, n, bs, rs, 
                               idx, buf, collide, unc, res >>

st_retry(self) == /\ pc[self] = "st_retry"
                  /\ bs' = [bs EXCEPT ![self] = cur]
                  /\ IF bs'[self] # 0
                        THEN /\ IF idx[self] > Len(Tbl(bs'[self])) \/ idx[self] = 0
                                   THEN /\ \E i \in 1 .. Len(Tbl(bs'[self])):
                                             idx' = [idx EXCEPT ![self] = i]
                                   ELSE /\ TRUE
                                        /\ idx' = idx
                             /\ pc' = [pc EXCEPT ![self] = "r_ldBuf"]
                        ELSE /\ pc' = [pc EXCEPT ![self] = "r_casBusy3"]
                             /\ idx' = idx
                  /\ UNCHANGED << tables, cur, busy, nrings, lostRing, n, att, 
                                  rs, buf, collide, unc, res >>

r_ldBuf(self) == /\ pc[self] = "r_ldBuf"
                 /\ buf' = [buf EXCEPT ![self] = Tbl(bs[self])[idx[self]]]
                 /\ IF buf'[self] = 0
                       THEN /\ pc' = [pc EXCEPT ![self] = "r_casBusy1"]
                            /\ unc' = unc
                       ELSE /\ IF ~unc[self]
                                  THEN /\ unc' = [unc EXCEPT ![self] = TRUE]
                                       /\ pc' = [pc EXCEPT ![self] = "rehash2"]
                                  ELSE /\ pc' = [pc EXCEPT ![self] = "r_add"]
                                       /\ unc' = unc
                 /\ UNCHANGED << tables, cur, busy, nrings, lostRing, n, att, 
                                 bs, rs, idx, collide, res >>

r_casBusy1(self) == /\ pc[self] = "r_casBusy1"
                    /\ IF busy = 0
                          THEN /\ busy' = 1
                               /\ pc' = [pc EXCEPT ![self] = "st_recheck"]
                               /\ UNCHANGED collide
                          ELSE /\ collide' = [collide EXCEPT ![self] = FALSE]
                               /\ pc' = [pc EXCEPT ![self] = "rehash1"]
                               /\ busy' = busy
                    /\ UNCHANGED << tables, cur, nrings, lostRing, n, att, bs, 
                                    rs, idx, buf, unc, res >>

st_recheck(self) == /\ pc[self] = "st_recheck"
                    /\ rs' = [rs EXCEPT ![self] = cur]
                    /\ IF rs'[self] # 0 /\ idx[self] <= Len(Tbl(rs'[self])) /\ Tbl(rs'[self])[idx[self]] = 0
                          THEN /\ pc' = [pc EXCEPT ![self] = "st_attach"]
                          ELSE /\ pc' = [pc EXCEPT ![self] = "st_release1"]
                    /\ UNCHANGED << tables, cur, busy, nrings, lostRing, n, 
                                    att, bs, idx, buf, collide, unc, res >>

st_attach(self) == /\ pc[self] = "st_attach"
                   /\ nrings' = nrings + 1
                   /\ tables' = [tables EXCEPT ![rs[self]][idx[self]] = nrings']
                   /\ res' = [res EXCEPT ![self] = "Success"]
                   /\ pc' = [pc EXCEPT ![self] = "st_release1"]
                   /\ UNCHANGED << cur, busy, lostRing, n, att, bs, rs, idx, 
                                   buf, collide, unc >>

st_release1(self) == /\ pc[self] = "st_release1"
                     /\ busy' = 0
                     /\ IF res[self] = "Success"
                           THEN /\ pc' = [pc EXCEPT ![self] = "A0"]
                           ELSE /\ pc' = [pc EXCEPT ![self] = "retry"]
                     /\ UNCHANGED << tables, cur, nrings, lostRing, n, att, bs, 
                                     rs, idx, buf, collide, unc, res >>

rehash1(self) == /\ pc[self] = "rehash1"
                 /\ \E i \in 1 .. Len(Tbl(bs[self])):
                      idx' = [idx EXCEPT ![self] = i]
                 /\ pc' = [pc EXCEPT ![self] = "retry"]
                 /\ UNCHANGED << tables, cur, busy, nrings, lostRing, n, att, 
                                 bs, rs, buf, collide, unc, res >>

rehash2(self) == /\ pc[self] = "rehash2"
                 /\ \E i \in 1 .. Len(Tbl(bs[self])):
                      idx' = [idx EXCEPT ![self] = i]
                 /\ pc' = [pc EXCEPT ![self] = "retry"]
                 /\ UNCHANGED << tables, cur, busy, nrings, lostRing, n, att, 
                                 bs, rs, buf, collide, unc, res >>

r_add(self) == /\ pc[self] = "r_add"
               /\ \E r \in {"Success", "Failed", "Full"}:
                    res' = [res EXCEPT ![self] = r]
               /\ IF res'[self] # "Failed"
                     THEN /\ pc' = [pc EXCEPT ![self] = "A0"]
                          /\ UNCHANGED collide
                     ELSE /\ IF Len(Tbl(bs[self])) >= MaxLen \/ cur # bs[self]
                                THEN /\ collide' = [collide EXCEPT ![self] = FALSE]
                                     /\ pc' = [pc EXCEPT ![self] = "rehash3"]
                                ELSE /\ IF ~collide[self]
                                           THEN /\ collide' = [collide EXCEPT ![self] = TRUE]
                                                /\ pc' = [pc EXCEPT ![self] = "rehash3"]
                                           ELSE /\ pc' = [pc EXCEPT ![self] = "r_casBusy2"]
                                                /\ UNCHANGED collide
               /\ UNCHANGED << tables, cur, busy, nrings, lostRing, n, att, bs, 
                               rs, idx, buf, unc >>

r_casBusy2(self) == /\ pc[self] = "r_casBusy2"
                    /\ IF busy = 0
                          THEN /\ busy' = 1
                               /\ pc' = [pc EXCEPT ![self] = "st_grow"]
                          ELSE /\ pc' = [pc EXCEPT ![self] = "rehash3"]
                               /\ busy' = busy
                    /\ UNCHANGED << tables, cur, nrings, lostRing, n, att, bs, 
                                    rs, idx, buf, collide, unc, res >>

st_grow(self) == /\ pc[self] = "st_grow"
                 /\ IF cur = bs[self]
                       THEN /\ tables' = Append(tables, [j \in 1 .. (2 * Len(Tbl(bs[self]))) |->
                                                           IF j <= Len(Tbl(bs[self])) /\ (CopyAll \/ j < Len(Tbl(bs[self])) \/ Len(Tbl(bs[self])) = 1) THEN Tbl(bs[self])[j] ELSE 0])
                            /\ cur' = Len(tables')
                       ELSE /\ TRUE
                            /\ UNCHANGED << tables, cur >>
                 /\ pc' = [pc EXCEPT ![self] = "st_release2"]
                 /\ UNCHANGED << busy, nrings, lostRing, n, att, bs, rs, idx, 
                                 buf, collide, unc, res >>

st_release2(self) == /\ pc[self] = "st_release2"
                     /\ busy' = 0
                     /\ collide' = [collide EXCEPT ![self] = FALSE]
                     /\ pc' = [pc EXCEPT ![self] = "retry"]
                     /\ UNCHANGED << tables, cur, nrings, lostRing, n, att, bs, 
                                     rs, idx, buf, unc, res >>

rehash3(self) == /\ pc[self] = "rehash3"
                 /\ \E i \in 1 .. Len(Tbl(bs[self])):
                      idx' = [idx EXCEPT ![self] = i]
                 /\ pc' = [pc EXCEPT ![self] = "retry"]
                 /\ UNCHANGED << tables, cur, busy, nrings, lostRing, n, att, 
                                 bs, rs, buf, collide, unc, res >>

r_casBusy3(self) == /\ pc[self] = "r_casBusy3"
                    /\ IF busy = 0 /\ cur = bs[self]
                          THEN /\ busy' = 1
                               /\ pc' = [pc EXCEPT ![self] = "st_init"]
                          ELSE /\ pc' = [pc EXCEPT ![self] = "retry"]
                               /\ busy' = busy
                    /\ UNCHANGED << tables, cur, nrings, lostRing, n, att, bs, 
                                    rs, idx, buf, collide, unc, res >>

st_init(self) == /\ pc[self] = "st_init"
                 /\ IF cur = bs[self]
                       THEN /\ nrings' = nrings + 1
                            /\ tables' = Append(tables, <<nrings'>>)
                            /\ cur' = Len(tables')
                            /\ res' = [res EXCEPT ![self] = "Success"]
                       ELSE /\ TRUE
                            /\ UNCHANGED << tables, cur, nrings, res >>
                 /\ pc' = [pc EXCEPT ![self] = "st_release3"]
                 /\ UNCHANGED << busy, lostRing, n, att, bs, rs, idx, buf, 
                                 collide, unc >>

st_release3(self) == /\ pc[self] = "st_release3"
                     /\ busy' = 0
                     /\ IF res[self] = "Success"
                           THEN /\ pc' = [pc EXCEPT ![self] = "A0"]
                           ELSE /\ pc' = [pc EXCEPT ![self] = "retry"]
                     /\ UNCHANGED << tables, cur, nrings, lostRing, n, att, bs, 
                                     rs, idx, buf, collide, unc, res >>

Adder(self) == A0(self) \/ st_ldTable(self) \/ fast_ldBuf(self)
                  \/ fast_add(self) \/ retry(self) \/ st_retry(self)
                  \/ r_ldBuf(self) \/ r_casBusy1(self) \/ st_recheck(self)
                  \/ st_attach(self) \/ st_release1(self) \/ rehash1(self)
                  \/ rehash2(self) \/ r_add(self) \/ r_casBusy2(self)
                  \/ st_grow(self) \/ st_release2(self) \/ rehash3(self)
                  \/ r_casBusy3(self) \/ st_init(self) \/ st_release3(self)

(* Allow infinite stuttering to prevent deadlock on termination. *)
Terminating == /\ \A self \in ProcSet: pc[self] = "Done"
               /\ UNCHANGED vars

Next == (\E self \in Adders: Adder(self))
           \/ Terminating

Spec == /\ Init /\ [][Next]_vars
        /\ \A self \in Adders : WF_vars(Adder(self))

Termination == <>(\A self \in ProcSet: pc[self] = "Done")

\* END TRANSLATION

RingsOf(i) == {Tbl(i)[j] : j \in 1 .. Len(Tbl(i))} \ {0}
\* every ring ever created is still reachable from the current table
RingsKept == (1 .. nrings) \subseteq RingsOf(cur)
\* a slot never changes the ring it holds, within a table and across the table that replaces it
SlotsStable == \A i \in 1 .. Len(tables) : \A j \in 1 .. Len(tables[i]) :
                  (i < Len(tables) /\ tables[i][j] # 0 /\ j <= Len(tables[i + 1])) => tables[i + 1][j] \in {tables[i][j]}
TableOK == cur = 0 \/ (Pow2(Len(Tbl(cur))) /\ Len(Tbl(cur)) <= MaxLen)
AllDone == \A a \in Adders : pc[a] = "Done"
BusyFree == AllDone => busy = 0
=============================================================================
