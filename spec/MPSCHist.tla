------------------------------ MODULE MPSCHist ------------------------------
(***************************************************************************)
(* Judges histories of the real MPSC queue (harness/queue/                 *)
(* verif_mpsc_test.go) with the invariants of MPSC.tla restated over the   *)
(* logged pushes and pops (the abstract object is a bounded queue that is  *)
(* FIFO per producer):  NoDup, Order, Complete, OnlyAccepted, Bounded,     *)
(* RefusedOnlyWhenFull (gate-scheduled runs only: the size read right      *)
(* after a refusal is then exact).                                         *)
(***************************************************************************)
EXTENDS Integers, Sequences, FiniteSets, TLC, Json, IOUtils

Recs == ndJsonDeserialize(IOEnv.VERIF_TRACE)
VARIABLES i, dev
vars == <<i, dev>>
F(idx, name, detail) == [rec |-> idx, pred |-> name, detail |-> ToString(detail)]

Check(r, idx) ==
    LET out == r.out
        outSet == {<<out[j].p, out[j].n>> : j \in DOMAIN out}
        acc == {<<r.pushes[j].p, r.pushes[j].n>> : j \in {x \in DOMAIN r.pushes : r.pushes[x].ok = 1}}
        refused == {j \in DOMAIN r.pushes : r.pushes[j].ok = 0}
        disorder == {<<a, b>> \in (DOMAIN out) \X (DOMAIN out) : a < b /\ out[a].p = out[b].p /\ out[a].n >= out[b].n}
    IN
    (IF r.diag # "" THEN <<F(idx, "C16.abnormal_end", r.diag)>> ELSE <<>>)
    \o (IF Cardinality(outSet) # Len(out) THEN <<F(idx, "C16.duplicate", out)>> ELSE <<>>)
    \o (IF disorder # {} THEN <<F(idx, "C16.order", <<disorder, out>>)>> ELSE <<>>)
    \o (IF ~(outSet \subseteq acc) THEN <<F(idx, "C16.not_accepted", outSet \ acc)>> ELSE <<>>)
    \o (IF r.diag = "" /\ ~(acc \subseteq outSet) THEN <<F(idx, "C16.lost", acc \ outSet)>> ELSE <<>>)
    \o (IF r.left # 0 THEN <<F(idx, "C16.left_in_queue", r.left)>> ELSE <<>>)
    \o (IF r.maxsz > r.cap THEN <<F(idx, "C16.over_capacity", <<r.maxsz, r.cap>>)>> ELSE <<>>)
    \o (IF r.gated = 1 /\ \E j \in refused : r.pushes[j].size # r.cap
        THEN <<F(idx, "C16.refused_not_full", <<{r.pushes[j] : j \in refused}, r.cap>>)>> ELSE <<>>)
    \o (IF Cardinality(acc) + Cardinality(refused) # Len(r.pushes) THEN <<F(idx, "C16.push_log", Len(r.pushes))>> ELSE <<>>)

Init == i = 1 /\ dev = <<>>
Next == \/ /\ i <= Len(Recs)
           /\ dev' = dev \o Check(Recs[i], i)
           /\ i' = i + 1
        \/ /\ i = Len(Recs) + 1
           /\ JsonSerialize(IOEnv.VERIF_DEVOUT, [n |-> Len(Recs), devs |-> dev])
           /\ i' = i + 1
           /\ UNCHANGED dev
Spec == Init /\ [][Next]_vars
=============================================================================
