------------------------------ MODULE LinTrace ------------------------------
(***************************************************************************)
(* Linearizability of recorded concurrent histories against a sequential   *)
(* map (the abstract object of C02 and C15), as trace validation by        *)
(* SEARCH: the trace holds call / return / automatic-removal events        *)
(* ordered by one global sequence number; the linearisation point of each  *)
(* pending operation is a silent step  Lin(c)  that applies the operation  *)
(* atomically to  map ; a return is consumable only if the operation has   *)
(* been linearised and produced exactly the logged result; an automatic    *)
(* removal (eviction / expiration, logged from inside the table            *)
(* computation) takes effect at a silent step AutoLin between the report   *)
(* and the next record of the reporting goroutine (the removal is published*)
(* when the computation that called the handler ends) and only if the map  *)
(* holds that value.                                                       *)
(* The history is linearizable iff TLC can consume the whole trace:        *)
(* acceptance is the high-water mark of the trace position (TLC register   *)
(* 1), checked by the POSTCONDITION.                                       *)
(*                                                                         *)
(* Lin steps are only taken when the next event is not a call (delaying a  *)
(* linearisation point past later calls is always possible), which keeps   *)
(* the search small without losing completeness.                           *)
(***************************************************************************)
EXTENDS Integers, Sequences, FiniteSets, TLC, Json, IOUtils

Trace == ndJsonDeserialize(IOEnv.VERIF_TRACE)
NIL == -1
Clients == {Trace[j].c : j \in DOMAIN Trace}
KeysT == {Trace[j].k : j \in DOMAIN Trace}

VARIABLES l, map, pend, pa
vars == <<l, map, pend, pa>>
None == [op |-> "none"]

Init == l = 1 /\ map = [k \in KeysT |-> NIL] /\ pend = [c \in Clients |-> None] /\ pa = {}

\* sequential semantics: [m, rv, rok, ok]  (ok = FALSE: this operation cannot take effect in this state)
Apply(e, m) ==
    LET cur == m[e.k]
    IN CASE e.op = "set" -> [m |-> [m EXCEPT ![e.k] = e.v], rv |-> IF cur = NIL THEN e.v ELSE cur, rok |-> IF cur = NIL THEN 1 ELSE 0, ok |-> TRUE]
         [] e.op = "sia" -> IF cur = NIL THEN [m |-> [m EXCEPT ![e.k] = e.v], rv |-> e.v, rok |-> 1, ok |-> TRUE]
                            ELSE [m |-> m, rv |-> cur, rok |-> 0, ok |-> TRUE]
         [] e.op = "get" -> [m |-> m, rv |-> cur, rok |-> IF cur = NIL THEN 0 ELSE 1, ok |-> TRUE]
         [] e.op = "inv" -> [m |-> [m EXCEPT ![e.k] = NIL], rv |-> cur, rok |-> IF cur = NIL THEN 0 ELSE 1, ok |-> TRUE]
         [] e.op = "cmp" -> \* the callback ran exactly once and saw the value that its write replaces
                            IF e.saw # cur THEN [m |-> m, rv |-> NIL, rok |-> 0, ok |-> FALSE]
                            ELSE CASE e.act = "write"  -> [m |-> [m EXCEPT ![e.k] = e.v], rv |-> e.v, rok |-> 1, ok |-> TRUE]
                                   [] e.act = "inv"    -> [m |-> [m EXCEPT ![e.k] = NIL], rv |-> NIL, rok |-> 0, ok |-> TRUE]
                                   [] OTHER            -> [m |-> m, rv |-> cur, rok |-> IF cur = NIL THEN 0 ELSE 1, ok |-> TRUE]
         [] e.op = "cia" -> \* ComputeIfAbsent: an existing value is returned untouched, otherwise the callback runs once
                            IF cur # NIL THEN [m |-> m, rv |-> cur, rok |-> 1, ok |-> e.nc = 0 \/ e.act = "found"]
                            ELSE IF e.act = "write" THEN [m |-> [m EXCEPT ![e.k] = e.v], rv |-> e.v, rok |-> 1, ok |-> e.nc = 1]
                            ELSE [m |-> m, rv |-> NIL, rok |-> 0, ok |-> e.nc = 1]
         [] e.op = "cip" -> \* ComputeIfPresent
                            IF cur = NIL THEN [m |-> m, rv |-> NIL, rok |-> 0, ok |-> e.nc = 0]
                            ELSE IF e.nc # 1 \/ e.saw # cur THEN [m |-> m, rv |-> NIL, rok |-> 0, ok |-> FALSE]
                            ELSE CASE e.act = "write" -> [m |-> [m EXCEPT ![e.k] = e.v], rv |-> e.v, rok |-> 1, ok |-> TRUE]
                                   [] e.act = "inv"   -> [m |-> [m EXCEPT ![e.k] = NIL], rv |-> NIL, rok |-> 0, ok |-> TRUE]
                                   [] OTHER           -> [m |-> m, rv |-> cur, rok |-> 1, ok |-> TRUE]
         [] e.op = "ldget" -> \* loader-backed Get: a hit, or a miss that returns a loaded value (installed at a second point)
                            IF cur # NIL THEN [m |-> m, rv |-> cur, rok |-> 1, ok |-> TRUE]
                            ELSE [m |-> m, rv |-> e.rv, rok |-> 1, ok |-> e.hit = 0]
         [] e.op = "clr" -> \* Clear of the table (C15): every key is removed at one instant
                            [m |-> [k \in DOMAIN m |-> NIL], rv |-> NIL, rok |-> 0, ok |-> TRUE]
         [] OTHER -> [m |-> m, rv |-> NIL, rok |-> 0, ok |-> TRUE]

\* line l may be consumed only if no reported automatic removal has to take effect before it
Open == l <= Len(Trace)
More == Open /\ \A a \in pa : a.bi # l
\* C09 inside the search: a loaded value may be installed only if no write, invalidation or automatic removal of the
\* key took effect since the load STARTED (the driver logs "ldstart" from inside the loader, which runs after the
\* in-flight record was created) - such loads are marked dirty.  Only the caller that ran the loader installs.
\* `touched`: some write / removal of the key took effect since the call's own linearisation point (its lookup); such
\* a load may or may not have been installed (a write between the lookup and the registration of the in-flight record
\* cancels nothing but makes the install step find a newer entry).
\* An explicit invalidation (or a compute that invalidates) of an ABSENT key changes nothing in the map but still
\* cancels an in-flight load (C09: "nothing, after an invalidation"): it touches without making the install illegal.
Dirty2(pd, ks, kt, except) == [c \in DOMAIN pd |-> IF c # except /\ pd[c] # None /\ pd[c].op = "ldget" /\ ~pd[c].inst /\ pd[c].k \in (ks \cup kt)
                                               THEN [pd[c] EXCEPT !.dirty = (@ \/ (pd[c].started /\ pd[c].k \in ks)), !.touched = (@ \/ pd[c].lin)] ELSE pd[c]]
Dirty(pd, ks, except) == Dirty2(pd, ks, {}, except)
Cancels(e) == e.op \in {"set", "inv"} \/ (e.op \in {"cmp", "cia", "cip"} /\ e.act \in {"write", "inv"})
Call == /\ More /\ Trace[l].t = "call"
        /\ pend[Trace[l].c] = None
        /\ pend' = [pend EXCEPT ![Trace[l].c] = [op |-> Trace[l].op, lin |-> FALSE, rv |-> NIL, rok |-> 0, inst |-> FALSE, miss |-> FALSE, dirty |-> FALSE, touched |-> FALSE, started |-> FALSE, k |-> Trace[l].k, ri |-> Trace[l].ri]]
        /\ l' = l + 1 /\ UNCHANGED <<map, pa>>

\* the return record carries what the callback saw / did, so the operation is applied with the return's fields;
\* every call record carries ri, the position of its return record (filled in by the runner)
Lin(c) == /\ Open /\ Trace[l].t # "call"
          /\ pend[c] # None /\ ~pend[c].lin
          /\ LET a == Apply(Trace[pend[c].ri], map)
             IN /\ a.ok
                /\ map' = a.m
                /\ pend' = Dirty2([pend EXCEPT ![c].lin = TRUE, ![c].rv = a.rv, ![c].rok = a.rok, ![c].miss = (map[Trace[pend[c].ri].k] = NIL)],
                                  IF a.m # map THEN (IF Trace[pend[c].ri].op = "clr" THEN KeysT ELSE {Trace[pend[c].ri].k}) ELSE {},
                                  IF Cancels(Trace[pend[c].ri]) THEN {Trace[pend[c].ri].k} ELSE {}, c)
          /\ UNCHANGED <<l, pa>>

\* second linearisation point of a loader-backed Get that missed: the loaded value is installed unless it was superseded
Install(c) == /\ Open /\ Trace[l].t # "call"
              /\ pend[c] # None /\ pend[c].lin /\ pend[c].op = "ldget" /\ ~pend[c].inst /\ pend[c].miss /\ pend[c].started /\ ~pend[c].dirty
              \* C02 itself: the Get behaves as ONE operation of a sequential map - miss, load, store.  A write or removal of the key that
              \* took effect after the miss (even before the in-flight record was registered, where it cancels nothing) and before the
              \* store cannot be ordered on either side of such a Get: the loaded value is handed to the caller only (seeded C02k)
              /\ ~pend[c].touched
              /\ map' = [map EXCEPT ![Trace[pend[c].ri].k] = Trace[pend[c].ri].rv]
              \* the installation is a write of the key for every other load of it
              /\ pend' = Dirty([pend EXCEPT ![c].inst = TRUE], {Trace[pend[c].ri].k}, c)
              /\ UNCHANGED <<l, pa>>

Ret == /\ More /\ Trace[l].t = "ret"
       /\ LET c == Trace[l].c
          IN /\ pend[c] # None /\ pend[c].lin
             /\ pend[c].rv = Trace[l].rv /\ pend[c].rok = Trace[l].rok
             /\ (Trace[l].op = "cmp" => Trace[l].nc = 1)
             \* single flight: a loaded value is in the cache when the call that loaded it - or a call that joined that
             \* flight - returns, unless a write or removal of the key intervened (C09: then it is handed over only)
             /\ (pend[c].op = "ldget" /\ pend[c].miss) =>
                   IF pend[c].started THEN pend[c].inst \/ pend[c].touched
                   ELSE \A d \in Clients : (d # c /\ pend[d] # None /\ pend[d].op = "ldget" /\ pend[d].k = pend[c].k /\ pend[d].started
                                               /\ Trace[pend[d].ri].rv = Trace[l].rv)
                                              => (pend[d].lin /\ (pend[d].inst \/ pend[d].touched))
             /\ pend' = [pend EXCEPT ![c] = None]
       /\ l' = l + 1 /\ UNCHANGED <<map, pa>>

Auto == /\ More /\ Trace[l].t = "auto"
        /\ pa' = pa \cup {[k |-> Trace[l].k, v |-> Trace[l].v, bi |-> Trace[l].bi, at |-> l]}
        /\ l' = l + 1 /\ UNCHANGED <<map, pend>>
\* the removal becomes visible: after its report, before the reporting goroutine's next record
AutoLin(a) == /\ Open /\ (Trace[l].t # "call" \/ a.bi = l)
              /\ map[a.k] = a.v
              /\ map' = [map EXCEPT ![a.k] = NIL]
              /\ pend' = Dirty(pend, {a.k}, -1)
              /\ pa' = pa \ {a}
              /\ UNCHANGED l

LdStart == /\ More /\ Trace[l].t = "ldstart"
           /\ pend' = [pend EXCEPT ![Trace[l].c] = IF @ # None /\ @.op = "ldget" THEN [@ EXCEPT !.started = TRUE] ELSE @]
           /\ l' = l + 1 /\ UNCHANGED <<map, pa>>

\* a quiescent point between histories: nothing pending; "size" carries the reported size (checked when >= 0)
Reset == /\ More /\ Trace[l].t = "reset"
         /\ \A c \in Clients : pend[c] = None
         /\ pa = {}
         /\ (Trace[l].v >= 0 => Cardinality({k \in KeysT : map[k] # NIL}) = Trace[l].v)
         /\ map' = [k \in KeysT |-> NIL]
         /\ l' = l + 1 /\ UNCHANGED <<pend, pa>>

Next == Call \/ Ret \/ Auto \/ Reset \/ LdStart \/ (\E c \in Clients : Lin(c) \/ Install(c)) \/ (\E a \in pa : AutoLin(a))
Spec == Init /\ [][Next]_vars

HighWater == TLCSet(1, IF TLCGet(1) > l THEN TLCGet(1) ELSE l)
ASSUME TLCSet(1, 0)
Accepted == /\ JsonSerialize(IOEnv.VERIF_DEVOUT, [n |-> Len(Trace), hw |-> TLCGet(1)])
            /\ TRUE
=============================================================================
