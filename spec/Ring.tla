-------------------------------- MODULE Ring --------------------------------
(***************************************************************************)
(* One stripe of the lossy read buffer (internal/lossy/ring.go, a port of  *)
(* Caffeine's BoundedBuffer.RingBuffer): a single CAS attempt on tail,     *)
(* lazy publication of the element, a single draining consumer that stops  *)
(* at the first unpublished slot.  Labels are the verifhook points         *)
(* ("ring.add.cas" -> ring_add_cas).                                       *)
(*                                                                         *)
(* C17: Delivered is a sub-bag of the Success adds (nothing invented,      *)
(* nothing twice), tail - head never exceeds the capacity, and once all    *)
(* adders are done a final drain delivers every Success add.               *)
(***************************************************************************)
EXTENDS Integers, Sequences, FiniteSets, TLC

CONSTANTS Adders,     \* adder process ids (integers > 0)
          NAdd,       \* adds per adder
          Slots,      \* ring capacity (16 in the code)
          NDrain      \* (unused)

NIL == 0
Drainer == 0

(* --algorithm Ring
variables head = 0, tail = 1,
          buf = [j \in 0 .. (Slots - 1) |-> IF j = 0 THEN 1000 ELSE NIL],   \* newRing publishes its first element
          succ = {1000}, delivered = <<>>, left = Cardinality(Adders);

fair process Adder \in Adders
variables n = 1, h = 0, t = 0;
begin
 A0: while n <= NAdd do
 ring_add_ldHead: h := head; t := tail;
        if t - h >= Slots then
           n := n + 1; goto A0;                 \* Full
        end if;
 ring_add_cas: if tail = t then tail := t + 1;
        else n := n + 1; goto A0;               \* Failed (one attempt only)
        end if;
 ring_add_publish: buf[t % Slots] := self * 100 + n;
        succ := succ \cup {self * 100 + n};
        n := n + 1;
     end while;
     left := left - 1;
end process;

fair process Cons = Drainer
variables dh = 0, dt = 0, p = NIL, final = FALSE;
begin
 D0:   final := (left = 0);          \* a pass that starts after every adder finished is the last one
 ring_dr_ld: dh := head; dt := tail;
       if dt - dh = 0 then goto D1; end if;
 ring_dr_ldSlot: if dh # dt then
          p := buf[dh % Slots];
          if p # NIL then
             buf[dh % Slots] := NIL;
             delivered := Append(delivered, p);
             dh := dh + 1;
             goto ring_dr_ldSlot;
          end if;
       end if;
 ring_dr_stHead: head := dh;
 D1:   if ~final then goto D0; end if;
end process;
end algorithm; *)
\* BEGIN TRANSLATION
VARIABLES pc, head, tail, buf, succ, delivered, left, n, h, t, dh, dt, p, 
          final

vars == << pc, head, tail, buf, succ, delivered, left, n, h, t, dh, dt, p, 
           final >>

ProcSet == (Adders) \cup {Drainer}

Init == (* Global variables *)
        /\ head = 0
        /\ tail = 1
        /\ buf = [j \in 0 .. (Slots - 1) |-> IF j = 0 THEN 1000 ELSE NIL]
        /\ succ = {1000}
        /\ delivered = <<>>
        /\ left = Cardinality(Adders)
        (* Process Adder *)
        /\ n = [self \in Adders |-> 1]
        /\ h = [self \in Adders |-> 0]
        /\ t = [self \in Adders |-> 0]
        (* Process Cons *)
        /\ dh = 0
        /\ dt = 0
        /\ p = NIL
        /\ final = FALSE
        /\ pc = [self \in ProcSet |-> CASE self \in Adders -> "A0"
                                        [] self = Drainer -> "D0"]

A0(self) == /\ pc[self] = "A0"
            /\ IF n[self] <= NAdd
                  THEN /\ pc' = [pc EXCEPT ![self] = "ring_add_ldHead"]
                       /\ left' = left
                  ELSE /\ left' = left - 1
                       /\ pc' = [pc EXCEPT ![self] = "Done"]
            /\ UNCHANGED << head, tail, buf, succ, delivered, n, h, t, dh, dt, 
                            p, final >>

ring_add_ldHead(self) == /\ pc[self] = "ring_add_ldHead"
                         /\ h' = [h EXCEPT ![self] = head]
                         /\ t' = [t EXCEPT ![self] = tail]
                         /\ IF t'[self] - h'[self] >= Slots
                               THEN /\ n' = [n EXCEPT ![self] = n[self] + 1]
                                    /\ pc' = [pc EXCEPT ![self] = "A0"]
                               ELSE /\ pc' = [pc EXCEPT ![self] = "ring_add_cas"]
                                    /\ n' = n
                         /\ UNCHANGED << head, tail, buf, succ, delivered, 
                                         left, dh, dt, p, final >>

ring_add_cas(self) == /\ pc[self] = "ring_add_cas"
                      /\ IF tail = t[self]
                            THEN /\ tail' = t[self] + 1
                                 /\ pc' = [pc EXCEPT ![self] = "ring_add_publish"]
                                 /\ n' = n
                            ELSE /\ n' = [n EXCEPT ![self] = n[self] + 1]
                                 /\ pc' = [pc EXCEPT ![self] = "A0"]
                                 /\ tail' = tail
                      /\ UNCHANGED << head, buf, succ, delivered, left, h, t, 
                                      dh, dt, p, final >>

ring_add_publish(self) == /\ pc[self] = "ring_add_publish"
                          /\ buf' = [buf EXCEPT ![t[self] % Slots] = self * 100 + n[self]]
                          /\ succ' = (succ \cup {self * 100 + n[self]})
                          /\ n' = [n EXCEPT ![self] = n[self] + 1]
                          /\ pc' = [pc EXCEPT ![self] = "A0"]
                          /\ UNCHANGED << head, tail, delivered, left, h, t, 
                                          dh, dt, p, final >>

Adder(self) == A0(self) \/ ring_add_ldHead(self) \/ ring_add_cas(self)
                  \/ ring_add_publish(self)

D0 == /\ pc[Drainer] = "D0"
      /\ final' = (left = 0)
      /\ pc' = [pc EXCEPT ![Drainer] = "ring_dr_ld"]
      /\ UNCHANGED << head, tail, buf, succ, delivered, left, n, h, t, dh, dt, 
                      p >>

ring_dr_ld == /\ pc[Drainer] = "ring_dr_ld"
              /\ dh' = head
              /\ dt' = tail
              /\ IF dt' - dh' = 0
                    THEN /\ pc' = [pc EXCEPT ![Drainer] = "D1"]
                    ELSE /\ pc' = [pc EXCEPT ![Drainer] = "ring_dr_ldSlot"]
              /\ UNCHANGED << head, tail, buf, succ, delivered, left, n, h, t, 
                              p, final >>

ring_dr_ldSlot == /\ pc[Drainer] = "ring_dr_ldSlot"
                  /\ IF dh # dt
                        THEN /\ p' = buf[dh % Slots]
                             /\ IF p' # NIL
                                   THEN /\ buf' = [buf EXCEPT ![dh % Slots] = NIL]
                                        /\ delivered' = Append(delivered, p')
                                        /\ dh' = dh + 1
                                        /\ pc' = [pc EXCEPT ![Drainer] = "ring_dr_ldSlot"]
                                   ELSE /\ pc' = [pc EXCEPT ![Drainer] = "ring_dr_stHead"]
                                        /\ UNCHANGED << buf, delivered, dh >>
                        ELSE /\ pc' = [pc EXCEPT ![Drainer] = "ring_dr_stHead"]
                             /\ UNCHANGED << buf, delivered, dh, p >>
                  /\ UNCHANGED << head, tail, succ, left, n, h, t, dt, final >>

ring_dr_stHead == /\ pc[Drainer] = "ring_dr_stHead"
                  /\ head' = dh
                  /\ pc' = [pc EXCEPT ![Drainer] = "D1"]
                  /\ UNCHANGED << tail, buf, succ, delivered, left, n, h, t, 
                                  dh, dt, p, final >>

D1 == /\ pc[Drainer] = "D1"
      /\ IF ~final
            THEN /\ pc' = [pc EXCEPT ![Drainer] = "D0"]
            ELSE /\ pc' = [pc EXCEPT ![Drainer] = "Done"]
      /\ UNCHANGED << head, tail, buf, succ, delivered, left, n, h, t, dh, dt, 
                      p, final >>

Cons == D0 \/ ring_dr_ld \/ ring_dr_ldSlot \/ ring_dr_stHead \/ D1

(* Allow infinite stuttering to prevent deadlock on termination. *)
Terminating == /\ \A self \in ProcSet: pc[self] = "Done"
               /\ UNCHANGED vars

Next == Cons
           \/ (\E self \in Adders: Adder(self))
           \/ Terminating

Spec == /\ Init /\ [][Next]_vars
        /\ \A self \in Adders : WF_vars(Adder(self))
        /\ WF_vars(Cons)

Termination == <>(\A self \in ProcSet: pc[self] = "Done")

\* END TRANSLATION

DelSet == {delivered[j] : j \in DOMAIN delivered}
NoDup == Cardinality(DelSet) = Len(delivered)
OnlyRecorded == DelSet \subseteq succ \cup {a * 100 + m : a \in Adders, m \in 1 .. NAdd}
Bounded == tail - head <= Slots /\ tail - head >= 0
AllDone == \A q \in Adders \cup {Drainer} : pc[q] = "Done"
\* the final drain pass starts after every adder finished: then everything recorded has been delivered
Complete == AllDone => DelSet = succ
=============================================================================
