----------------------------- MODULE TimerWheel -----------------------------
(***************************************************************************)
(* The hierarchical timer wheel of internal/expiration/variable.go         *)
(* (a port of Caffeine's TimerWheel), with parametric geometry:            *)
(* Buckets[i] slots at level i, each covering 2^Shift[i] time units; the   *)
(* last level is the overflow bucket.                                      *)
(*                                                                         *)
(*   findBucket  - level by remaining duration, slot by deadline tick      *)
(*   DeleteExpired(T) - for each level whose tick advanced, visit          *)
(*                 min(delta+1, Buckets[i]) slots from the previous tick,  *)
(*                 expire timers with deadline < T, re-schedule the rest   *)
(*                                                                         *)
(* C13 (wheel part): after DeleteExpired(T) no scheduled timer has a       *)
(* deadline more than one tick (2^Shift[1]) before T.                      *)
(*                                                                         *)
(* Clamp = FALSE models findBucket at the pinned commit: the remaining     *)
(* duration is computed in uint64, so a deadline BEFORE the wheel's time   *)
(* (a write that sampled the clock before a later sweep) wraps to a huge   *)
(* duration and the timer is parked in the overflow bucket (finding F8).   *)
(*                                                                         *)
(* Due = FALSE models the first repair of F8 (the deadline clamped to the  *)
(* wheel's time: the timer lands in the slot of the current tick, which is *)
(* visited only when the wheel turns): a write whose event is replayed in  *)
(* the same tick as a sweep that ran - at a later clock value - without    *)
(* knowing the entry waits for the next tick boundary, although deadline   *)
(* and write lie more than a tick back (finding F23: SweptWithinTick, now  *)
(* stated without the excuse "scheduled less than a tick ago" - the write  *)
(* may have returned long before its event is replayed - is violated).     *)
(* Due = TRUE: a                                                           *)
(* timer that is already due when it is scheduled goes to a list that      *)
(* every run empties, whether the wheel turns or not.                      *)
(***************************************************************************)
EXTENDS Integers, Sequences, FiniteSets, TLC

CONSTANTS Timers, MaxTime, Buckets, Shift, Clamp, Due

L == Len(Buckets)
RECURSIVE Pow2(_)
Pow2(n) == IF n = 0 THEN 1 ELSE 2 * Pow2(n - 1)
Span(i) == Pow2(Shift[i])                 \* time units per slot at level i
Tick == Span(1)
None == <<0, 0>>
DueList == <<0, 1>>                       \* the list of timers that were due when they were scheduled
HUGE == 2000000000

\* tog flips at every maintenance run (a run may happen at an unchanged time)
VARIABLES time, where, dl, expired, schedAt, tog
vars == <<time, where, dl, expired, schedAt, tog>>

FindBucket(now, exp) ==
    LET e == IF Clamp /\ exp < now THEN now ELSE exp
        duration == IF e < now THEN HUGE ELSE e - now
        lv == IF \E i \in 1 .. (L - 1) : duration < Span(i + 1)
              THEN CHOOSE i \in 1 .. (L - 1) : duration < Span(i + 1) /\ \A j \in 1 .. (i - 1) : ~(duration < Span(j + 1))
              ELSE L
    IN IF Due /\ exp < now THEN DueList
       ELSE IF lv = L THEN <<L, 0>> ELSE <<lv, (e \div Span(lv)) % Buckets[lv]>>

Init == /\ time = 0 /\ where = [t \in Timers |-> None] /\ dl = [t \in Timers |-> 0] /\ expired = {} /\ schedAt = [t \in Timers |-> 0]
        /\ tog = FALSE

\* a write computed deadline d (possibly before the wheel's time: the racing write) and its add task is replayed now
\* (the write may have returned long before: sweeps may have run at later times before its event is replayed)
Schedule(t, d) ==
    /\ where[t] = None /\ t \notin expired
    /\ dl' = [dl EXCEPT ![t] = d]
    /\ where' = [where EXCEPT ![t] = FindBucket(time, d)]
    /\ schedAt' = [schedAt EXCEPT ![t] = time]
    /\ UNCHANGED <<time, expired, tog>>

Deschedule(t) ==
    /\ where[t] # None
    /\ where' = [where EXCEPT ![t] = None]
    /\ UNCHANGED <<time, dl, expired, schedAt, tog>>

\* a read extends the deadline of a scheduled timer in place; its event may be dropped by the lossy read buffer, so the
\* timer is NOT moved - the next sweep that passes its bucket re-schedules it ("provided reads only ever extend deadlines")
Extend(t, d) ==
    /\ where[t] # None
    /\ d > dl[t]
    /\ dl' = [dl EXCEPT ![t] = d]
    /\ UNCHANGED <<time, where, expired, schedAt, tog>>

\* slots visited at level i when the clock moves from prev to cur
Visited(i, prev, cur) ==
    LET pt == prev \div Span(i)
        ct == cur \div Span(i)
        delta == ct - pt
        steps == IF delta + 1 < Buckets[i] THEN delta + 1 ELSE Buckets[i]
    IN IF delta = 0 THEN {} ELSE {(pt + j) % Buckets[i] : j \in 0 .. (steps - 1)}
\* the loop over levels stops at the first level whose tick did not advance
Active(i, prev, cur) == \A j \in 1 .. i : (cur \div Span(j)) - (prev \div Span(j)) > 0

\* a timer is looked at by the run that moves the wheel from prev to cur
Hit(w, prev, cur) == /\ w # None
                     /\ \/ w = DueList
                        \/ /\ w # DueList
                           /\ Active(w[1], prev, cur)
                           /\ w[2] \in Visited(w[1], prev, cur)

Advance(T) ==
    /\ T >= time /\ T <= MaxTime
    /\ LET hit(t) == Hit(where[t], time, T)
       IN /\ expired' = expired \cup {t \in Timers : hit(t) /\ dl[t] < T}
          /\ where' = [t \in Timers |-> IF ~hit(t) THEN where[t]
                                         ELSE IF dl[t] < T THEN None ELSE FindBucket(T, dl[t])]
    /\ time' = T
    /\ tog' = ~tog
    /\ UNCHANGED <<dl, schedAt>>

Next == \/ \E t \in Timers, d \in 0 .. MaxTime : Schedule(t, d)
        \/ \E t \in Timers : Deschedule(t)
        \/ \E t \in Timers, d \in 0 .. MaxTime : Extend(t, d)
        \/ \E T \in 0 .. MaxTime : Advance(T)
Spec == Init /\ [][Next]_vars

\* C13: when maintenance runs at T, every timer whose deadline lies more than one tick before T, and that was
\* write had returned more than one tick before T, has been expired (F23: the time of the write, not the time its event was replayed)
SweptWithinTick ==
    [][tog' # tog => \A t \in Timers : where'[t] # None => dl[t] + Tick >= time']_vars
\* nothing expires early
NoEarlyExpiry == \A t \in expired : dl[t] < time
TypeOK == \A t \in Timers : where[t] = None \/ where[t] = DueList \/ (where[t][1] \in 1 .. L /\ where[t][2] \in 0 .. (Buckets[where[t][1]] - 1))
=============================================================================
