SPECIFICATION TSpec
CONSTANTS
 N = 24
 Keys = {1}
 Weights = {1}
 Maxima = {1}
 Adjust = {0}
 Freqs = {0}
 Reorder = FALSE
 Signed = TRUE
 KeepObs = TRUE
CHECK_DEADLOCK FALSE
