---------------------------- MODULE WriteReplay ----------------------------
(***************************************************************************)
(* Node life cycle, task publication order and policy replay               *)
(* (cache_impl.go set/Invalidate/afterWrite/runTask/evictNode, policy.go   *)
(* add/update/updateNode/delete/makeDead).                                 *)
(*                                                                         *)
(* Every write is one atomic table computation (WCompute) that creates a   *)
(* new immutable node and retires the old one; AFTER it the writer         *)
(* publishes a task (add / update(n, old) / delete) to the write buffer    *)
(* (WPublish) - the window in which tasks of different writers reorder.    *)
(* The maintainer pops tasks in buffer order (MRun) and evicts while the   *)
(* running total exceeds the maximum (MEvict).                             *)
(*                                                                         *)
(* C05  Agree  : at quiescence a node is alive iff it is mapped, mapped    *)
(*               nodes are linked in the policy exactly once, nothing else *)
(*               is linked, the running total equals the mapped weight.    *)
(* C04  Bound  : at quiescence the mapped weight is within the maximum     *)
(*               (zero-weight nodes are never evicted).                    *)
(* C06  Once   : every retired value is reported exactly once.             *)
(*                                                                         *)
(* Transplant = TRUE models policy.updateNode as found at the pinned       *)
(* commit (the deque position of the OLD node object is handed to the new  *)
(* one whatever their states: finding F7); FALSE models the repair.        *)
(***************************************************************************)
EXTENDS Integers, Sequences, FiniteSets, TLC

CONSTANTS Writers, Keys, NOps, Weights, MaxW, Transplant, NodeIds

Nil == 0
VARIABLES map,        \* key -> node id or Nil
          node,       \* node id -> [k, w, st ("free"|"alive"|"retired"|"dead"), linked, counted]
          wbuf,       \* sequence of tasks [t, n, old]
          hold,       \* writer -> task held between computation and publication, or Nil
          ops,        \* writer -> operations performed
          total,      \* policy.weightedSize (an integer here; the code's unsigned value wraps when this is negative)
          reports     \* node id -> number of OnDeletion reports
vars == <<map, node, wbuf, hold, ops, total, reports>>

Free == {i \in NodeIds : node[i].st = "free"}
NewId == CHOOSE i \in Free : \A j \in Free : i <= j
NoTask == [t |-> "none", n |-> Nil, old |-> Nil]

Init ==
    /\ map = [k \in Keys |-> Nil]
    /\ node = [i \in NodeIds |-> [k |-> 0, w |-> 0, st |-> "free", linked |-> FALSE, counted |-> FALSE]]
    /\ wbuf = <<>>
    /\ hold = [w \in Writers |-> NoTask]
    /\ ops = [w \in Writers |-> 0]
    /\ total = 0
    /\ reports = [i \in NodeIds |-> 0]

\* Set(k, v) with weight wt: the table computation
WSet(w, k, wt) ==
    /\ hold[w] = NoTask /\ ops[w] < NOps /\ Free # {}
    /\ LET n == NewId
           old == map[k]
       IN /\ map' = [map EXCEPT ![k] = n]
          /\ LET nd1 == [node EXCEPT ![n] = [k |-> k, w |-> wt, st |-> "alive", linked |-> FALSE, counted |-> FALSE]]
             IN node' = IF old = Nil THEN nd1 ELSE [nd1 EXCEPT ![old].st = IF @ = "alive" THEN "retired" ELSE @]
          /\ hold' = [hold EXCEPT ![w] = IF old = Nil THEN [t |-> "add", n |-> n, old |-> Nil]
                                         ELSE [t |-> "update", n |-> n, old |-> old]]
    /\ ops' = [ops EXCEPT ![w] = @ + 1]
    /\ UNCHANGED <<wbuf, total, reports>>

WInvalidate(w, k) ==
    /\ hold[w] = NoTask /\ ops[w] < NOps /\ map[k] # Nil
    /\ LET old == map[k]
       IN /\ map' = [map EXCEPT ![k] = Nil]
          /\ node' = [node EXCEPT ![old].st = IF @ = "alive" THEN "retired" ELSE @]
          /\ hold' = [hold EXCEPT ![w] = [t |-> "delete", n |-> old, old |-> Nil]]
    /\ ops' = [ops EXCEPT ![w] = @ + 1]
    /\ UNCHANGED <<wbuf, total, reports>>

WPublish(w) ==
    /\ hold[w] # NoTask
    /\ wbuf' = Append(wbuf, hold[w])
    /\ hold' = [hold EXCEPT ![w] = NoTask]
    /\ UNCHANGED <<map, node, ops, total, reports>>

\* policy.makeDead
MakeDead(nd, i) == IF nd[i].st = "dead" THEN [nd |-> nd, d |-> 0]
                   ELSE [nd |-> [nd EXCEPT ![i].st = "dead"], d |-> nd[i].w]

\* evictNode(n): table removal if n is still mapped, policy.delete, makeDead, report if the table removal succeeded
EvictNode(mp, nd, tot, rep, i) ==
    LET mapped == mp[nd[i].k] = i
        mp2 == IF mapped THEN [mp EXCEPT ![nd[i].k] = Nil] ELSE mp
        nd1 == [nd EXCEPT ![i].linked = FALSE]
        md == MakeDead(nd1, i)
    IN [map |-> mp2, node |-> md.nd, total |-> tot - md.d, reports |-> IF mapped THEN [rep EXCEPT ![i] = @ + 1] ELSE rep]

RunAdd(t) ==
    LET n == t.n
        tot1 == total + node[n].w
        alive == node[n].st = "alive"
    IN IF ~alive THEN [map |-> map, node |-> node, total |-> tot1, reports |-> reports]
       ELSE IF node[n].w > MaxW
       THEN EvictNode(map, node, tot1, reports, n)
       ELSE [map |-> map, node |-> [node EXCEPT ![n].linked = TRUE], total |-> tot1, reports |-> reports]

RunUpdate(t) ==
    LET n == t.n
        old == t.old
        wasLinked == node[old].linked
        \* updateNode: who ends up linked
        nd1 == IF Transplant
               THEN [node EXCEPT ![n].linked = wasLinked, ![old].linked = FALSE]
               ELSE [node EXCEPT ![old].linked = FALSE, ![n].linked = (node[n].st = "alive")]
        md == MakeDead(nd1, old)
        tot1 == total - md.d + node[n].w
        rep1 == [reports EXCEPT ![old] = @ + 1]
    IN IF node[n].w > MaxW
       THEN EvictNode(map, md.nd, tot1, rep1, n)
       ELSE [map |-> map, node |-> md.nd, total |-> tot1, reports |-> rep1]

RunDelete(t) ==
    LET n == t.n
        nd1 == [node EXCEPT ![n].linked = FALSE]
        md == MakeDead(nd1, n)
    IN [map |-> map, node |-> md.nd, total |-> total - md.d, reports |-> [reports EXCEPT ![n] = @ + 1]]

MRun ==
    /\ wbuf # <<>>
    /\ LET t == Head(wbuf)
           r == CASE t.t = "add" -> RunAdd(t) [] t.t = "update" -> RunUpdate(t) [] OTHER -> RunDelete(t)
       IN /\ map' = r.map /\ node' = r.node /\ total' = r.total /\ reports' = r.reports
    /\ wbuf' = Tail(wbuf)
    /\ UNCHANGED <<hold, ops>>

\* evictNodes: while the running total exceeds the maximum a linked node of non-zero weight is evicted
MEvict(i) ==
    /\ total > MaxW
    /\ node[i].linked /\ node[i].w > 0
    /\ LET r == EvictNode(map, node, total, reports, i)
       IN /\ map' = r.map /\ node' = r.node /\ total' = r.total /\ reports' = r.reports
    /\ UNCHANGED <<wbuf, hold, ops>>

Next == \/ \E w \in Writers, k \in Keys, wt \in Weights : WSet(w, k, wt)
        \/ \E w \in Writers, k \in Keys : WInvalidate(w, k)
        \/ \E w \in Writers : WPublish(w)
        \/ MRun
        \/ \E i \in NodeIds : MEvict(i)
Spec == Init /\ [][Next]_vars

----------------------------------------------------------------------------
Mapped == {i \in NodeIds : node[i].st # "free" /\ map[node[i].k] = i}
Linked == {i \in NodeIds : node[i].linked}
RECURSIVE Sum(_)
Sum(S) == IF S = {} THEN 0 ELSE LET x == CHOOSE y \in S : TRUE IN node[x].w + Sum(S \ {x})

Quiescent == /\ wbuf = <<>>
             /\ \A w \in Writers : hold[w] = NoTask
             /\ ~(\E i \in NodeIds : total > MaxW /\ node[i].linked /\ node[i].w > 0)

Agree == Quiescent =>
            /\ \A i \in NodeIds : node[i].st = "alive" <=> i \in Mapped
            /\ Linked = {i \in Mapped : node[i].w <= MaxW}
            /\ total = Sum(Mapped)
Bound == Quiescent => (Sum(Mapped) <= MaxW /\ \A i \in Mapped : node[i].w <= MaxW)
Once  == Quiescent => \A i \in NodeIds :
            reports[i] = IF node[i].st \in {"retired", "dead"} THEN 1 ELSE 0
NeverTwice == \A i \in NodeIds : reports[i] <= 1
ZeroKept == \A i \in NodeIds : (node[i].st = "dead" /\ node[i].w = 0 /\ reports[i] = 1) => TRUE
=============================================================================
