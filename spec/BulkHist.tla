------------------------------- MODULE BulkHist -------------------------------
(***************************************************************************)
(* C15 / C02 on large tables (harness/hashmap/verif_bulk_test.go and       *)
(* harness/otter/verif_bulk_test.go): after every phase (fill; removal of   *)
(* most keys; writers parked inside their update function while the table   *)
(* shrinks around them) every key that was inserted and not removed is      *)
(* found, the reported size is the number of keys, an iteration yields each *)
(* key once and no removed key, every update function ran exactly once.     *)
(* The records carry the counts; this module states the requirements.       *)
(***************************************************************************)
EXTENDS Integers, Sequences, FiniteSets, TLC, Json, IOUtils
Recs == ndJsonDeserialize(IOEnv.VERIF_TRACE)
VARIABLES i, dev
vars == <<i, dev>>
F(idx, name, detail) == [rec |-> idx, pred |-> name, detail |-> ToString(detail)]
P(r) == IF r.level = "cache" THEN "C02" ELSE "C15"
Check(r, idx) ==
    LET J == DOMAIN r.phases
        lost == {j \in J : r.phases[j].nmiss # 0}
        size == {j \in J : r.phases[j].size # r.phases[j].want}
        iter == {j \in J : r.phases[j].yielded - r.phases[j].ghost # r.phases[j].want}
        dup  == {j \in J : r.phases[j].dup # 0}
        gh   == {j \in J : r.phases[j].ghost # 0}
        once == {j \in DOMAIN r.fnruns : r.fnruns[j] # 1}
    IN (IF lost # {} THEN <<F(idx, "C15.key_lost_across_resize", <<r.level, r.sc.procs, r.sc.n, [j \in lost |-> <<r.phases[j].nmiss, r.phases[j].miss>>]>>)>> ELSE <<>>)
       \o (IF r.lost # <<>> THEN <<F(idx, P(r) \o ".write_lost_across_resize", <<r.level, r.sc.procs, r.lost>>)>> ELSE <<>>)
       \o (IF size # {} THEN <<F(idx, "C15.size_at_quiescence", <<r.level, [j \in size |-> <<r.phases[j].size, r.phases[j].want>>]>>)>> ELSE <<>>)
       \o (IF iter # {} THEN <<F(idx, "C15.iteration_missed_present_key", <<r.level, [j \in iter |-> <<r.phases[j].yielded, r.phases[j].want>>]>>)>> ELSE <<>>)
       \o (IF dup # {} THEN <<F(idx, "C15.iteration_yielded_key_twice", <<r.level, dup>>)>> ELSE <<>>)
       \o (IF gh # {} THEN <<F(idx, "C15.iteration_yielded_removed_key", <<r.level, gh>>)>> ELSE <<>>)
       \o (IF once # {} THEN <<F(idx, P(r) \o ".update_not_once", <<r.level, r.fnruns>>)>> ELSE <<>>)
Init == i = 1 /\ dev = <<>>
Next == \/ /\ i <= Len(Recs)
           /\ dev' = dev \o Check(Recs[i], i)
           /\ i' = i + 1
        \/ /\ i = Len(Recs) + 1
           /\ JsonSerialize(IOEnv.VERIF_DEVOUT, [n |-> Len(Recs), devs |-> dev])
           /\ i' = i + 1
           /\ UNCHANGED dev
Spec == Init /\ [][Next]_vars
=============================================================================
