----------------------------- MODULE SweepHist -----------------------------
(***************************************************************************)
(* Judges the racing-write scenarios of harness/otter/verif_sweep_test.go  *)
(* (C13): the write sampled the clock at t0, maintenance ran at t0 + jump  *)
(* before the write completed, and again `later` > one tick afterwards.    *)
(* If the entry's deadline t0 + ttl lies more than one tick before that    *)
(* last run, the entry must no longer be counted and its Expiration event  *)
(* must have been delivered exactly once.  Read races (op read-x): a read    *)
(* that only extends the deadline is parked between its clock sample and   *)
(* the store while the deadline passes and maintenance runs; the same      *)
(* requirements hold afterwards, and a sized cache stays within its bound. *)
(* Gated read races (op gate-x): see ExpireRace.tla.                       *)
(***************************************************************************)
EXTENDS Integers, Sequences, FiniteSets, TLC, Json, IOUtils
Recs == ndJsonDeserialize(IOEnv.VERIF_TRACE)
VARIABLES i, dev
vars == <<i, dev>>
F(idx, name, detail) == [rec |-> idx, pred |-> name, detail |-> ToString(detail)]
\* all durations are logged in ns but only compared through these flags computed by the runner (TLC integers are 32 bit)
SiaOps == {"sia.setifabsent", "sia.set", "sia.setgate", "sia.invgate", "sia.cmpgate"}
Check(r, idx) ==
    (IF r.hang = 1 THEN <<F(idx, "C13.hang", r.sc)>> ELSE <<>>)
    \o (IF r.hang = 0 /\ r.massn = 0 /\ r.mustsweep = 1 /\ r.est # r.sc.warmlive THEN <<F(idx, "C13.still_counted", <<r.est, r.sc>>)>> ELSE <<>>)
    \* (a removal that was reported, but as Overflow, is C06's: the cause does not match)
    \* (write-over-expired races, ops sia-x: two values of the key expire - the one the write found expired and the one it stored)
    \o (IF r.hang = 0 /\ r.massn = 0 /\ r.mustsweep = 1 /\ r.expired \notin (IF r.sc.op \in SiaOps THEN {1, 2} ELSE {1}) /\ ~(r.overflow = 1 /\ r.expired = 0) THEN <<F(idx, "C13.expiration_not_reported", <<r.expired, r.other, r.sc>>)>> ELSE <<>>)
    \* the policies evict a stale node of the key (no longer current, nothing removed from the table) while a load is in flight (op ld-x):
    \* the load is not disturbed - a second Get joins it instead of invoking its loader
    \o (IF r.hang = 0 /\ r.overlap = 1 THEN <<F(idx, "C08.overlap_after_stale_eviction", <<r.ldruns, r.sc>>)>> ELSE <<>>)
    \o (IF r.hang = 1 /\ r.sc.op \in {"ld.staleevict.inv", "ld.staleevict.set"} THEN <<F(idx, "C08.hang", r.sc)>> ELSE <<>>)
    \* a maintenance run fires the timer of an expired entry that a parked writer has already replaced (op swp-x: the run reports nothing, the
    \* node is no longer mapped); the writer's event, replayed afterwards, still delivers the replaced value - once, as expired
    \o (IF r.hang = 0 /\ r.sc.op \in {"swp.set", "swp.compute"} /\ (r.massexpired # 1 \/ r.asynccause # "Expiration")
        THEN <<F(idx, "C13.expiration_not_reported", <<r.massexpired, r.asynccause, r.gated, r.sc>>),
               F(idx, "C06.replaced_expired_value_not_reported_once", <<r.massexpired, r.asynccause, r.gated, r.sc>>)>> ELSE <<>>)
    \* C20: a Compute that found the entry expired (its function was told "not found", the value left with Expiration) records a miss, whatever a
    \* reader stores into the replaced node afterwards (op sia-cmpgate: the reader's own lookup, before the deadline, is the one hit)
    \o (IF r.hang = 0 /\ r.sc.op = "sia.cmpgate" /\ (r.hits # 1 \/ r.misses # 1)
        THEN <<F(idx, "C20.compute_over_expired_entry_not_a_miss", <<r.hits, r.misses, r.sc>>)>> ELSE <<>>)
    \* C04 / C05: an eviction run parked in a deletion handler while every other key is rewritten (op ev-rewrite): afterwards the entries
    \* present are within the lowered maximum (sc.max), and the orderings enumerate exactly them
    \o (IF r.sc.op = "ev.rewrite" /\ (r.hang = 1 \/ r.live > r.sc.max \/ r.estmid > r.sc.max)
        THEN <<F(idx, "C04.bound_after_eviction_of_rewritten_keys", <<r.live, r.estmid, r.cold, r.hang, r.sc>>)>> ELSE <<>>)
    \o (IF r.sc.op = "ev.rewrite" /\ r.hang = 0 /\ r.live # r.cold
        THEN <<F(idx, "C05.present_but_unknown_to_policy", <<r.live, r.cold, 0, r.sc>>)>> ELSE <<>>)
    \* C17: the read buffer at quiescence holds no published element out of the consumer's reach (op rb-clear: readers parked between the
    \* reservation of their slot and its publication, across an InvalidateAll and across a maintenance run)
    \o (IF r.sc.op = "rb.clear" /\ (r.hang = 1 \/ r.stranded > 0) THEN <<F(idx, "C17.recorded_read_out_of_reach", <<r.stranded, r.hang, r.sc>>)>> ELSE <<>>)
    \* save / load with a target clock that moves between any two readings (op persist-step): "never" deadlines come back as "never"
    \o (IF r.sc.op = "persist.step" /\ (r.hang = 1 \/ r.loaded # 8 \/ r.badref > 0 \/ r.badexp > 0)
        THEN <<F(idx, "C19.never_deadline_not_restored", <<r.loaded, r.badref, r.badexp, r.sc>>)>> ELSE <<>>)
    \* many entries due in one sweep (op mass-x): one quiescent run removes and reports every one of them
    \o (IF r.hang = 0 /\ r.massn > 0 /\ (r.est # 0 \/ r.massexpired # r.massn) THEN <<F(idx, "C13.mass_expiration_incomplete", <<r.massn, r.est, r.massexpired, r.other, r.sc>>)>> ELSE <<>>)
    \* gated read race (ExpireRace.tla): the sweeper is parked between the wheel's test of the deadline and the removal while the
    \* read stores the extended deadline.  A cache that is not above its maximum (or has none) never reports Overflow, and the
    \* racing value is reported at most once.
    \o (IF r.hang = 0 /\ r.nopressure = 1 /\ r.overflow > 0 THEN <<F(idx, "C06.overflow_without_size_pressure", <<r.overflow, r.expired, r.gated, r.sc>>)>> ELSE <<>>)
    \o (IF r.hang = 0 /\ r.nopressure = 1 /\ r.sc.op \in {"gate.get", "gate.getentry"} /\ r.expired + r.other > 1 THEN <<F(idx, "C06.reported_twice", <<r.expired, r.other, r.sc>>)>> ELSE <<>>)
    \* a write that finds the entry expired while a reader extends the deadline of the node being replaced (op sia-x): the stored value is
    \* known to the policies - the orderings enumerate exactly the entries iteration yields
    \o (IF r.hang = 0 /\ r.sc.op \in {"sia.setifabsent", "sia.set", "sia.setgate", "sia.cmpgate", "replay.set", "replay.setifabsent", "replay.none", "gate.size"} /\ r.live # r.cold THEN <<F(idx, "C05.present_but_unknown_to_policy", <<r.live, r.cold, r.inserted, r.sc>>)>> ELSE <<>>)
    \* ... and the value it replaced reaches both handlers with the same cause (the writer parked between its table computation and the
    \* publication of its event while the reader stores the extended deadline into the replaced node: ops sia-xgate)
    \o (IF r.hang = 0 /\ r.atomiccause # "" /\ r.asynccause # "" /\ r.atomiccause # r.asynccause
        THEN <<F(idx, "C06.causes_differ_between_handlers", <<r.atomiccause, r.asynccause, r.sc>>)>> ELSE <<>>)
    \* the size policy's victim revived by a reader between the eviction callback and the removal (op gate-size): the maximum is 0
    \o (IF r.hang = 0 /\ r.sc.op = "gate.size" /\ r.live > 0 THEN <<F(idx, "C04.bound_after_size_eviction_race", <<r.live, r.cold, r.gated, r.sc>>)>> ELSE <<>>)
    \* an entry that is still present after the race is known to the wheel: covered by still_counted / expiration_not_reported above
    \o (IF r.hang = 0 /\ r.visible = 1 /\ r.deadlinepassed = 1 THEN <<F(idx, "C13.visible_after_deadline", r.sc)>> ELSE <<>>)
    \* a read racing the sweep (it only extends the deadline): a sized cache filled right after the race stays within its maximum
    \o (IF r.hang = 0 /\ r.sc.sized = 1 /\ r.sc.max > 0 /\ r.live > r.sc.max THEN <<F(idx, "C04.bound_after_read_race", <<r.live, r.sc>>)>> ELSE <<>>)
Init == i = 1 /\ dev = <<>>
Next == \/ /\ i <= Len(Recs)
           /\ dev' = dev \o Check(Recs[i], i)
           /\ i' = i + 1
        \/ /\ i = Len(Recs) + 1
           /\ JsonSerialize(IOEnv.VERIF_DEVOUT, [n |-> Len(Recs), devs |-> dev])
           /\ i' = i + 1
           /\ UNCHANGED dev
Spec == Init /\ [][Next]_vars
=============================================================================
