----------------------------- MODULE StatsHist -----------------------------
(***************************************************************************)
(* C20, concurrent form: at quiescence the recorder's snapshot must equal  *)
(* the tallies the driver kept (harness/otter/verif_lin_test.go):          *)
(* hits + misses = lookups by the counting operations, load successes +    *)
(* failures = loader invocations, #Overflow <= evictions <= #Overflow +    *)
(* #Expiration (equality without expiration), counters never decrease.     *)
(***************************************************************************)
EXTENDS Integers, Sequences, FiniteSets, TLC, Json, IOUtils
Recs == ndJsonDeserialize(IOEnv.VERIF_TRACE)
VARIABLES i, dev
vars == <<i, dev>>
F(idx, name, detail) == [rec |-> idx, pred |-> name, detail |-> ToString(detail)]
Check(r, idx) ==
    (IF r.st[1] + r.st[2] # r.lookups THEN <<F(idx, "C20.lookups", <<r.st[1], r.st[2], r.lookups>>)>> ELSE <<>>)
    \o (IF r.st[5] + r.st[6] # r.loads THEN <<F(idx, "C20.loads", <<r.st[5], r.st[6], r.loads>>)>> ELSE <<>>)
    \o (IF r.st[3] < r.nover \/ r.st[3] > r.nover + r.nexp THEN <<F(idx, "C20.evictions", <<r.st[3], r.nover, r.nexp>>)>> ELSE <<>>)
    \o (IF r.sc.expiry = 0 /\ r.st[3] # r.nover THEN <<F(idx, "C20.evictions_exact", <<r.st[3], r.nover>>)>> ELSE <<>>)
    \o (IF r.sc.expiry = 0 /\ r.sc.max > 0 /\ r.st[4] # r.nover THEN <<F(idx, "C20.eviction_weight", <<r.st[4], r.nover>>)>> ELSE <<>>)
    \o (IF r.churnnc # 0 THEN <<F(idx, "C02.callback_not_once", r.churnnc)>> ELSE <<>>)
    \o (IF \E j \in 1 .. 6 : r.stmid[j] > r.st[j] THEN <<F(idx, "C20.decreased", <<r.stmid, r.st>>)>> ELSE <<>>)
Init == i = 1 /\ dev = <<>>
Next == \/ /\ i <= Len(Recs)
           /\ dev' = dev \o Check(Recs[i], i)
           /\ i' = i + 1
        \/ /\ i = Len(Recs) + 1
           /\ JsonSerialize(IOEnv.VERIF_DEVOUT, [n |-> Len(Recs), devs |-> dev])
           /\ i' = i + 1
           /\ UNCHANGED dev
Spec == Init /\ [][Next]_vars
=============================================================================
