---------------------------- MODULE CacheTrace ----------------------------
(***************************************************************************)
(* Trace validation (binding B1) for Cache.tla, as a deterministic fold:   *)
(* every record written by harness/otter/verif_seq_test.go from the REAL   *)
(* cache is fed to Cache!Step; results, loader/callback invocations,       *)
(* deletion events, statistics and the projection read through             *)
(* GetEntryQuietly are compared with what the step function demands.       *)
(*                                                                         *)
(* A mismatch does not block: it is recorded in dev (line, operation,      *)
(* pre-state class of the key, field, expected, got) and the logged        *)
(* projection is adopted so the remainder of the trace is still checked.   *)
(* The runner maps (op, pre, field) to the property it decides.            *)
(*                                                                         *)
(* Environment: VERIF_TRACE = NDJSON input, VERIF_DEVOUT = JSON output.    *)
(***************************************************************************)
EXTENDS Cache, Json, IOUtils

Trace == ndJsonDeserialize(IOEnv.VERIF_TRACE)

VARIABLES i, s, dev, nops
vars == <<i, s, dev, nops>>

PreClass(st, k) ==
    IF k \notin Keys(st) THEN "nokey"
    ELSE IF ~st.ent[k].p THEN "absent"
    ELSE IF Dead(st, k) THEN "dead"
    ELSE IF HasRef(st.cfg) /\ ~Fresh(st, k) THEN "stale"
    ELSE "live"

D(line, e, pre, field, want, got) ==
    [line |-> line, i |-> e.i, op |-> e.a.op, k |-> e.a.k, pre |-> pre, field |-> field,
     want |-> ToString(want), got |-> ToString(got), shape |-> e.a.shape, ld |-> e.a.ld,
     anydead |-> IF \E kk \in Keys(s) : Dead(s, kk) THEN 1 ELSE 0,
     cfg |-> <<s.cfg.size, s.cfg.expiry, s.cfg.refresh>>]

AEvents(e, h) == LET q == SelectSeq(e.ev, LAMBDA x : x.h = h)
                 IN [j \in DOMAIN q |-> [k |-> q[j].k, v |-> q[j].v, c |-> q[j].c]]

\* Follow the logged atomic deletion events in order (see Cache!O0): an event is either raised by one of the
\* operation's pending micro-writes (executed then), or an automatic removal that must be justified in the
\* state reached so far (Cache!AutoOK); micro-writes that raise no event are executed when an event needs
\* them, or when their phase ends.  The driver logs a marker "L" whenever a loader is invoked: the writes of
\* a loader phase happen after its marker and before the next one.
\* cur: micro-writes of the active phase, rest: phases not yet started, q: remaining events and markers.
Acc0 == [bad |-> <<>>, missing |-> <<>>, refany |-> {}, nov |-> 0, nex |-> 0, wov |-> 0, wex |-> 0, evk |-> {}, changed |-> {}]
RECURSIVE RunMW(_, _, _, _, _, _, _, _)
RunMW(st, cur, rest, q, acc, early, fin, live0) ==
    IF cur # {} /\ (q = <<>> \/ Head(q).c = "L")
    THEN \* the active phase ends: apply what is left of it
         LET w == CHOOSE x \in cur : \A y \in cur : x.k <= y.k
             drop == DroppedAt(w, st, acc.evk, live0, acc.changed)
         IN RunMW(IF drop THEN st ELSE ExecMW(st, w), cur \ {w}, rest, q,
                  IF drop THEN acc
                  ELSE [acc EXCEPT !.missing = @ \o EvMW(st, w), !.refany = @ \cup RefAnyMW(st, w),
                              !.changed = IF w.t = "put" THEN @ \cup {w.k} ELSE @], early, fin, live0)
    ELSE IF q = <<>> THEN
         IF rest = <<>> THEN [s |-> st, acc |-> acc]
         ELSE RunMW(st, Head(rest), Tail(rest), q, acc, early, fin, live0)          \* a phase whose loader call was not logged
    ELSE IF Head(q).c = "L" THEN
         IF rest = <<>> THEN RunMW(st, {}, rest, Tail(q), acc, early, fin, live0)
         ELSE RunMW(st, Head(rest), Tail(rest), Tail(q), IF early THEN acc ELSE [acc EXCEPT !.evk = {}], early, fin, live0)
    ELSE
        LET ev   == Head(q)
            \* An Expiration event for a dead entry whose in-flight load is about to complete is ambiguous: the
            \* completing load replaced the dead node, or the sweep removed it first (before fix F24 that cancelled the load,
            \* C09).  Both are legal; what happened is read off the rest of the log / the final projection.
            later(w) == \/ \E j \in DOMAIN q : j > 1 /\ q[j].k = w.k /\ q[j].v = w.v /\ q[j].c # "L"
                        \/ (w.k \in DOMAIN fin /\ fin[w.k].p = 1 /\ fin[w.k].v = w.v)
            amb(w) == w.real /\ w.t = "put" /\ ev.c = "Expiration" /\ AutoOK(st, ev)
            cand == {w \in cur : (w.k = ev.k) /\ (~DroppedAt(w, st, acc.evk, live0, acc.changed)) /\ (EvMW(st, w) = <<ev>>) /\ (amb(w) => later(w))}
            sil  == {w \in cur : DroppedAt(w, st, acc.evk, live0, acc.changed) \/ EvMW(st, w) = <<>>}
            inK  == ev.k \in Keys(st)
            wgt  == IF inK /\ st.ent[ev.k].p THEN st.ent[ev.k].w ELSE 0
            cnt(ac) == [ac EXCEPT !.nov = @ + (IF ev.c = "Overflow" THEN 1 ELSE 0),
                                  !.nex = @ + (IF ev.c = "Expiration" THEN 1 ELSE 0),
                                  !.wov = @ + (IF ev.c = "Overflow" THEN wgt ELSE 0),
                                  !.wex = @ + (IF ev.c = "Expiration" THEN wgt ELSE 0),
                                  \* only the eviction of a LIVE value cancels the in-flight load of its key; the removal of an expired entry
                                  \* changes nothing a caller can see and cancels nothing (finding F24)
                                  !.evk = IF ev.c = "Expiration" THEN @ ELSE @ \cup {ev.k}]
        IN IF cand # {}
           THEN LET w == CHOOSE x \in cand : TRUE
                IN RunMW(ExecMW(st, w), cur \ {w}, rest, Tail(q),
                         [acc EXCEPT !.refany = @ \cup RefAnyMW(st, w), !.changed = IF w.t = "put" THEN @ \cup {w.k} ELSE @], early, fin, live0)
           ELSE IF AutoOK(st, ev) THEN RunMW(Auto(st, ev), cur, rest, Tail(q), cnt(acc), early, fin, live0)
           ELSE IF sil # {}
           THEN LET w == CHOOSE x \in sil : \A y \in sil : x.k <= y.k
                    drop == DroppedAt(w, st, acc.evk, live0, acc.changed)
                IN RunMW(IF drop THEN st ELSE ExecMW(st, w), cur \ {w}, rest, q,
                         IF drop THEN acc ELSE [acc EXCEPT !.refany = @ \cup RefAnyMW(st, w), !.changed = IF w.t = "put" THEN @ \cup {w.k} ELSE @], early, fin, live0)
           ELSE RunMW(IF inK /\ st.ent[ev.k].p /\ st.ent[ev.k].v = ev.v THEN Auto(st, ev) ELSE st, cur, rest, Tail(q),
                      [cnt(acc) EXCEPT !.bad = Append(@, [k |-> ev.k, v |-> ev.v, c |-> ev.c, total |-> Total(st), max |-> st.max,
                                                            ent |-> IF inK THEN st.ent[ev.k] ELSE Absent, now |-> st.now])], early, fin, live0)

NormRR(q) == {[k |-> q[j].k, v |-> IF q[j].err = "" THEN q[j].v ELSE 0, err |-> q[j].err] : j \in DOMAIN q}
KVSet(q)  == {<<q[j].k, q[j].v>> : j \in DOMAIN q}
EntSet(q) == {[k |-> q[j].k, p |-> q[j].p, v |-> q[j].v, w |-> q[j].w, exp |-> q[j].exp, ref |-> q[j].ref] : j \in DOMAIN q}
LoadSet(q) == {[fn |-> q[j].fn, ks |-> q[j].ks, olds |-> q[j].olds] : j \in DOMAIN q}
NormRRSpec(S) == {[k |-> x.k, v |-> IF x.err = "" THEN x.v ELSE 0, err |-> x.err] : x \in S}

\* result fields
FieldDevs(line, e, pre, o) ==
    LET cmpf == IF o.panic = 1 THEN {"panic", "cbs", "loads"} ELSE o.cmp
        chk(f, want, got) == IF f \in cmpf /\ want # got THEN <<D(line, e, pre, f, want, got)>> ELSE <<>>
    IN  chk("ok", o.ok, e.ok) \o chk("val", o.val, e.val) \o chk("err", o.err, e.err)
        \o chk("panic", o.panic, e.panic) \o chk("cbs", o.cbs, e.cbs)
        \o chk("loads", o.loads, LoadSet(e.loads)) \o chk("res", o.res, KVSet(e.res))
        \o chk("ents", o.ents, EntSet(e.ents)) \o chk("ch", o.ch, e.ch)
        \o chk("rrs", NormRRSpec(o.rrs), IF e.a.op = "BulkRefresh" THEN NormRR(e.rrs) \cap NormRRSpec(o.rrs) ELSE NormRR(e.rrs)) \o chk("num", o.num, e.num)

\* projection through GetEntryQuietly, one key
ProjDevs(line, e, pre0, st, k, refany) ==
    LET lg == e.proj[k + 1]
        pre == PreClass(s, k)
        vis == Live(st, k)
        m == st.ent[k]
    IN IF (lg.p = 1) # vis THEN <<D(line, e, pre, "proj.p", [k |-> k, p |-> IF vis THEN 1 ELSE 0], [k |-> k, p |-> lg.p])>>
       ELSE IF ~vis THEN <<>>
       ELSE (IF lg.v # m.v THEN <<D(line, e, pre, "proj.v", [k |-> k, v |-> m.v], [k |-> k, v |-> lg.v])>> ELSE <<>>)
            \o (IF lg.w # m.w THEN <<D(line, e, pre, "proj.w", [k |-> k, w |-> m.w], [k |-> k, w |-> lg.w])>> ELSE <<>>)
            \o (IF lg.exp # m.exp THEN <<D(line, e, pre, "proj.exp", [k |-> k, exp |-> m.exp], [k |-> k, exp |-> lg.exp])>> ELSE <<>>)
            \o (IF lg.ref # m.ref /\ k \notin refany
                THEN <<D(line, e, pre, "proj.ref", [k |-> k, ref |-> m.ref], [k |-> k, ref |-> lg.ref])>> ELSE <<>>)
RECURSIVE AllProjDevs(_, _, _, _, _, _)
AllProjDevs(line, e, pre0, st, k, refany) ==
    IF k >= st.cfg.nk THEN <<>>
    ELSE ProjDevs(line, e, pre0, st, k, refany) \o AllProjDevs(line, e, pre0, st, k + 1, refany)

Resync(st, e) ==
    [st EXCEPT !.ent = [k \in Keys(st) |->
                          LET lg == e.proj[k + 1]
                          IN IF lg.p = 1 THEN [p |-> TRUE, v |-> lg.v, w |-> lg.w, exp |-> lg.exp, ref |-> lg.ref]
                             ELSE IF st.ent[k].p /\ ~Before(e.now, st.ent[k].exp) THEN st.ent[k]
                             ELSE Absent],
               !.st = e.st, !.now = e.now]

TraceStep(st, e, line) ==
    IF e.t = "hdr" THEN [s |-> InitState(e.cfg, e.now), dev |-> <<>>]
    ELSE IF e.hang = 1 THEN [s |-> st, dev |-> <<D(line, e, PreClass(st, e.a.k), "hang", "returns", "no return")>>]
    ELSE
    LET a    == e.a
        pre  == PreClass(st, a.k)
        r    == Step(st, a)
        o    == r.o
        logA == AEvents(e, "A")
        logD == AEvents(e, "D")
        logAL == LET q == SelectSeq(e.ev, LAMBDA x : x.h \in {"A", "L"})
                 IN [j \in DOMAIN q |-> [k |-> q[j].k, v |-> q[j].v, c |-> IF q[j].h = "L" THEN "L" ELSE q[j].c]]
        fin  == [k \in Keys(st) |-> e.proj[k + 1]]
        live0 == LiveKeys(st)
        rm   == IF o.gated THEN RunMW(r.s, {}, o.mw, logAL, Acc0, o.early, fin, live0)
                ELSE RunMW(r.s, IF o.mw = <<>> THEN {} ELSE Head(o.mw), IF o.mw = <<>> THEN <<>> ELSE Tail(o.mw), logAL, Acc0, o.early, fin, live0)
        af   == rm.acc
        s2   == rm.s
        \* eviction counters: every Overflow removal, plus expiration sweeps; an Expiration event that
        \* the operation itself explains (a write over / removal of a dead entry) may or may not have
        \* been performed by the sweep (C20)
        nExAll == Cardinality({j \in DOMAIN logA : logA[j].c = "Expiration"})
        dEv  == e.st[3] - st.st[3]
        dEw  == e.st[4] - st.st[4]
        evLo == af.nov + af.nex
        evHi == af.nov + nExAll
        wExAll == LET ex == SelectSeq(logA, LAMBDA x : x.c = "Expiration")
                      f(j) == IF ex[j].k \in Keys(st) THEN st.ent[ex[j].k].w ELSE 0
                  IN SumSet(f, DOMAIN ex)
        wExOwn == IF wExAll > af.wex THEN wExAll - af.wex ELSE 0
        statDevs ==
            IF st.cfg.stats # 1 THEN <<>> ELSE
               (IF e.st[1] # s2.st[1] THEN <<D(line, e, pre, "st.hits", s2.st[1], e.st[1])>> ELSE <<>>)
            \o (IF e.st[2] # s2.st[2] THEN <<D(line, e, pre, "st.misses", s2.st[2], e.st[2])>> ELSE <<>>)
            \o (IF e.st[5] # s2.st[5] THEN <<D(line, e, pre, "st.loadok", s2.st[5], e.st[5])>> ELSE <<>>)
            \o (IF e.st[6] # s2.st[6] THEN <<D(line, e, pre, "st.loadfail", s2.st[6], e.st[6])>> ELSE <<>>)
            \o (IF dEv < evLo \/ dEv > evHi THEN <<D(line, e, pre, "st.evictions", <<evLo, evHi>>, dEv)>> ELSE <<>>)
            \o (IF dEw < af.wov + af.wex \/ dEw > af.wov + af.wex + wExOwn
                THEN <<D(line, e, pre, "st.evweight", <<af.wov + af.wex, af.wov + af.wex + wExOwn>>, dEw)>> ELSE <<>>)
        evDevs ==
               (IF af.missing # <<>> THEN <<D(line, e, pre, "ev.missing", af.missing, logA)>> ELSE <<>>)
            \o [j \in DOMAIN af.bad |-> D(line, e, PreClass(st, af.bad[j].k), "ev.unjustified." \o af.bad[j].c, "justified", af.bad[j])]
            \o (IF ~BagEq(logA, logD) THEN <<D(line, e, pre, "ev.async", logA, logD)>> ELSE <<>>)
        tgt  == [k \in Keys(st) |-> IF k + 1 \in DOMAIN e.tgt THEN e.tgt[k + 1] ELSE [k |-> k, p |-> 0, v |-> -1, w |-> 0, exp |-> 0, ref |-> 0]]
        slDevs == IF a.op # "SaveLoad" \/ e.err # "" \/ e.panic = 1
                  THEN (IF a.op = "SaveLoad" THEN <<D(line, e, pre, "saveload.error", "", <<e.err, e.panic>>)>> ELSE <<>>)
                  ELSE LET f == SaveLoadDevs(s2, tgt, e.tgtnow, e.tgtmax)
                           ks == SetToSortedSeq(DOMAIN f)
                       IN [j \in DOMAIN ks |-> D(line, e, IF ks[j] \in Keys(s2) THEN PreClass(s2, ks[j]) ELSE "nokey",
                                                  "saveload." \o f[ks[j]], ks[j], IF ks[j] \in Keys(s2) THEN <<s2.ent[ks[j]], tgt[ks[j]]>> ELSE <<>>)]
        devs == FieldDevs(line, e, pre, o) \o evDevs
                \o AllProjDevs(line, e, pre, s2, 0, af.refany)
                \o (IF e.est # Cardinality(Phys(s2)) THEN <<D(line, e, pre, "est", Cardinality(Phys(s2)), e.est)>> ELSE <<>>)
                \o (IF a.op = "CleanUp" /\ HasExp(s2.cfg)
                    THEN LET tickU == 1073741824 \div s2.cfg.scale
                             late == {k \in Keys(s2) : s2.ent[k].p /\ s2.ent[k].exp >= 0 /\ s2.now - s2.ent[k].exp > tickU}
                         IN IF late # {} THEN <<D(line, e, pre, "sweep.late", {}, [k \in late |-> s2.ent[k].exp])>> ELSE <<>>
                    ELSE <<>>)
                \o (IF e.inflight # 0 THEN <<D(line, e, pre, "inflight", 0, e.inflight)>> ELSE <<>>)
                \o (IF e.now # s2.now THEN <<D(line, e, pre, "now", s2.now, e.now)>> ELSE <<>>)
                \o statDevs
                \o (IF ~BoundOK(s2) THEN <<D(line, e, pre, "bound", <<"max", s2.max>>, <<"total", Total(s2)>>)>> ELSE <<>>)
                \o slDevs
    IN [s |-> Resync(s2, e), dev |-> devs]

Init == /\ i = 1
        /\ s = InitState([nk |-> 0, max |-> 0, size |-> "none", expiry |-> "none", refresh |-> "none", stats |-> 0], 0)
        /\ dev = <<>>
        /\ nops = 0

Next ==
    \/ /\ i <= Len(Trace)
       /\ LET r == TraceStep(s, Trace[i], i)
          IN /\ s' = r.s
             /\ dev' = dev \o r.dev
       /\ nops' = nops + 1
       /\ i' = i + 1
    \/ /\ i = Len(Trace) + 1
       /\ JsonSerialize(IOEnv.VERIF_DEVOUT, [n |-> nops, devs |-> dev])
       /\ i' = i + 1
       /\ UNCHANGED <<s, dev, nops>>

Spec == Init /\ [][Next]_vars
=============================================================================
