------------------------------- MODULE Drain -------------------------------
(***************************************************************************)
(* The drain-status / eviction-mutex / token protocol of cache_impl.go     *)
(* (afterWriteTask, scheduleAfterWrite, scheduleDrainBuffers, drainBuffers,*)
(* performCleanUp, maintenance, rescheduleCleanUpIfIncomplete) with the    *)
(* default executor (every scheduled task is a new goroutine), one label   *)
(* per shared access.  A label is the verifhook point placed BEFORE that   *)
(* access in the code ("saw.load" -> saw_load), so a behaviour of this     *)
(* specification is directly a schedule for the gate replayer (binding B2) *)
(* and a hook log of the real code is a candidate behaviour (B1).          *)
(*                                                                         *)
(* C14:  NoStranded == Quiescent => buf = 0 /\ status = Idle               *)
(*                                                                         *)
(* Other holders of the eviction mutex are separate processes: the         *)
(* InvalidateAll and Hottest/Coldest holders release the mutex WITHOUT     *)
(* rescheduleCleanUpIfIncomplete unless FixHolders is TRUE (finding F9).   *)
(*                                                                         *)
(* Drop names the places where the protocol re-schedules or re-checks:     *)
(*   db_lock / db_token / pc : the reschedule after the three ways a       *)
(*                             spawned task gets to run maintenance        *)
(*   sm_maint / sm_rs / cleanup : the same for SetMaximum and CleanUp      *)
(*   saw_cas : the CAS (with retry) processing-to-idle -> -to-required     *)
(*   mt_cas  : the final CAS of maintenance (processing-to-idle -> idle)   *)
(***************************************************************************)
EXTENDS Integers, Sequences, FiniteSets, TLC

CONSTANTS Writers,        \* set of writer process ids
          NWrites,        \* writes per writer
          Tasks,          \* pool of ids for goroutines spawned by the executor
          Holders,        \* set of extra lock-holder process ids
          HolderKind,     \* function Holders -> {"invalidateAll", "order", "getmax", "cleanup", "reader"}
          FixHolders,     \* TRUE: InvalidateAll / evictionOrder reschedule after unlocking
          Drop            \* set of re-scheduling / re-check sites left out.  {} is the protocol of the code.  Every
                          \* singleton is an ADVERSARIAL model that must violate NoStranded; TLC's counterexample is the
                          \* schedule that needs that site, and is replayed on the real cache (tools/draincheck.py)

Idle == 0
Required == 1
P2I == 2
P2R == 3
NoTask == 0

(* --algorithm Drain
variables status = Idle,           \* drainStatus
          lock = FALSE,            \* evictionMutex
          buf = 0,                 \* tasks in the write buffer
          token = [t \in Tasks |-> 0],
          spawned = {},            \* task ids handed to the executor
          handoff = [t \in Tasks |-> FALSE];   \* the spawner has not passed its token CAS yet (model bookkeeping for id reuse)

define
  FreeTask == CHOOSE t \in Tasks : t \notin spawned /\ \A u \in Tasks : u \notin spawned => t <= u
end define;

\* scheduleDrainBuffers, as run by the process that calls it (writer, task, holder)
procedure SDB()
variables myTask = NoTask;
begin
 sdb_load1:    if status >= P2I then return; end if;
 sdb_tryLock:  if lock then return; else lock := TRUE; end if;
 sdb_load2:    if status >= P2I then
 sdb_unlockBusy: lock := FALSE; return;
               end if;
 sdb_storeP2I: status := P2I;
 sdb_exec:     myTask := FreeTask; spawned := spawned \cup {myTask}; handoff[myTask] := TRUE;
 sdb_token:    if token[myTask] = 0 then
                  token[myTask] := 1;
 sdb_unlock:      lock := FALSE;
               end if;
 sdb_ret:      handoff[myTask] := FALSE; return;
end procedure;

\* maintenance(nil) followed by unlock and rescheduleCleanUpIfIncomplete; the caller holds the mutex
procedure Maint(resched)
variables st = 0;
begin
 mt_storeP2I:  status := P2I;
 mt_pop:       while buf > 0 do
                  buf := buf - 1;
               end while;
 mt_final:     st := status;
 mt_finalCAS:  if st # P2I then
 mt_storeReq1:    status := Required;
               elsif status = P2I \/ "mt_cas" \in Drop then status := Idle;
               else
 mt_storeReq2:    status := Required;
               end if;
 mt_unlock:    lock := FALSE;
 rs_load:      if resched /\ status = Required then call SDB(); end if;
 mt_ret:       return;
end procedure;

fair process Writer \in Writers
variables n = 0, ds = 0;
begin
 W0: while n < NWrites do
        n := n + 1;
 aw_push:   buf := buf + 1;       \* TryPush (the buffer never fills in this model)
 saw_load:  ds := status;
            if ds = Idle then
 saw_casIdle:  if status = Idle then status := Required; end if;
               call SDB();
            elsif ds = Required then
               call SDB();
            elsif ds = P2I then
 saw_casP2I:   if status = P2I \/ "saw_cas" \in Drop then status := P2R; else goto saw_load; end if;
            end if;
     end while;
end process;

fair process Task \in Tasks
begin
 T0:        await self \in spawned;
 db_enter:  if ~lock then
               lock := TRUE;
               call Maint("db_lock" \notin Drop);
            else
 db_token:     if token[self] = 0 then
                  token[self] := 1;                        \* the scheduling goroutine still holds the mutex: take it over
                  call Maint("db_token" \notin Drop);
               else
 pc_lock:         await ~lock; lock := TRUE;               \* performCleanUp: blocking Lock
                  call Maint("pc" \notin Drop);
               end if;
            end if;
 T_end:     \* the goroutine is gone; its id returns to the pool once the spawner is past its token CAS
            await ~handoff[self];
            spawned := spawned \ {self}; token[self] := 0;
            goto T0;
end process;

fair process Holder \in Holders
begin
 H0: if HolderKind[self] = "invalidateAll" then
 ia_lock:      await ~lock; lock := TRUE;
 ia_pop:       while buf > 0 do buf := buf - 1; end while;
 ia_unlock:    \* (wrong protocol "ia_mark": the holder erases a write's Required mark - "everything was replayed and discarded" - before it unlocks)
               if "ia_mark" \in Drop /\ status = Required then status := Idle; end if;
               lock := FALSE;
 ia_after:     if FixHolders /\ status = Required then call SDB(); end if;
     elsif HolderKind[self] = "order" then
 eo_lock:      await ~lock; lock := TRUE;
               call Maint(FixHolders);
     elsif HolderKind[self] = "getmax" then
 sm_lock:      await ~lock; lock := TRUE;
 sm_check:     if status = Required then call Maint("sm_maint" \notin Drop);
               else
 sm_unlock:       lock := FALSE;
 sm_rs:           if "sm_rs" \notin Drop /\ status = Required then call SDB(); end if;
               end if;
     elsif HolderKind[self] = "cleanup" then
 pc_lock2:     await ~lock; lock := TRUE;
               call Maint("cleanup" \notin Drop);
     else   \* reader that found the status required (getNode miss path)
 rd_load:      if status = Required then call SDB(); end if;
     end if;
end process;
end algorithm; *)
\* BEGIN TRANSLATION
CONSTANT defaultInitValue
VARIABLES pc, status, lock, buf, token, spawned, handoff, stack

(* define statement *)
FreeTask == CHOOSE t \in Tasks : t \notin spawned /\ \A u \in Tasks : u \notin spawned => t <= u

VARIABLES myTask, resched, st, n, ds

vars == << pc, status, lock, buf, token, spawned, handoff, stack, myTask, 
           resched, st, n, ds >>

ProcSet == (Writers) \cup (Tasks) \cup (Holders)

Init == (* Global variables *)
        /\ status = Idle
        /\ lock = FALSE
        /\ buf = 0
        /\ token = [t \in Tasks |-> 0]
        /\ spawned = {}
        /\ handoff = [t \in Tasks |-> FALSE]
        (* Procedure SDB *)
        /\ myTask = [ self \in ProcSet |-> NoTask]
        (* Procedure Maint *)
        /\ resched = [ self \in ProcSet |-> defaultInitValue]
        /\ st = [ self \in ProcSet |-> 0]
        (* Process Writer *)
        /\ n = [self \in Writers |-> 0]
        /\ ds = [self \in Writers |-> 0]
        /\ stack = [self \in ProcSet |-> << >>]
        /\ pc = [self \in ProcSet |-> CASE self \in Writers -> "W0"
                                        [] self \in Tasks -> "T0"
                                        [] self \in Holders -> "H0"]

sdb_load1(self) == /\ pc[self] = "sdb_load1"
                   /\ IF status >= P2I
                         THEN /\ pc' = [pc EXCEPT ![self] = Head(stack[self]).pc]
                              /\ myTask' = [myTask EXCEPT ![self] = Head(stack[self]).myTask]
                              /\ stack' = [stack EXCEPT ![self] = Tail(stack[self])]
                         ELSE /\ pc' = [pc EXCEPT ![self] = "sdb_tryLock"]
                              /\ UNCHANGED << stack, myTask >>
                   /\ UNCHANGED << status, lock, buf, token, spawned, handoff, 
                                   resched, st, n, ds >>

sdb_tryLock(self) == /\ pc[self] = "sdb_tryLock"
                     /\ IF lock
                           THEN /\ pc' = [pc EXCEPT ![self] = Head(stack[self]).pc]
                                /\ myTask' = [myTask EXCEPT ![self] = Head(stack[self]).myTask]
                                /\ stack' = [stack EXCEPT ![self] = Tail(stack[self])]
                                /\ lock' = lock
                           ELSE /\ lock' = TRUE
                                /\ pc' = [pc EXCEPT ![self] = "sdb_load2"]
                                /\ UNCHANGED << stack, myTask >>
                     /\ UNCHANGED << status, buf, token, spawned, handoff, 
                                     resched, st, n, ds >>

sdb_load2(self) == /\ pc[self] = "sdb_load2"
                   /\ IF status >= P2I
                         THEN /\ pc' = [pc EXCEPT ![self] = "sdb_unlockBusy"]
                         ELSE /\ pc' = [pc EXCEPT ![self] = "sdb_storeP2I"]
                   /\ UNCHANGED << status, lock, buf, token, spawned, handoff, 
                                   stack, myTask, resched, st, n, ds >>

sdb_unlockBusy(self) == /\ pc[self] = "sdb_unlockBusy"
                        /\ lock' = FALSE
                        /\ pc' = [pc EXCEPT ![self] = Head(stack[self]).pc]
                        /\ myTask' = [myTask EXCEPT ![self] = Head(stack[self]).myTask]
                        /\ stack' = [stack EXCEPT ![self] = Tail(stack[self])]
                        /\ UNCHANGED << status, buf, token, spawned, handoff, 
                                        resched, st, n, ds >>

sdb_storeP2I(self) == /\ pc[self] = "sdb_storeP2I"
                      /\ status' = P2I
                      /\ pc' = [pc EXCEPT ![self] = "sdb_exec"]
                      /\ UNCHANGED << lock, buf, token, spawned, handoff, 
                                      stack, myTask, resched, st, n, ds >>

sdb_exec(self) == /\ pc[self] = "sdb_exec"
                  /\ myTask' = [myTask EXCEPT ![self] = FreeTask]
                  /\ spawned' = (spawned \cup {myTask'[self]})
                  /\ handoff' = [handoff EXCEPT ![myTask'[self]] = TRUE]
                  /\ pc' = [pc EXCEPT ![self] = "sdb_token"]
                  /\ UNCHANGED << status, lock, buf, token, stack, resched, st, 
                                  n, ds >>

sdb_token(self) == /\ pc[self] = "sdb_token"
                   /\ IF token[myTask[self]] = 0
                         THEN /\ token' = [token EXCEPT ![myTask[self]] = 1]
                              /\ pc' = [pc EXCEPT ![self] = "sdb_unlock"]
                         ELSE /\ pc' = [pc EXCEPT ![self] = "sdb_ret"]
                              /\ token' = token
                   /\ UNCHANGED << status, lock, buf, spawned, handoff, stack, 
                                   myTask, resched, st, n, ds >>

sdb_unlock(self) == /\ pc[self] = "sdb_unlock"
                    /\ lock' = FALSE
                    /\ pc' = [pc EXCEPT ![self] = "sdb_ret"]
                    /\ UNCHANGED << status, buf, token, spawned, handoff, 
                                    stack, myTask, resched, st, n, ds >>

sdb_ret(self) == /\ pc[self] = "sdb_ret"
                 /\ handoff' = [handoff EXCEPT ![myTask[self]] = FALSE]
                 /\ pc' = [pc EXCEPT ![self] = Head(stack[self]).pc]
                 /\ myTask' = [myTask EXCEPT ![self] = Head(stack[self]).myTask]
                 /\ stack' = [stack EXCEPT ![self] = Tail(stack[self])]
                 /\ UNCHANGED << status, lock, buf, token, spawned, resched, 
                                 st, n, ds >>

SDB(self) == sdb_load1(self) \/ sdb_tryLock(self) \/ sdb_load2(self)
                \/ sdb_unlockBusy(self) \/ sdb_storeP2I(self)
                \/ sdb_exec(self) \/ sdb_token(self) \/ sdb_unlock(self)
                \/ sdb_ret(self)

mt_storeP2I(self) == /\ pc[self] = "mt_storeP2I"
                     /\ status' = P2I
                     /\ pc' = [pc EXCEPT ![self] = "mt_pop"]
                     /\ UNCHANGED << lock, buf, token, spawned, handoff, stack, 
                                     myTask, resched, st, n, ds >>

mt_pop(self) == /\ pc[self] = "mt_pop"
                /\ IF buf > 0
                      THEN /\ buf' = buf - 1
                           /\ pc' = [pc EXCEPT ![self] = "mt_pop"]
                      ELSE /\ pc' = [pc EXCEPT ![self] = "mt_final"]
                           /\ buf' = buf
                /\ UNCHANGED << status, lock, token, spawned, handoff, stack, 
                                myTask, resched, st, n, ds >>

mt_final(self) == /\ pc[self] = "mt_final"
                  /\ st' = [st EXCEPT ![self] = status]
                  /\ pc' = [pc EXCEPT ![self] = "mt_finalCAS"]
                  /\ UNCHANGED << status, lock, buf, token, spawned, handoff, 
                                  stack, myTask, resched, n, ds >>

mt_finalCAS(self) == /\ pc[self] = "mt_finalCAS"
                     /\ IF st[self] # P2I
                           THEN /\ pc' = [pc EXCEPT ![self] = "mt_storeReq1"]
                                /\ UNCHANGED status
                           ELSE /\ IF status = P2I \/ "mt_cas" \in Drop
                                      THEN /\ status' = Idle
                                           /\ pc' = [pc EXCEPT ![self] = "mt_unlock"]
                                      ELSE /\ pc' = [pc EXCEPT ![self] = "mt_storeReq2"]
                                           /\ UNCHANGED status
                     /\ UNCHANGED << lock, buf, token, spawned, handoff, stack, 
                                     myTask, resched, st, n, ds >>

mt_storeReq1(self) == /\ pc[self] = "mt_storeReq1"
                      /\ status' = Required
                      /\ pc' = [pc EXCEPT ![self] = "mt_unlock"]
                      /\ UNCHANGED << lock, buf, token, spawned, handoff, 
                                      stack, myTask, resched, st, n, ds >>

mt_storeReq2(self) == /\ pc[self] = "mt_storeReq2"
                      /\ status' = Required
                      /\ pc' = [pc EXCEPT ![self] = "mt_unlock"]
                      /\ UNCHANGED << lock, buf, token, spawned, handoff, 
                                      stack, myTask, resched, st, n, ds >>

mt_unlock(self) == /\ pc[self] = "mt_unlock"
                   /\ lock' = FALSE
                   /\ pc' = [pc EXCEPT ![self] = "rs_load"]
                   /\ UNCHANGED << status, buf, token, spawned, handoff, stack, 
                                   myTask, resched, st, n, ds >>

rs_load(self) == /\ pc[self] = "rs_load"
                 /\ IF resched[self] /\ status = Required
                       THEN /\ stack' = [stack EXCEPT ![self] = << [ procedure |->  "SDB",
                                                                     pc        |->  "mt_ret",
                                                                     myTask    |->  myTask[self] ] >>
                                                                 \o stack[self]]
                            /\ myTask' = [myTask EXCEPT ![self] = NoTask]
                            /\ pc' = [pc EXCEPT ![self] = "sdb_load1"]
                       ELSE /\ pc' = [pc EXCEPT ![self] = "mt_ret"]
                            /\ UNCHANGED << stack, myTask >>
                 /\ UNCHANGED << status, lock, buf, token, spawned, handoff, 
                                 resched, st, n, ds >>

mt_ret(self) == /\ pc[self] = "mt_ret"
                /\ pc' = [pc EXCEPT ![self] = Head(stack[self]).pc]
                /\ st' = [st EXCEPT ![self] = Head(stack[self]).st]
                /\ resched' = [resched EXCEPT ![self] = Head(stack[self]).resched]
                /\ stack' = [stack EXCEPT ![self] = Tail(stack[self])]
                /\ UNCHANGED << status, lock, buf, token, spawned, handoff, 
                                myTask, n, ds >>

Maint(self) == mt_storeP2I(self) \/ mt_pop(self) \/ mt_final(self)
                  \/ mt_finalCAS(self) \/ mt_storeReq1(self)
                  \/ mt_storeReq2(self) \/ mt_unlock(self) \/ rs_load(self)
                  \/ mt_ret(self)

W0(self) == /\ pc[self] = "W0"
            /\ IF n[self] < NWrites
                  THEN /\ n' = [n EXCEPT ![self] = n[self] + 1]
                       /\ pc' = [pc EXCEPT ![self] = "aw_push"]
                  ELSE /\ pc' = [pc EXCEPT ![self] = "Done"]
                       /\ n' = n
            /\ UNCHANGED << status, lock, buf, token, spawned, handoff, stack, 
                            myTask, resched, st, ds >>

aw_push(self) == /\ pc[self] = "aw_push"
                 /\ buf' = buf + 1
                 /\ pc' = [pc EXCEPT ![self] = "saw_load"]
                 /\ UNCHANGED << status, lock, token, spawned, handoff, stack, 
                                 myTask, resched, st, n, ds >>

saw_load(self) == /\ pc[self] = "saw_load"
                  /\ ds' = [ds EXCEPT ![self] = status]
                  /\ IF ds'[self] = Idle
                        THEN /\ pc' = [pc EXCEPT ![self] = "saw_casIdle"]
                             /\ UNCHANGED << stack, myTask >>
                        ELSE /\ IF ds'[self] = Required
                                   THEN /\ stack' = [stack EXCEPT ![self] = << [ procedure |->  "SDB",
                                                                                 pc        |->  "W0",
                                                                                 myTask    |->  myTask[self] ] >>
                                                                             \o stack[self]]
                                        /\ myTask' = [myTask EXCEPT ![self] = NoTask]
                                        /\ pc' = [pc EXCEPT ![self] = "sdb_load1"]
                                   ELSE /\ IF ds'[self] = P2I
                                              THEN /\ pc' = [pc EXCEPT ![self] = "saw_casP2I"]
                                              ELSE /\ pc' = [pc EXCEPT ![self] = "W0"]
                                        /\ UNCHANGED << stack, myTask >>
                  /\ UNCHANGED << status, lock, buf, token, spawned, handoff, 
                                  resched, st, n >>

saw_casIdle(self) == /\ pc[self] = "saw_casIdle"
                     /\ IF status = Idle
                           THEN /\ status' = Required
                           ELSE /\ TRUE
                                /\ UNCHANGED status
                     /\ stack' = [stack EXCEPT ![self] = << [ procedure |->  "SDB",
                                                              pc        |->  "W0",
                                                              myTask    |->  myTask[self] ] >>
                                                          \o stack[self]]
                     /\ myTask' = [myTask EXCEPT ![self] = NoTask]
                     /\ pc' = [pc EXCEPT ![self] = "sdb_load1"]
                     /\ UNCHANGED << lock, buf, token, spawned, handoff, 
                                     resched, st, n, ds >>

saw_casP2I(self) == /\ pc[self] = "saw_casP2I"
                    /\ IF status = P2I \/ "saw_cas" \in Drop
                          THEN /\ status' = P2R
                               /\ pc' = [pc EXCEPT ![self] = "W0"]
                          ELSE /\ pc' = [pc EXCEPT ![self] = "saw_load"]
                               /\ UNCHANGED status
                    /\ UNCHANGED << lock, buf, token, spawned, handoff, stack, 
                                    myTask, resched, st, n, ds >>

Writer(self) == W0(self) \/ aw_push(self) \/ saw_load(self)
                   \/ saw_casIdle(self) \/ saw_casP2I(self)

T0(self) == /\ pc[self] = "T0"
            /\ self \in spawned
            /\ pc' = [pc EXCEPT ![self] = "db_enter"]
            /\ UNCHANGED << status, lock, buf, token, spawned, handoff, stack, 
                            myTask, resched, st, n, ds >>

db_enter(self) == /\ pc[self] = "db_enter"
                  /\ IF ~lock
                        THEN /\ lock' = TRUE
                             /\ /\ resched' = [resched EXCEPT ![self] = "db_lock" \notin Drop]
                                /\ stack' = [stack EXCEPT ![self] = << [ procedure |->  "Maint",
                                                                         pc        |->  "T_end",
                                                                         st        |->  st[self],
                                                                         resched   |->  resched[self] ] >>
                                                                     \o stack[self]]
                             /\ st' = [st EXCEPT ![self] = 0]
                             /\ pc' = [pc EXCEPT ![self] = "mt_storeP2I"]
                        ELSE /\ pc' = [pc EXCEPT ![self] = "db_token"]
                             /\ UNCHANGED << lock, stack, resched, st >>
                  /\ UNCHANGED << status, buf, token, spawned, handoff, myTask, 
                                  n, ds >>

db_token(self) == /\ pc[self] = "db_token"
                  /\ IF token[self] = 0
                        THEN /\ token' = [token EXCEPT ![self] = 1]
                             /\ /\ resched' = [resched EXCEPT ![self] = "db_token" \notin Drop]
                                /\ stack' = [stack EXCEPT ![self] = << [ procedure |->  "Maint",
                                                                         pc        |->  "T_end",
                                                                         st        |->  st[self],
                                                                         resched   |->  resched[self] ] >>
                                                                     \o stack[self]]
                             /\ st' = [st EXCEPT ![self] = 0]
                             /\ pc' = [pc EXCEPT ![self] = "mt_storeP2I"]
                        ELSE /\ pc' = [pc EXCEPT ![self] = "pc_lock"]
                             /\ UNCHANGED << token, stack, resched, st >>
                  /\ UNCHANGED << status, lock, buf, spawned, handoff, myTask, 
                                  n, ds >>

pc_lock(self) == /\ pc[self] = "pc_lock"
                 /\ ~lock
                 /\ lock' = TRUE
                 /\ /\ resched' = [resched EXCEPT ![self] = "pc" \notin Drop]
                    /\ stack' = [stack EXCEPT ![self] = << [ procedure |->  "Maint",
                                                             pc        |->  "T_end",
                                                             st        |->  st[self],
                                                             resched   |->  resched[self] ] >>
                                                         \o stack[self]]
                 /\ st' = [st EXCEPT ![self] = 0]
                 /\ pc' = [pc EXCEPT ![self] = "mt_storeP2I"]
                 /\ UNCHANGED << status, buf, token, spawned, handoff, myTask, 
                                 n, ds >>

T_end(self) == /\ pc[self] = "T_end"
               /\ ~handoff[self]
               /\ spawned' = spawned \ {self}
               /\ token' = [token EXCEPT ![self] = 0]
               /\ pc' = [pc EXCEPT ![self] = "T0"]
               /\ UNCHANGED << status, lock, buf, handoff, stack, myTask, 
                               resched, st, n, ds >>

Task(self) == T0(self) \/ db_enter(self) \/ db_token(self) \/ pc_lock(self)
                 \/ T_end(self)

H0(self) == /\ pc[self] = "H0"
            /\ IF HolderKind[self] = "invalidateAll"
                  THEN /\ pc' = [pc EXCEPT ![self] = "ia_lock"]
                  ELSE /\ IF HolderKind[self] = "order"
                             THEN /\ pc' = [pc EXCEPT ![self] = "eo_lock"]
                             ELSE /\ IF HolderKind[self] = "getmax"
                                        THEN /\ pc' = [pc EXCEPT ![self] = "sm_lock"]
                                        ELSE /\ IF HolderKind[self] = "cleanup"
                                                   THEN /\ pc' = [pc EXCEPT ![self] = "pc_lock2"]
                                                   ELSE /\ pc' = [pc EXCEPT ![self] = "rd_load"]
            /\ UNCHANGED << status, lock, buf, token, spawned, handoff, stack, 
                            myTask, resched, st, n, ds >>

ia_lock(self) == /\ pc[self] = "ia_lock"
                 /\ ~lock
                 /\ lock' = TRUE
                 /\ pc' = [pc EXCEPT ![self] = "ia_pop"]
                 /\ UNCHANGED << status, buf, token, spawned, handoff, stack, 
                                 myTask, resched, st, n, ds >>

ia_pop(self) == /\ pc[self] = "ia_pop"
                /\ IF buf > 0
                      THEN /\ buf' = buf - 1
                           /\ pc' = [pc EXCEPT ![self] = "ia_pop"]
                      ELSE /\ pc' = [pc EXCEPT ![self] = "ia_unlock"]
                           /\ buf' = buf
                /\ UNCHANGED << status, lock, token, spawned, handoff, stack, 
                                myTask, resched, st, n, ds >>

ia_unlock(self) == /\ pc[self] = "ia_unlock"
                   /\ IF "ia_mark" \in Drop /\ status = Required
                         THEN /\ status' = Idle
                         ELSE /\ TRUE
                              /\ UNCHANGED status
                   /\ lock' = FALSE
                   /\ pc' = [pc EXCEPT ![self] = "ia_after"]
                   /\ UNCHANGED << buf, token, spawned, handoff, stack, myTask, 
                                   resched, st, n, ds >>

ia_after(self) == /\ pc[self] = "ia_after"
                  /\ IF FixHolders /\ status = Required
                        THEN /\ stack' = [stack EXCEPT ![self] = << [ procedure |->  "SDB",
                                                                      pc        |->  "Done",
                                                                      myTask    |->  myTask[self] ] >>
                                                                  \o stack[self]]
                             /\ myTask' = [myTask EXCEPT ![self] = NoTask]
                             /\ pc' = [pc EXCEPT ![self] = "sdb_load1"]
                        ELSE /\ pc' = [pc EXCEPT ![self] = "Done"]
                             /\ UNCHANGED << stack, myTask >>
                  /\ UNCHANGED << status, lock, buf, token, spawned, handoff, 
                                  resched, st, n, ds >>

eo_lock(self) == /\ pc[self] = "eo_lock"
                 /\ ~lock
                 /\ lock' = TRUE
                 /\ /\ resched' = [resched EXCEPT ![self] = FixHolders]
                    /\ stack' = [stack EXCEPT ![self] = << [ procedure |->  "Maint",
                                                             pc        |->  "Done",
                                                             st        |->  st[self],
                                                             resched   |->  resched[self] ] >>
                                                         \o stack[self]]
                 /\ st' = [st EXCEPT ![self] = 0]
                 /\ pc' = [pc EXCEPT ![self] = "mt_storeP2I"]
                 /\ UNCHANGED << status, buf, token, spawned, handoff, myTask, 
                                 n, ds >>

sm_lock(self) == /\ pc[self] = "sm_lock"
                 /\ ~lock
                 /\ lock' = TRUE
                 /\ pc' = [pc EXCEPT ![self] = "sm_check"]
                 /\ UNCHANGED << status, buf, token, spawned, handoff, stack, 
                                 myTask, resched, st, n, ds >>

sm_check(self) == /\ pc[self] = "sm_check"
                  /\ IF status = Required
                        THEN /\ /\ resched' = [resched EXCEPT ![self] = "sm_maint" \notin Drop]
                                /\ stack' = [stack EXCEPT ![self] = << [ procedure |->  "Maint",
                                                                         pc        |->  "Done",
                                                                         st        |->  st[self],
                                                                         resched   |->  resched[self] ] >>
                                                                     \o stack[self]]
                             /\ st' = [st EXCEPT ![self] = 0]
                             /\ pc' = [pc EXCEPT ![self] = "mt_storeP2I"]
                        ELSE /\ pc' = [pc EXCEPT ![self] = "sm_unlock"]
                             /\ UNCHANGED << stack, resched, st >>
                  /\ UNCHANGED << status, lock, buf, token, spawned, handoff, 
                                  myTask, n, ds >>

sm_unlock(self) == /\ pc[self] = "sm_unlock"
                   /\ lock' = FALSE
                   /\ pc' = [pc EXCEPT ![self] = "sm_rs"]
                   /\ UNCHANGED << status, buf, token, spawned, handoff, stack, 
                                   myTask, resched, st, n, ds >>

sm_rs(self) == /\ pc[self] = "sm_rs"
               /\ IF "sm_rs" \notin Drop /\ status = Required
                     THEN /\ stack' = [stack EXCEPT ![self] = << [ procedure |->  "SDB",
                                                                   pc        |->  "Done",
                                                                   myTask    |->  myTask[self] ] >>
                                                               \o stack[self]]
                          /\ myTask' = [myTask EXCEPT ![self] = NoTask]
                          /\ pc' = [pc EXCEPT ![self] = "sdb_load1"]
                     ELSE /\ pc' = [pc EXCEPT ![self] = "Done"]
                          /\ UNCHANGED << stack, myTask >>
               /\ UNCHANGED << status, lock, buf, token, spawned, handoff, 
                               resched, st, n, ds >>

pc_lock2(self) == /\ pc[self] = "pc_lock2"
                  /\ ~lock
                  /\ lock' = TRUE
                  /\ /\ resched' = [resched EXCEPT ![self] = "cleanup" \notin Drop]
                     /\ stack' = [stack EXCEPT ![self] = << [ procedure |->  "Maint",
                                                              pc        |->  "Done",
                                                              st        |->  st[self],
                                                              resched   |->  resched[self] ] >>
                                                          \o stack[self]]
                  /\ st' = [st EXCEPT ![self] = 0]
                  /\ pc' = [pc EXCEPT ![self] = "mt_storeP2I"]
                  /\ UNCHANGED << status, buf, token, spawned, handoff, myTask, 
                                  n, ds >>

rd_load(self) == /\ pc[self] = "rd_load"
                 /\ IF status = Required
                       THEN /\ stack' = [stack EXCEPT ![self] = << [ procedure |->  "SDB",
                                                                     pc        |->  "Done",
                                                                     myTask    |->  myTask[self] ] >>
                                                                 \o stack[self]]
                            /\ myTask' = [myTask EXCEPT ![self] = NoTask]
                            /\ pc' = [pc EXCEPT ![self] = "sdb_load1"]
                       ELSE /\ pc' = [pc EXCEPT ![self] = "Done"]
                            /\ UNCHANGED << stack, myTask >>
                 /\ UNCHANGED << status, lock, buf, token, spawned, handoff, 
                                 resched, st, n, ds >>

Holder(self) == H0(self) \/ ia_lock(self) \/ ia_pop(self)
                   \/ ia_unlock(self) \/ ia_after(self) \/ eo_lock(self)
                   \/ sm_lock(self) \/ sm_check(self) \/ sm_unlock(self)
                   \/ sm_rs(self) \/ pc_lock2(self) \/ rd_load(self)

(* Allow infinite stuttering to prevent deadlock on termination. *)
Terminating == /\ \A self \in ProcSet: pc[self] = "Done"
               /\ UNCHANGED vars

Next == (\E self \in ProcSet: SDB(self) \/ Maint(self))
           \/ (\E self \in Writers: Writer(self))
           \/ (\E self \in Tasks: Task(self))
           \/ (\E self \in Holders: Holder(self))
           \/ Terminating

Spec == /\ Init /\ [][Next]_vars
        /\ \A self \in Writers : WF_vars(Writer(self)) /\ WF_vars(SDB(self))
        /\ \A self \in Tasks : WF_vars(Task(self)) /\ WF_vars(Maint(self)) /\ WF_vars(SDB(self))
        /\ \A self \in Holders : WF_vars(Holder(self)) /\ WF_vars(SDB(self)) /\ WF_vars(Maint(self))

Termination == <>(\A self \in ProcSet: pc[self] = "Done")

\* END TRANSLATION

Quiescent == \A p \in Writers \cup Tasks \cup Holders :
                 \/ pc[p] = "Done"
                 \/ (p \in Tasks /\ pc[p] = "T0" /\ p \notin spawned)

NoStranded == Quiescent => (buf = 0 /\ status = Idle)
LockFreeAtEnd == Quiescent => ~lock
StatusOK == status \in {Idle, Required, P2I, P2R}
PoolOK == \A p \in Writers \cup Tasks \cup Holders : (pc[p] = "sdb_exec") => (\E t \in Tasks : t \notin spawned)
=============================================================================
