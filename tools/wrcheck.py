"""C04 C05 C06: WriteReplay.tla model-checked (Agree, Bound, Once) + real cache under gate-scheduled / yield-perturbed
concurrent writers, audited after quiescence; the audit record is judged by WRAudit.tla (the same terminal predicates
over the logged real state)."""
import concurrent.futures as cf
import json
import os
import time

import vlib

PRED_PROP = {"C04": ("C04.",), "C05": ("C05.",), "C06": ("C06.",),
             # C16, cache level: "no cache write is forgotten by the eviction and expiration policies" when the write buffer overflows
             "C16": ("C05.", "C04.bound", "C06.conservation", "C06.abnormal_end", "C16."),
             # C17, cache level: concurrent consumers of the read buffer (recorded reads stuck or delivered twice)
             "C17": ("C17.", "C05.abnormal_end"),
             # C07, concurrent form: no Overflow removal in a cache that never exceeds its maximum
             "C07": ("C07.", "C05.abnormal_end"),
             # C14, overflow fallback: the bound is restored without any further call once the cache reports no outstanding maintenance
             "C14": ("C14.bound_restored",)}


def wr_cfg(writers, keys, nops, weights, maxw, nodes, transplant=False):
    return ("SPECIFICATION Spec\nCONSTANTS\n Writers = {%s}\n Keys = {%s}\n NOps = %d\n Weights = {%s}\n MaxW = %d\n"
            " Transplant = %s\n NodeIds = {%s}\nINVARIANTS Agree Bound Once NeverTwice\nCHECK_DEADLOCK FALSE\n" %
            (", ".join(map(str, range(1, writers + 1))), ", ".join(map(str, range(1, keys + 1))), nops,
             ", ".join(map(str, weights)), maxw, "TRUE" if transplant else "FALSE", ", ".join(map(str, range(1, nodes + 1)))))


def run_mc(work, tag, text, workers, timeout=3000):
    path = os.path.join(work, "wr_%s.cfg" % tag)
    with open(path, "w") as f:
        f.write(text)
    r = vlib.run_tlc(work, "WriteReplay", path, workers=workers, timeout=timeout, heap="8g")
    r["tag"] = tag
    return r


def scenarios(prop, quick, seed):
    n = 240 if quick else 2400
    if prop == "C16":
        n = 96 if quick else 960
    if prop in ("C17", "C07"):
        n = 48 if quick else 480
    if prop == "C14":
        n = 64 if quick else 800
    out = []
    for j in range(n):
        pol = ["random", "pct", "free", "pct"][j % 4]
        base = {"writers": 2 + j % 3, "ops": 3 + j % 4, "keys": 1 + j % 3, "wt": [], "setmax": [], "syncexec": 0,
                "policy": pol, "seed": seed * 100000 + j, "points": "pub" if j % 5 else "all", "expiry": (j // 2) % 2,
                "invall": [0, 0, 1, 0, 0, 2][j % 6], "reads": (j // 3) % 2, "stale": 1 if (j // 4) % 3 == 0 else 0,
                "smallbuf": 1 if (j // 5) % (2 if prop == "C04" else 4) == 1 else 0, "hwrite": 0}
        if prop == "C16":
            # (with an InvalidateAll in half of them: it replays the buffered events itself before it discards the entries)
            sc = dict(base, size=["count", "weight", "count"][j % 3], max=2 + j % 4, wt=[1, 0, 2, 1, 3], smallbuf=1, stale=0, invall=[0, 1, 0, 2][j % 4])
            if j % 4 == 1:
                # "long pass": the drain bound lowered to the size of the small buffer and a slow pass, so that one pass meets more
                # events than it may replay
                sc.update(smallbuf=2, size="count", max=3 + j % 3, invall=0, policy="free", reads=0)
            if j % 2 == 0:
                # one producer on one key with a same-goroutine executor: the order of its events is observable (C16.producer_order)
                sc.update(writers=1, keys=1, syncexec=1, ops=14 + j % 5, policy="free", size="count", max=3, reads=0, oneprod=1)
                if j % 4 == 2:
                    # ... and the deletion handler writes once from inside a maintenance run; then a long write-only phase over many keys
                    sc.update(hwrite=1, keys=8, ops=60 + j % 7, max=3, smallbuf=0)
        elif prop == "C14":
            # overflow fallback: a write buffer of 8 events, a foreign holder of the eviction mutex while the writers fill it, more distinct
            # keys than the maximum (the writer that runs the maintenance itself hands it its own event)
            sc = dict(base, size=["count", "weight"][j % 2], max=2 + j % 3, wt=[1, 1, 2, 1, 1], smallbuf=3, stale=0, invall=0, reads=0, expiry=0,
                      policy=["free", "random", "free", "pct"][j % 4])
        elif prop == "C17":
            sc = dict(base, size=["count", "none", "weight"][j % 3], max=3 + j % 4, wt=[1, 0, 2, 1, 3], smallbuf=0, stale=0, reads=1, expiry=1,
                      invall=2 + j % 3, policy="free", writers=3 + j % 2, ops=12 + j % 6, keys=2 + j % 3)
        elif prop == "C07":
            sc = dict(base, size="count", keys=1 + j % 3, max=3 + j % 4, smallbuf=0, stale=0, invall=[0, 1][j % 2], writers=2 + j % 3, ops=4 + j % 5)
            if j % 3 != 0:
                # weighted, every key at its heaviest fits: a light total and a heavy entry whose delete event may overtake its add event
                sc.update(size="weight", wt=[1, 5, 2, 7][: 2 + j % 3], max=3 * 7 + j % 4, points="pub")
        elif prop == "C04":
            kind = j % 3
            if kind == 0:
                sc = dict(base, size="count", max=1 + j % 3, setmax=[j % 3] if j % 4 == 0 else [])
            else:
                sc = dict(base, size="weight", max=2 + j % 5, wt=[0, 1, 2, 1, 7, 3][: 3 + j % 4], setmax=[1 + j % 3] if j % 3 == 0 else [])
        elif prop == "C05":
            sc = dict(base, size=["count", "weight", "count", "none"][j % 4], max=1 + j % 4, wt=[1, 0, 2, 1, 3])
            if sc["size"] == "none":
                sc["expiry"] = 1
        else:
            sc = dict(base, size=["count", "none", "weight", "none"][j % 4], max=1 + j % 3, wt=[1, 2, 0, 1], syncexec=(j // 4) % 2)
            if sc["size"] == "none" and j % 8 == 1:
                sc["expiry"] = 0       # no maintenance at all: the fast notification path
            if prop == "C06" and j % 8 == 3:
                # "long pass": the drain bound lowered to the size of a small buffer and a slow pass while producers keep writing - a pass meets more
                # events than it may replay; every replaced value must still reach OnDeletion
                sc.update(smallbuf=2, size="count", max=3 + j % 3, invall=0, policy="free", reads=0, syncexec=0, stale=0)
        if sc["smallbuf"] and not sc.get("oneprod"):
            sc["writers"], sc["ops"], sc["keys"] = 3 + j % 2, 8 + j % 4, 3 + j % 3
            if prop == "C14":
                sc["keys"] = 6 + j % 4
                if j % 2 == 0:
                    # one write per writer, more writers than the buffer holds: the last writes of the run are the ones that overflow -
                    # nothing comes after them that could repair what their maintenance pass left behind
                    sc["writers"], sc["ops"], sc["keys"], sc["policy"] = 14 + (j // 2) % 4, 1, 16, "free"
            if sc["smallbuf"] == 2:
                sc["writers"], sc["ops"] = 4, 14 + j % 5
        if sc["stale"]:
            # room for several entries in one queue, so that a replaced node has neighbours
            sc["keys"], sc["max"] = 2 + j % 2, max(sc["max"], 3 + j % 3)
        if sc["reads"] and pol != "free" and (j // 6) % 2:
            sc["policy"] = pol + "+stallread"
            sc["keys"] = 1 + j % 2
        out.append(sc)
    return out


def run(prop, tier, replay=None, collect_only=False):
    t0 = time.time()
    seed = vlib.seed()
    quick = tier == "quick"
    findings = vlib.load_findings()
    cov = {"states": 0, "transitions": 0, "traces_validated_against_impl": 0, "mc": [], "samples": [], "predicates_failed": {}}
    violations, known, broken = [], [], []
    with vlib.scratch("verif-wr-") as work:
        binary = vlib.build_test_binary(work, "otter")
        ex = cf.ThreadPoolExecutor(max_workers=vlib.NCPU)
        mc_futs = []
        if replay:
            with open(replay) as f:
                scen = json.load(f)
        else:
            inst = [("k1w2", wr_cfg(2, 1, 2, [1], 1, 4)), ("k2w2wt", wr_cfg(2, 2, 2, [0, 1, 3], 2, 4))]
            if not quick:
                inst += [("k1w3", wr_cfg(3, 1, 2, [0, 1], 1, 6)), ("k2w2n3", wr_cfg(2, 2, 3, [1, 2], 2, 6))]
            if prop in ("C16", "C17", "C07", "C14"):
                inst = []
            mc_futs = [ex.submit(run_mc, work, tag, txt, 4 if quick else 8) for tag, txt in inst]
            scen = scenarios(prop, quick, seed)
        nshard = min(vlib.NCPU, max(1, len(scen) // 8))
        shards = [scen[i::nshard] for i in range(nshard)]

        def one(i, part):
            inp = os.path.join(work, "in_%d.json" % i)
            outp = os.path.join(work, "out_%d.ndjson" % i)
            devp = os.path.join(work, "dev_%d.json" % i)
            with open(inp, "w") as f:
                json.dump(part, f)
            rc, out = vlib.run_test_binary(binary, "TestVerifWR", {"VERIF_IN": inp, "VERIF_OUT": outp}, timeout=1500)
            if rc != 0:
                raise vlib.Broken("write-replay driver failed:\n" + out[-3000:])
            r = vlib.run_tlc(work, "WRAudit", os.path.join(vlib.SPEC, "WRAudit.cfg"), workers=1, timeout=900, heap="3g",
                             env_extra={"VERIF_TRACE": outp, "VERIF_DEVOUT": devp})
            if not vlib.tlc_ok(r) or not os.path.exists(devp):
                raise vlib.Broken("WRAudit did not complete:\n" + r["out"][-2500:])
            with open(devp) as f:
                d = json.load(f)
            with open(outp) as f:
                recs = [json.loads(x) for x in f]
            return part, recs, d

        for fu in [ex.submit(one, i, p) for i, p in enumerate(shards)]:
            part, recs, d = fu.result()
            cov["traces_validated_against_impl"] += d["n"]
            if recs and len(cov["samples"]) < 2:
                r0 = recs[0]
                cov["samples"].append({"scenario": r0["sc"], "nodes": r0["nodes"][:6], "totals": [r0["wsize"], r0["winsize"], r0["protsize"], r0["max"]],
                                       "all": r0["all"], "events": r0["events"][:8], "writes": r0["writes"][:8]})
            seen = set()
            for x in d["devs"]:
                cov["predicates_failed"][x["pred"]] = cov["predicates_failed"].get(x["pred"], 0) + 1
                if not x["pred"].startswith(PRED_PROP[prop]) and not (x["pred"] == "run.diag"):
                    continue
                if x["pred"] == "run.diag":
                    vlib.log("note: scheduler diagnostic:", x["detail"][:200])
                    continue
                sc = part[x["rec"] - 1]
                sig = {"pred": x["pred"], "size": sc["size"]}
                fd = vlib.match_finding(findings, prop, sig)
                if fd:
                    known.append((fd, x))
                    continue
                if x["rec"] in seen:
                    continue
                seen.add(x["rec"])
                path = vlib.save_replay(prop, "wr-%s-%d" % (sc["policy"], sc["seed"]), [sc])
                violations.append((x, sc, path))
        for fu in mc_futs:
            r = fu.result()
            cov["mc"].append({"instance": r["tag"], "distinct": r["distinct"], "generated": r["generated"], "wall_s": round(r["wall"], 1)})
            cov["states"] += r["distinct"]
            cov["transitions"] += r["generated"]
            if not vlib.tlc_ok(r):
                broken.append("WriteReplay model check %s: %s" % (r["tag"], r["out"][-1500:]))
        ex.shutdown()
    if not cov["samples"]:
        cov["samples"] = [{"note": "replay"}]
    printed = set()
    for fd, x in known:
        if fd["id"] not in printed:
            printed.add(fd["id"])
            print("KNOWN-FINDING: property=%s %s (%s)" % (prop, fd["id"], fd["title"]))
    if collect_only:
        return cov, violations, broken
    cov["explanation"] = ("states/transitions: TLC totals for WriteReplay.tla instances (Agree, Bound, Once, NeverTwice); "
                          "traces_validated_against_impl: audit records of the real cache judged by WRAudit.tla")
    vlib.write_evidence(prop, tier, "model_checking", cov, time.time() - t0, violations=len(violations),
                        assumptions=["quiescence = every call returned, drain status idle, then one CleanUp",
                                     "gate scheduler parks at the task-publication window, task replay and eviction points",
                                     "frozen manual clock (no expiration during a run)"])
    if broken:
        for b in broken:
            vlib.log("BROKEN:", b)
        if not violations:       # (what the working parts observed on the real code stands: a violation is reported even if another part broke)
            return 2
    if violations:
        for x, sc, path in violations[:10]:
            print("VIOLATION property=%s replay=%s" % (prop, path))
            vlib.log("  %s: %s  scenario=%s" % (x["pred"], x["detail"][:300], {k: sc[k] for k in ("size", "max", "writers", "policy", "seed")}))
        return 1
    return 0
