"""Generic runner for the component mechanisms (C16 MPSC, C17 ring/striped, C15 table): a PlusCal/TLA+ mechanism spec is
model-checked, its behaviours (TLC -simulate) become goroutine schedules replayed on the real component by the gate
scheduler, plus seeded random/PCT/free-running runs; the recorded histories are judged by a TLA+ history spec."""
import concurrent.futures as cf
import json
import os
import re
import time

import vlib

STEP_RE = re.compile(r"^\\\* <(\w+)\((\d+)\) line")


def sim_scripts(simdir, name_of, hook_of):
    out = []
    for fn in sorted(os.listdir(simdir)):
        steps, started = [], set()
        with open(os.path.join(simdir, fn)) as f:
            for line in f:
                m = STEP_RE.match(line)
                if not m:
                    continue
                label, pid = m.group(1), int(m.group(2))
                name = name_of(pid)
                hook = hook_of(label)
                if name is None or hook is None:
                    continue
                if hook == "start":
                    if name in started:
                        continue
                    started.add(name)
                steps.append({"g": name, "at": hook})
        out.append(steps)
    return out


def run_component(prop, tier, replay, C):
    """C: dict(pkg, test, mc_module, judge, mc_instances(quick)->[(tag,cfgtext)], sim_instances(quick)->[(tag,cfgtext,n,scenario_base,name_of,hook_of)],
    scenarios(quick, seed)->[...], text for evidence)"""
    t0 = time.time()
    seed = vlib.seed()
    quick = tier == "quick"
    findings = vlib.load_findings()
    cov = {"states": 0, "transitions": 0, "traces_validated_against_impl": 0, "mc": [], "samples": [], "predicates_failed": {},
           "schedules": {}}
    violations, known, broken = [], [], []
    with vlib.scratch("verif-%s-" % prop.lower()) as work:
        binary = vlib.build_test_binary(work, C["pkg"])
        ex = cf.ThreadPoolExecutor(max_workers=vlib.NCPU)
        mc_futs = []
        if replay:
            with open(replay) as f:
                scen = json.load(f)
        else:
            def mc(tag, text):
                path = os.path.join(work, "mc_%s.cfg" % tag)
                with open(path, "w") as f:
                    f.write(text)
                r = vlib.run_tlc(work, C["mc_module"], path, workers=4 if quick else 8, timeout=3000, heap="8g")
                r["tag"] = tag
                return r
            mc_futs = [ex.submit(mc, tag, txt) for tag, txt in C["mc_instances"](quick)]
            for mod, tag, txt in C.get("extra_mc", lambda q: [])(quick):
                def mc2(mod=mod, tag=tag, txt=txt):
                    path = os.path.join(work, "mc_%s.cfg" % tag)
                    with open(path, "w") as f:
                        f.write(txt)
                    r = vlib.run_tlc(work, mod, path, workers=4 if quick else 8, timeout=3000, heap="8g")
                    r["tag"] = tag
                    return r
                mc_futs.append(ex.submit(mc2))
            scen = []
            for k, (tag, txt, num, base, name_of, hook_of) in enumerate(C["sim_instances"](quick)):
                path = os.path.join(work, "sim_%s.cfg" % tag)
                with open(path, "w") as f:
                    f.write(txt)
                simdir = os.path.join(work, "sim_" + tag)
                os.makedirs(simdir, exist_ok=True)
                r = vlib.run_tlc(work, C["mc_module"], path, workers=1, timeout=900, heap="2g",
                                 simulate="file=%s/t,num=%d" % (simdir, num), extra=["-depth", "600", "-seed", str(seed * 7919 + k)])
                if "Finished in" not in r["out"]:
                    broken.append("TLC simulation %s failed: %s" % (tag, r["out"][-800:]))
                    continue
                for j, sc in enumerate(sim_scripts(simdir, name_of, hook_of)):
                    scen.append(dict(base, policy="script", seed=seed * 1000 + j, script=sc))
            scen += C["scenarios"](quick, seed)
        nshard = min(vlib.NCPU, max(1, len(scen) // 10))
        shards = [scen[i::nshard] for i in range(nshard)]

        def one(i, part):
            inp = os.path.join(work, "in_%d.json" % i)
            outp = os.path.join(work, "out_%d.ndjson" % i)
            devp = os.path.join(work, "dev_%d.json" % i)
            with open(inp, "w") as f:
                json.dump(part, f)
            rc, out = vlib.run_test_binary(binary, C["test"], {"VERIF_IN": inp, "VERIF_OUT": outp}, timeout=1500)
            if rc != 0:
                raise vlib.Broken("%s driver failed:\n%s" % (C["test"], out[-3000:]))
            r = vlib.run_tlc(work, C["judge"], os.path.join(vlib.SPEC, C["judge"] + ".cfg"), workers=1, timeout=900, heap="3g",
                             env_extra={"VERIF_TRACE": outp, "VERIF_DEVOUT": devp})
            if not vlib.tlc_ok(r) or not os.path.exists(devp):
                raise vlib.Broken("%s did not complete:\n%s" % (C["judge"], r["out"][-2500:]))
            with open(devp) as f:
                d = json.load(f)
            with open(outp) as f:
                recs = [json.loads(x) for x in f]
            return part, recs, d

        nscript = nsteps = drift = 0
        results = [fu.result() for fu in [ex.submit(one, i, p) for i, p in enumerate(shards)]]
        # second wave: truly parallel storms get the machine almost to themselves (few processes, after the first wave)
        wave2 = [] if (replay or os.environ.get("VERIF_NO_STORMS") == "1") else C.get("scenarios_wave2", lambda q, sd: [])(quick, seed)
        if wave2:
            n2 = C.get("wave2_shards", 4)
            results += [fu.result() for fu in [ex.submit(one, 1000 + i, wave2[i::n2]) for i in range(n2)]]
        for part, recs, d in results:
            cov["traces_validated_against_impl"] += d["n"]
            for sc, r in zip(part, recs):
                if sc.get("policy") == "script":
                    nscript += 1
                    nsteps += len(sc.get("script", []))
                    drift += r.get("drift", 0)
            if recs and len(cov["samples"]) < 2:
                cov["samples"].append({k: v for k, v in recs[0].items() if k not in ("log",)})
            seen = set()
            for x in d["devs"]:
                cov["predicates_failed"][x["pred"]] = cov["predicates_failed"].get(x["pred"], 0) + 1
                if not x["pred"].startswith(prop + "."):
                    continue
                sc = part[x["rec"] - 1]
                fd = vlib.match_finding(findings, prop, {"pred": x["pred"]})
                if fd:
                    known.append((fd, x))
                    continue
                if x["rec"] in seen:
                    continue
                seen.add(x["rec"])
                path = vlib.save_replay(prop, "%s-%s-%d" % (C["pkg"], sc.get("policy", "x"), sc.get("seed", 0)), [sc])
                violations.append((x, sc, path))
        cov["schedules"] = {"from_tlc_behaviours": nscript, "script_steps": nsteps, "script_steps_not_followed": drift}
        if nscript and nsteps and drift >= nsteps:
            broken.append("no model-derived schedule step could be followed on the real code: the mechanism spec is out of date")
        for fu in mc_futs:
            r = fu.result()
            cov["mc"].append({"instance": r["tag"], "distinct": r["distinct"], "generated": r["generated"], "wall_s": round(r["wall"], 1)})
            cov["states"] += r["distinct"]
            cov["transitions"] += r["generated"]
            if not vlib.tlc_ok(r):
                broken.append("%s model check %s: %s" % (C["mc_module"], r["tag"], r["out"][-1500:]))
        ex.shutdown()
    if not cov["samples"]:
        cov["samples"] = [{"note": "replay"}]
    if prop == "C17" and not replay and not broken:
        # cache level: the read buffer is drained only by the holder of the eviction mutex; InvalidateAll and maintenance
        # running side by side while reads are recorded must leave nothing behind
        import wrcheck
        wcov, wviol, wbroken = wrcheck.run("C17", tier, None, collect_only=True)
        cov["cache_level_read_buffer_audits"] = wcov["traces_validated_against_impl"]
        cov["traces_validated_against_impl"] += wcov["traces_validated_against_impl"]
        broken += wbroken
        violations += wviol
    if prop == "C17" and not broken and (not replay or os.path.basename(replay).startswith("C17-drop-")):
        # "dropping reads never changes what any cache operation returns": one script, reads dropped vs every read recorded,
        # the clock moving inside the operations (DropHist.tla)
        dn, dviol, dbroken = drop_half(prop, tier, replay)
        cov["drop_differential_scripts"] = dn
        cov["traces_validated_against_impl"] += dn
        broken += dbroken
        violations += dviol
    if prop == "C17" and not replay and not broken:
        # directed: readers parked between reserving and publishing their slot, across InvalidateAll and a maintenance run (SweepHist.tla)
        import c13check
        rn, rviol, rbroken = c13check.read_race_half(prop, tier)
        cov["directed_read_buffer_scenarios"] = rn
        cov["traces_validated_against_impl"] += rn
        broken += rbroken
        for pred, detail, path in rviol:
            violations.append(({"pred": pred, "detail": str(detail)[:300]}, {}, path))
    if prop == "C16" and not replay and not broken:
        # cache level: when the write buffer is full the writer runs maintenance itself and its own event must still reach
        # the policies (afterWriteTask); small buffer + foreign mutex holder, audited by WRAudit.tla
        import wrcheck
        wcov, wviol, wbroken = wrcheck.run("C16", tier, None, collect_only=True)
        cov["cache_level_overflow_audits"] = wcov["traces_validated_against_impl"]
        cov["traces_validated_against_impl"] += wcov["traces_validated_against_impl"]
        broken += wbroken
        violations += wviol
    printed = set()
    for fd, x in known:
        if fd["id"] not in printed:
            printed.add(fd["id"])
            print("KNOWN-FINDING: property=%s %s (%s)" % (prop, fd["id"], fd["title"]))
    cov["explanation"] = C["explanation"]
    vlib.write_evidence(prop, tier, "model_checking", cov, time.time() - t0, violations=len(violations), assumptions=C["assumptions"])
    if broken:
        for b in broken:
            vlib.log("BROKEN:", b)
        if not violations:       # (what the working parts observed on the real code stands: a violation is reported even if another part broke)
            return 2
    if violations:
        for x, sc, path in violations[:10]:
            print("VIOLATION property=%s replay=%s" % (prop, path))
            vlib.log("  %s: %s" % (x["pred"], x["detail"][:400]))
        return 1
    return 0


def drop_half(prop, tier, replay=None):
    seed = vlib.seed()
    quick = tier == "quick"
    if replay:
        with open(replay) as f:
            scs = json.load(f)
    else:
        # lifetimes of a few read gaps, so that entries are mostly alive and now and then read close to their deadline
        scs = [{"seed": seed * 1000 + j, "nkeys": 2 + j % 4, "ttl": (2 + j % 4) * 2 * (1 + (j // 4) % 3), "delta": 2 + (j // 3) % 2, "nops": 600 if quick else 1500,
                "sized": j % 2} for j in range(24 if quick else 240)]
        for j, sc in enumerate(scs):
            if j % 2 == 0:
                sc["ttl"] = 18 * sc["delta"] - 1     # the scripts with the "seventeenth read" motif
    with vlib.scratch("verif-drop-") as work:
        obin = vlib.build_test_binary(work, "otter")
        inp, outp, dv = (os.path.join(work, x) for x in ("drop.in.json", "drop.out.ndjson", "drop.dev.json"))
        with open(inp, "w") as f:
            json.dump(scs, f)
        rc, out = vlib.run_test_binary(obin, "TestVerifDrop", {"VERIF_IN": inp, "VERIF_OUT": outp}, timeout=900)
        if rc != 0:
            return 0, [], ["drop-differential driver failed:\n" + out[-2000:]]
        t = vlib.run_tlc(work, "DropHist", os.path.join(vlib.SPEC, "DropHist.cfg"), workers=1, timeout=600, heap="3g",
                         env_extra={"VERIF_TRACE": outp, "VERIF_DEVOUT": dv})
        if not vlib.tlc_ok(t) or not os.path.exists(dv):
            return 0, [], ["DropHist did not complete:\n" + t["out"][-2500:]]
        with open(dv) as f:
            d = json.load(f)
    viol = []
    for x in d["devs"]:
        sc = scs[x["rec"] - 1]
        path = vlib.save_replay(prop, "drop-%d" % sc["seed"], [sc])
        viol.append((x, sc, path))
    return d["n"], viol, []


# ------------------------------------------------------------------ C16 MPSC

def _mpsc_cfg(producers, npush, initcap, maxcap, live=False):
    return ("SPECIFICATION Spec\nCONSTANTS\n Producers = {%s}\n NPush = %d\n InitCap = %d\n MaxCap = %d\n"
            "INVARIANTS NoDup Order OnlyAccepted Bounded RefusedOnlyWhenFull Complete\n%s" %
            (", ".join(map(str, range(1, producers + 1))), npush, initcap, maxcap, "PROPERTIES Terminates\n" if live else ""))


_MPSC_SILENT = {"pop_gotV", "pop_newBuf", "pop_ldNew", "slow_casLimit", "slow_casResize"}


def _mpsc_hook(label):
    if label in ("P0", "C0"):
        return "start"
    if label in _MPSC_SILENT:
        return None
    return label.replace("_", ".", 1)


def _mpsc_name(pid):
    return "c" if pid == 0 else "p%d" % pid


C16 = {
    "pkg": "queue", "test": "TestVerifMPSC", "mc_module": "MPSC", "judge": "MPSCHist",
    "mc_instances": lambda quick: ([("p2n2", _mpsc_cfg(2, 2, 2, 4)), ("p1n6", _mpsc_cfg(1, 6, 2, 4, True)), ("p2n2c4", _mpsc_cfg(2, 2, 4, 4))] if quick else
                                   [("p2n3", _mpsc_cfg(2, 3, 2, 4)), ("p3n1", _mpsc_cfg(3, 1, 2, 4)), ("p2n2_8", _mpsc_cfg(2, 2, 2, 8)), ("p2n3c4", _mpsc_cfg(2, 3, 4, 4)),
                                    ("p1n6", _mpsc_cfg(1, 6, 2, 4, True))]),
    "sim_instances": lambda quick: [
        ("s23", _mpsc_cfg(2, 3, 2, 4), 40 if quick else 400, {"producers": 2, "npush": 3, "initcap": 2, "maxcap": 4}, _mpsc_name, _mpsc_hook),
        ("s32", _mpsc_cfg(3, 2, 2, 4), 30 if quick else 300, {"producers": 3, "npush": 2, "initcap": 2, "maxcap": 4}, _mpsc_name, _mpsc_hook),
        ("s24", _mpsc_cfg(2, 4, 2, 8), 20 if quick else 200, {"producers": 2, "npush": 4, "initcap": 2, "maxcap": 8}, _mpsc_name, _mpsc_hook)],
    "scenarios": lambda quick, seed: (
        [{"producers": 1 + j % 4, "npush": 2 + j % 7, "initcap": [2, 2, 4, 2, 8][j % 5], "maxcap": [4, 8, 4, 16, 8][j % 5],
          "policy": "pct" if j % 2 else "random", "seed": seed * 100000 + j, "script": []} for j in range(60 if quick else 1500)] +
        [{"producers": 2 + j % 7, "npush": 50 + 37 * (j % 5), "initcap": [2, 4, 2, 16, 4][j % 5], "maxcap": [4, 64, 16, 16, 8][j % 5],
          "policy": "free", "seed": seed * 100000 + j, "script": [], "lazycons": [0, 30, 200][j % 3]} for j in range(40 if quick else 600)] +
        # "all initial/maximum capacity pairs": maxima that are not powers of two (the queue rounds them up), gate-scheduled, free-running
        # and as single-goroutine bursts that fill the queue to its bound after chunk switches with the consumer behind
        [{"producers": 1 + j % 3, "npush": 3 + j % 9, "initcap": [2, 3, 4, 5, 2][j % 5], "maxcap": [5, 6, 7, 12, 24][j % 5],
          "policy": "pct" if j % 2 else "random", "seed": seed * 100000 + 7000 + j, "script": []} for j in range(20 if quick else 400)] +
        [{"producers": 2 + j % 5, "npush": 40 + 29 * (j % 4), "initcap": [2, 3, 4, 5, 2][j % 5], "maxcap": [5, 6, 7, 12, 24][j % 5],
          "policy": "free", "seed": seed * 100000 + 8000 + j, "script": [], "lazycons": [0, 30, 200][j % 3]} for j in range(15 if quick else 300)] +
        [{"producers": 1, "npush": j % 7, "initcap": [2, 3, 4, 5, 2, 2, 4, 8][j % 8], "maxcap": [5, 6, 7, 12, 24, 4, 16, 8][j % 8],
          "policy": "bursts", "seed": seed * 100000 + 9000 + j, "script": []} for j in range(40 if quick else 800)]),
    "explanation": "states/transitions: TLC totals for MPSC.tla instances (NoDup, Order, Complete, Bounded, RefusedOnlyWhenFull); "
                   "traces_validated_against_impl: histories of the real queue judged by MPSCHist.tla",
    "assumptions": ["gate runs serialise goroutines at the per-access hook points of mpsc.go", "one consumer as the cache uses the queue",
                    "capacities 2..16 initial, 4..64 maximum, incl. maxima that are not powers of two (5, 6, 7, 12, 24)"],
}


def run_c16(prop, tier, replay=None):
    return run_component(prop, tier, replay, C16)


# ------------------------------------------------------------------ C17 lossy ring / striped

def _ring_cfg(adders, nadd, slots):
    return ("SPECIFICATION Spec\nCONSTANTS\n Adders = {%s}\n NAdd = %d\n Slots = %d\n NDrain = 1\n"
            "INVARIANTS NoDup OnlyRecorded Bounded Complete\n" % (", ".join(map(str, range(1, adders + 1))), nadd, slots))


def _ring_hook(label):
    if label in ("A0", "D0"):
        return "start"
    if label == "D1":
        return None
    return label.replace("_", ".")


def _ring_name(pid):
    return "c" if pid == 0 else "a%d" % pid


def _striped_cfg(adders, nadd, maxlen):
    return ("SPECIFICATION Spec\nCONSTANTS\n Adders = {%s}\n NAdd = %d\n MaxLen = %d\n Attempts = 3\n CopyAll = TRUE\n"
            "INVARIANTS RingsKept TableOK BusyFree SlotsStable\nCHECK_DEADLOCK FALSE\n" % (", ".join(map(str, range(1, adders + 1))), nadd, maxlen))


C17 = {
    "extra_mc": lambda quick: [("Striped", "striped_a2n2", _striped_cfg(2, 2, 4))] if quick else
                              [("Striped", "striped_a2n3", _striped_cfg(2, 3, 4)), ("Striped", "striped_a2n2m2", _striped_cfg(2, 2, 2))],
    "pkg": "lossy", "test": "TestVerifRing", "mc_module": "Ring", "judge": "RingHist",
    "mc_instances": lambda quick: ([("a2n2s2", _ring_cfg(2, 2, 2)), ("a2n3s4", _ring_cfg(2, 3, 4))] if quick else
                                   [("a3n2s2", _ring_cfg(3, 2, 2)), ("a2n3s4", _ring_cfg(2, 3, 4)), ("a2n4s2", _ring_cfg(2, 4, 2))]),
    "sim_instances": lambda quick: [
        ("s16a", _ring_cfg(2, 12, 16), 30 if quick else 300, {"level": "ring", "adders": 2, "nadd": 12, "maxlen": 1, "compact": 0}, _ring_name, _ring_hook),
        ("s16b", _ring_cfg(3, 8, 16), 30 if quick else 300, {"level": "ring", "adders": 3, "nadd": 8, "maxlen": 1, "compact": 0}, _ring_name, _ring_hook)],
    "scenarios": lambda quick, seed: (
        [{"level": "ring", "adders": 1 + j % 4, "nadd": 6 + 5 * (j % 5), "maxlen": 1, "policy": "pct" if j % 2 else "random",
          "seed": seed * 100000 + j, "script": [], "compact": 0} for j in range(40 if quick else 800)] +
        [{"level": "striped", "adders": 2 + j % 5, "nadd": 10 + 7 * (j % 4), "maxlen": [1, 2, 4, 8][j % 4], "policy": ["pct", "random", "free", "free"][j % 4],
          "seed": seed * 100000 + 50000 + j, "script": [], "compact": 0} for j in range(60 if quick else 1200)] +
        # stripe storms: truly parallel recorders on a fresh buffer (no yield hook: it would serialise them), so that
        # several of them meet at the creation of one stripe right after an expansion
        []),
    # stripe storms: truly parallel recorders on a fresh buffer (no yield hook: it would serialise them), so that
    # several of them meet at the creation of one stripe right after an expansion
    "scenarios_wave2": lambda quick, seed: [
        {"level": "striped", "adders": 32, "nadd": 64, "maxlen": [64, 16, 64, 8][j % 4], "policy": "raw", "compact": 1,
         "seed": seed * 100000 + 70000 + j, "script": []} for j in range(16000 if quick else 160000)],
    "wave2_shards": 4,
    "explanation": "states/transitions: TLC totals for Ring.tla instances (NoDup, OnlyRecorded, Bounded, Complete); "
                   "traces_validated_against_impl: histories of the real ring / striped buffer judged by RingHist.tla",
    "assumptions": ["the model ring has 2-4 slots for exhaustive checking and 16 (as the code) for schedule generation",
                    "stripe creation and table expansion are exercised on the real Striped buffer only (gate-scheduled and free running)",
                    "one draining consumer, as under the eviction mutex"],
}


def run_c17(prop, tier, replay=None):
    return run_component(prop, tier, replay, C17)
