#!/bin/sh
# usage: try_patch.sh <python-edit-script> <prop> [tier]  -- applies an ad-hoc edit in a scratch worktree and runs a check against it
set -e
WT=/tmp/wt-try-$$
git -C /repo worktree add -q $WT HEAD
trap "git -C /repo worktree remove --force $WT" EXIT
(cd $WT && python3 "$1")
(cd $WT && GOFLAGS=-mod=mod GOPROXY=off go build ./... )
cd /verif && VERIF_REPO=$WT bin/check "$2" "${3:-quick}"; echo "exit=$?"
