"""Sequential family: Cache.tla / CacheMC.tla (design step) + CacheTrace.tla fold over traces recorded from
the real cache (binding B1).  Decides C01 C03 C07 C10 C11 C12 C19 C20 (and the sequential parts of others)."""
import concurrent.futures as cf
import json
import os
import re
import shutil
import time

import vlib

ITER_OPS = {"All", "Keys", "Values", "Hottest", "Coldest"}
LOAD_OPS = {"Get", "BulkGet"}
REFRESH_OPS = {"Refresh", "BulkRefresh"}


def props_of(d):
    """Which properties a deviation of the fold decides (C01 = conformance owns every deviation)."""
    op, pre, f = d["op"], d["pre"], d["field"]
    anydead = d.get("anydead", 0) == 1
    cfg = d.get("cfg", ["", "", ""])
    P = {"C01"}
    c03_fields = ("ok", "val", "err", "res", "ents", "rrs", "cbs", "loads", "num", "proj.p", "proj.v", "proj.exp", "saveload.loaded-entry")
    if (pre == "dead" and f in c03_fields) or \
            (anydead and (op in ITER_OPS or op in ("InvalidateAll", "SaveLoad", "BulkGet", "BulkRefresh"))
             and f in ("res", "ents", "rrs", "proj.p", "saveload.loaded-entry")):
        P.add("C03")
    if f.startswith("ev.unjustified.Overflow") or f.startswith("ev.unjustified.Expiration") or f == "bound":
        P.add("C07")
    if f == "bound" or (f.startswith("ev.unjustified.Overflow") and "w |-> 0," in str(d.get("got", ""))):
        # the bound after maintenance; a zero-weight (pinned) entry removed for size
        P.add("C04")
    if f in ("ev.missing", "ev.async") or f.startswith("ev.unjustified"):
        P.add("C06")
    if f == "est" or (f == "num" and op in ("EstimatedSize", "WeightedSize")) or (f == "ents" and op in ITER_OPS and not anydead):
        # derived views at quiescence: EstimatedSize, WeightedSize, iteration / Hottest / Coldest enumerate the entries present
        P.add("C05")
    if op in LOAD_OPS and (f in ("ok", "val", "err", "res", "loads", "panic", "est") or f.startswith("proj") or f.startswith("ev.")):
        P.add("C10")
    if op in REFRESH_OPS and (f in ("est", "loads", "rrs") or f.startswith("proj") or f.startswith("ev.")):
        # load outcomes of reloads: what a successful / failed / not-found (bulk) reload does to the cache
        P.add("C10")
    if f in ("hang", "inflight"):
        P.add("C08")
        if op in LOAD_OPS:
            P.add("C10")
    if op in REFRESH_OPS or (op in LOAD_OPS and (pre == "stale" or f == "loads")) or f == "proj.ref":
        P.add("C11")
    if f in ("proj.exp", "proj.ref", "num") or (f == "ents" and op in ("GetEntry", "GetEntryQuietly")) or \
            (f == "proj.p" and cfg[1] != "none"):
        P.add("C12")
    if f == "proj.exp":
        # a stored deadline that differs from the due one: earlier -> the entry will be removed for Expiration before its
        # deadline has passed (C07); later / never -> it stays observable after its deadline (C03)
        import re as _re
        mw, mg = _re.search(r"exp \|-> (-?\d+)", str(d.get("want", ""))), _re.search(r"exp \|-> (-?\d+)", str(d.get("got", "")))
        if mw and mg:
            w, g = int(mw.group(1)), int(mg.group(1))
            if (g >= 0 or g == -2) and (w == -1 or g < w):      # -2: a deadline that wrapped into the past
                P.add("C07")
            if w >= 0 and (g == -1 or g > w):
                P.add("C03")
    if f.startswith("sweep") or (f in ("ev.missing", "ev.async") and "Expiration" in (str(d.get("want", "")) + str(d.get("got", "")))):
        # swept late, or the Expiration event of a removed entry not delivered (to one of the two handlers)
        P.add("C13")
    # ---- generous ownership: the same visible deviation is usually a violation of several statements; a check must not
    # stay quiet because a neighbouring property "owns" the field (on the unchanged tree there are no deviations at all)
    hasexp = len(cfg) > 1 and cfg[1] not in ("none", "")
    if pre == "dead" or (anydead and f in ("res", "ents", "rrs", "proj.p", "est", "num")):
        P.add("C03")          # anything an expired-but-unswept entry makes an operation do differently
        if hasexp:
            P.add("C12")      # "visible exactly while the clock is before its expiration time"
    if f == "proj.p" or f == "est":
        P.add("C07")          # an entry present / absent without the model knowing a sanctioned reason
    if op in LOAD_OPS or op in REFRESH_OPS:
        P.add("C10")          # every observable consequence of a load outcome
    if (op in LOAD_OPS and pre in ("stale", "dead")) or f.startswith("proj.ref"):
        P.add("C11")
    if hasexp and op in ("CleanUp", "Advance") and f in ("est", "proj.p", "ev.missing", "ev.async"):
        P.add("C13")          # physically removed and reported when maintenance runs after the deadline
    if f.startswith("ev.") and op in ("SetMaximum",):
        P.add("C04")
    if f.startswith("sweep"):
        P.add("C05")          # an entry that expired long ago is still tracked (counted by EstimatedSize, not yielded by iteration) after maintenance
    if f.startswith("saveload"):
        P.add("C19")
    if f.startswith("st."):
        P.add("C20")
    return P


# property -> (profiles, MC configurations)
PLAN = {
    "C01": (["mix", "mix", "expiry", "size", "load", "deadline", "persist", "stats"],
            ["Cfg_plain", "Cfg_writing", "Cfg_count", "Cfg_weightAll"]),
    "C03": (["expiry"], ["Cfg_creating", "Cfg_writing", "Cfg_accessing", "Cfg_custom", "Cfg_countExp"]),
    "C04": (["size", "size", "size", "mix"], ["Cfg_count", "Cfg_weight", "Cfg_weightAll"]),
    "C05": (["size", "mix", "expiry", "sweep"], ["Cfg_count", "Cfg_weightAll"]),
    "C06": (["expiry", "mix", "size", "load", "sweep"], ["Cfg_writing", "Cfg_countExp", "Cfg_weightAll"]),
    "C07": (["size", "size", "sweep", "mix", "deadline"], ["Cfg_count", "Cfg_countExp", "Cfg_weight", "Cfg_weightAll"]),
    "C08": (["load", "load"], ["Cfg_plain", "Cfg_refresh"]),
    "C10": (["load", "load", "stats"], ["Cfg_plain", "Cfg_writing", "Cfg_refresh", "Cfg_count"]),
    "C11": (["load", "deadline"], ["Cfg_refresh", "Cfg_refreshC", "Cfg_refreshX", "Cfg_weightAll"]),
    "C12": (["deadline", "deadline", "expiry", "mix"], ["Cfg_creating", "Cfg_writing", "Cfg_accessing", "Cfg_custom", "Cfg_refreshX"]),
    "C19": (["persist"], ["Cfg_writing", "Cfg_weight"]),
    "C20": (["stats", "stats", "load", "mix"], ["Cfg_plain", "Cfg_count", "Cfg_refresh", "Cfg_weightAll"]),
}

MC_PROPS = ("C03_AsAbsent C03_SweepIndependent C03_NoResurrection C03_ClockOnlyKills C06_Causes C07_Justified C10_Get C10_BulkGet "
            "C11_ServeOld C11_RefreshChannel C12_Creating C12_Writing C12_Accessing C12_Override C20_Lookups")


def mc_cfg_text(cfgname, maxnow=3):
    return ("SPECIFICATION Spec\nCONSTANTS\n  Cfg <- %s\n  MaxNow = %d\nVIEW View\nINVARIANTS TypeOK C12_Visible\n"
            "PROPERTIES %s\nCHECK_DEADLOCK FALSE\n" % (cfgname, maxnow, MC_PROPS))


def run_mc(work, cfgname, workers, maxnow=3, timeout=900):
    path = os.path.join(work, "mc_%s.cfg" % cfgname)
    with open(path, "w") as f:
        f.write(mc_cfg_text(cfgname, maxnow))
    res = vlib.run_tlc(work, "CacheMC", path, workers=workers, timeout=timeout, heap="4g")
    res["cfg"] = cfgname
    return res


SIM_RE = re.compile(r'^<<"STEP", (\d+), "(.*)", "(.*)">>$')


def b3_scripts(work, cfgname, num, depth, sd):
    """Binding B3: behaviours of CacheMC (TLC -simulate) turned into operation scripts for the sequential driver."""
    path = os.path.join(work, "mcsim_%s.cfg" % cfgname)
    with open(path, "w") as f:
        f.write("SPECIFICATION Spec\nCONSTANTS\n  Cfg <- %s\n  MaxNow = 6\nACTION_CONSTRAINT SimLog\nCHECK_DEADLOCK FALSE\n" % cfgname)
    r = vlib.run_tlc(work, "CacheMC", path, workers=1, timeout=600, heap="2g", simulate="num=%d" % num,
                     extra=["-depth", str(depth), "-seed", str(sd)])
    scripts, cur, last_level, cfg = [], None, 10 ** 9, None
    for line in r["out"].split("\n"):
        m = SIM_RE.match(line.strip())
        if not m:
            continue
        level = int(m.group(1))
        a = json.loads(m.group(2).replace('\\"', '"'))
        cfg = json.loads(m.group(3).replace('\\"', '"'))
        if level <= last_level:
            cur = {"cfg": cfg, "ops": []}
            scripts.append(cur)
        last_level = level
        if a["op"] in ("auto", ""):
            continue
        a["v"] = a["v"] + 4 * len(cur["ops"]) if a["v"] else 0     # distinguishable values, same table residues mod 4 only by chance
        cur["ops"].append(a)
    for sc in scripts:
        sc["cfg"]["scale"] = [1, 1 << 20, 1 << 30][len(sc["ops"]) % 3]
        sc["cfg"]["t0"] = 1
    return [sc for sc in scripts if sc["ops"]]


def validate_trace(work, trace, idx):
    """Fold one NDJSON trace through CacheTrace.tla. Returns (n_events, deviations)."""
    devout = os.path.join(work, "dev_%d.json" % idx)
    cfg = os.path.join(vlib.SPEC, "CacheTrace.cfg")
    res = vlib.run_tlc(work, "CacheTrace", cfg, workers=1, timeout=1200, heap="3g",
                       env_extra={"VERIF_TRACE": trace, "VERIF_DEVOUT": devout})
    if not vlib.tlc_ok(res) or not os.path.exists(devout):
        raise vlib.Broken("trace validation did not complete for %s:\n%s" % (trace, res["out"][-3000:]))
    with open(devout) as f:
        d = json.load(f)
    return d["n"], d["devs"], res


def script_of_line(trace_lines, line):
    """index (within the trace file) of the script that produced 1-based trace line `line`, and the op index"""
    idx = -1
    for i in range(line):
        if trace_lines[i].startswith('{"t":"hdr"'):
            idx += 1
    return idx


def run(prop, tier, replay=None):
    t0 = time.time()
    seed = vlib.seed()
    profiles, mcs = PLAN[prop]
    findings = vlib.load_findings()
    quick = tier == "quick"
    nscripts, length = (12, 150) if quick else (60, 300)
    rounds = 1 if quick else 6
    njobs = 8 if quick else 16
    profiles = [profiles[i % len(profiles)] for i in range(max(njobs, len(profiles)))]
    violations, known, broken = [], [], []
    cov = {"states": 0, "transitions": 0, "traces_validated_against_impl": 0, "events_validated": 0,
           "mc_configs": [], "profiles": [], "deviations_total": 0, "samples": []}
    with vlib.scratch("verif-seq-") as work:
        binary = vlib.build_test_binary(work, "otter")
        ex = cf.ThreadPoolExecutor(max_workers=vlib.NCPU)
        # design step
        big = {"Cfg_weightAll": 1, "Cfg_refreshX": 2, "Cfg_refreshC": 2}     # quick clock bound of the large instances
        mc_futs = [ex.submit(run_mc, work, c, 8 if c in big else 2, (big.get(c, 3) if quick else 4), 3000)
                   for c in mcs] if not replay else []
        # conformance step
        jobs = []
        if replay:
            jobs.append(("replay", 0, replay))
        else:
            # B3: spec-derived operation sequences (behaviours of the bounded model) replayed on the real cache
            for bi, c in enumerate(mcs[:2] if quick else mcs):
                scs = b3_scripts(work, c, 40 if quick else 300, 30, seed * 31 + bi)
                if scs:
                    p3 = os.path.join(work, "b3_%s.json" % c)
                    with open(p3, "w") as f:
                        json.dump(scs, f)
                    jobs.append(("b3:" + c, seed * 31 + bi, p3))
            for rnd in range(rounds):
                for i, prof in enumerate(profiles):
                    jobs.append((prof, seed * 100003 + rnd * 1009 + i, None))

        def one(job_idx, job):
            prof, sd, rp = job
            trace = os.path.join(work, "trace_%d.ndjson" % job_idx)
            scripts = os.path.join(work, "scripts_%d.json" % job_idx)
            env = {"VERIF_OUT": trace, "VERIF_SCRIPTS_OUT": scripts}
            if rp:
                env["VERIF_IN"] = rp
                shutil.copy(rp, scripts)
            else:
                env.update({"VERIF_SEED": sd, "VERIF_N": nscripts, "VERIF_LEN": length, "VERIF_PROFILE": prof})
            rc, out = vlib.run_test_binary(binary, "TestVerifSeq", env, timeout=900)
            if rc != 0:
                raise vlib.Broken("sequential driver failed (%s seed %s):\n%s" % (prof, sd, out[-3000:]))
            n, devs, _ = validate_trace(work, trace, job_idx)
            return job, trace, scripts, n, devs

        futs = [ex.submit(one, i, j) for i, j in enumerate(jobs)]
        for fu in futs:
            job, trace, scripts, n, devs = fu.result()
            with open(trace) as f:
                lines = f.readlines()
            nscr = sum(1 for ln in lines if ln.startswith('{"t":"hdr"'))
            cov["traces_validated_against_impl"] += nscr
            cov["events_validated"] += n
            cov["profiles"].append({"profile": job[0], "seed": job[1], "scripts": nscr, "events": n, "deviations": len(devs)})
            cov["deviations_total"] += len(devs)
            if len(cov["samples"]) < 3 and len(lines) > 3:
                e = json.loads(lines[2])
                cov["samples"].append({"trace_record": {k: e[k] for k in ("a", "ok", "val", "err", "ev", "st", "now", "est")},
                                       "profile": job[0]})
            with open(scripts) as f:
                all_scripts = json.load(f)
            seen = set()
            for d in devs:
                if prop not in props_of(d):
                    continue
                sig = {k: d.get(k) for k in ("op", "pre", "field", "shape", "ld")}
                fd = vlib.match_finding(findings, prop, sig)
                if fd:
                    known.append((fd, d))
                    continue
                si = script_of_line(lines, d["line"])
                key = (job[1], si)
                if key in seen:
                    continue
                seen.add(key)
                name = "%s-%s-%d" % (job[0], job[1], si)
                path = vlib.save_replay(prop, name, [all_scripts[si]] if 0 <= si < len(all_scripts) else all_scripts)
                violations.append((d, path))
        for fu in mc_futs:
            r = fu.result()
            cov["mc_configs"].append({"cfg": r["cfg"], "distinct": r["distinct"], "generated": r["generated"],
                                      "wall_s": round(r["wall"], 1)})
            cov["states"] += r["distinct"]
            cov["transitions"] += r["generated"]
            if not vlib.tlc_ok(r):
                broken.append("CacheMC %s: %s" % (r["cfg"], r["out"][-1500:]))
        ex.shutdown()
    return finish(prop, tier, t0, cov, violations, known, broken)


def save_pending_half(prop, tier, replay_scen=None):
    seed = vlib.seed()
    n = 40 if tier == "quick" else 400
    scs = replay_scen or [{"n": 3 + (j * 7 + seed) % 12, "max": 16 + j % 5, "runfirst": j % 4, "rewrite": (j // 4) % 3, "ttl": 100 + j % 50, "seed": seed * 1000 + j}
                          for j in range(n)]
    with vlib.scratch("verif-save-") as work:
        obin = vlib.build_test_binary(work, "otter")
        inp, outp, dv = (os.path.join(work, x) for x in ("save.in.json", "save.out.ndjson", "save.dev.json"))
        with open(inp, "w") as f:
            json.dump(scs, f)
        rc, out = vlib.run_test_binary(obin, "TestVerifSave", {"VERIF_IN": inp, "VERIF_OUT": outp}, timeout=600)
        if rc != 0:
            return 0, [], ["save driver failed:\n" + out[-2000:]]
        t = vlib.run_tlc(work, "SaveHist", os.path.join(vlib.SPEC, "SaveHist.cfg"), workers=1, timeout=600, heap="2g",
                         env_extra={"VERIF_TRACE": outp, "VERIF_DEVOUT": dv})
        if not vlib.tlc_ok(t) or not os.path.exists(dv):
            return 0, [], ["SaveHist did not complete:\n" + t["out"][-2500:]]
        with open(dv) as f:
            d = json.load(f)
    viol = []
    for x in d["devs"]:
        sc = scs[x["rec"] - 1]
        viol.append((x["pred"], x["detail"], vlib.save_replay(prop, "savepending-%d" % sc["seed"], [sc])))
    return d["n"], viol, []


def finish(prop, tier, t0, cov, violations, known, broken):
    if prop in ("C04", "C05", "C06") and not broken:
        # concurrent half of C06: gate-scheduled writers audited by WRAudit.tla (conservation, exactly once, order)
        import wrcheck
        wcov, wviol, wbroken = wrcheck.run(prop, tier, None, collect_only=True)
        cov["concurrent_audits"] = wcov["traces_validated_against_impl"]
        cov["traces_validated_against_impl"] += wcov["traces_validated_against_impl"]
        cov["states"] += wcov["states"]
        cov["transitions"] += wcov["transitions"]
        cov["mc_configs"] += wcov["mc"]
        broken += wbroken
        for x, sc, path in wviol:
            violations.append(({"op": "concurrent", "pre": "", "field": x["pred"], "want": "", "got": x["detail"], "cfg": sc.get("size")}, path))
    if prop == "C07" and not broken:
        # the Expiration half of C07 at the level of the timer wheel: the exact fold of the real wheel (real geometry,
        # jumps across levels and revolutions) must never fire a timer whose deadline has not passed
        import c13check
        wev, wtr, wviol, wbroken = c13check.wheel_fired_early(prop, tier)
        cov["wheel_events"] = wev
        cov["traces_validated_against_impl"] += wtr
        broken += wbroken
        for pred, detail, path in wviol:
            violations.append(({"op": "wheel", "pre": "", "field": pred, "want": "", "got": str(detail)[:300], "cfg": None}, path))
        # concurrent form of "a cache that never exceeds its maximum loses nothing to size eviction"
        import wrcheck
        ccov, cviol, cbroken = wrcheck.run("C07", tier, None, collect_only=True)
        cov["concurrent_audits"] = ccov["traces_validated_against_impl"]
        cov["traces_validated_against_impl"] += ccov["traces_validated_against_impl"]
        broken += cbroken
        for x, sc, path in cviol:
            violations.append(({"op": "concurrent", "pre": "", "field": x["pred"], "want": "", "got": x["detail"], "cfg": sc.get("size")}, path))
    if prop in ("C01", "C03", "C12", "C20") and not broken:
        # iterations whose consumer moves the clock, replaces values and invalidates keys between two yields (IterHist.tla, CheckBody)
        import itercheck
        with vlib.scratch("verif-itb-") as iwork:
            n, iviol, ibroken = itercheck.run(prop, tier, iwork)
        cov["loop_body_iterations"] = n
        cov["traces_validated_against_impl"] += n
        broken += ibroken
        for pred, detail, path in iviol:
            violations.append(({"op": "iteration", "pre": "", "field": pred, "want": "", "got": str(detail)[:300], "cfg": None}, path))
    if prop == "C04" and not broken:
        # a read that extends the deadline races the expiration sweep; the sized cache is filled right afterwards (SweepHist.tla)
        import c13check
        rn, rviol, rbroken = c13check.read_race_half(prop, tier)
        cov["read_race_scenarios"] = rn
        cov["traces_validated_against_impl"] += rn
        broken += rbroken
        for pred, detail, path in rviol:
            violations.append(({"op": "readrace", "pre": "", "field": pred, "want": "", "got": str(detail)[:300], "cfg": None}, path))
    if prop in ("C19", "C20") and not broken:
        # directed scenarios judged by SweepHist.tla: C19 - never-deadlines across save / load with a clock that moves between any two readings;
        # C20 - a Compute over an expired entry whose deadline a reader extends right after the computation is a miss
        import c13check
        rn, rviol, rbroken = c13check.read_race_half(prop, tier)
        cov["directed_scenarios"] = rn
        cov["traces_validated_against_impl"] += rn
        broken += rbroken
        for pred, detail, path in rviol:
            violations.append(({"op": "readrace", "pre": "", "field": pred, "want": "", "got": str(detail)[:300], "cfg": None}, path))
    if prop == "C08" and not broken:
        # the policies evict a stale node of the key while a load is in flight (directed scenario, SweepHist.tla)
        import c13check
        rn, rviol, rbroken = c13check.read_race_half(prop, tier)
        cov["stale_eviction_scenarios"] = rn
        cov["traces_validated_against_impl"] += rn
        broken += rbroken
        for pred, detail, path in rviol:
            violations.append(({"op": "readrace", "pre": "", "field": pred, "want": "", "got": str(detail)[:300], "cfg": None}, path))
    if prop == "C20" and not broken:
        # load statistics under shared flights: loads recorded = loader invocations (LoadHist.tla over gate-scheduled histories)
        import loadcheck
        lcov, lviol, lbroken = loadcheck.run("C20", tier, None, collect_only=True)
        cov["load_histories"] = lcov["traces_validated_against_impl"]
        cov["traces_validated_against_impl"] += lcov["traces_validated_against_impl"]
        broken += lbroken
        for x, sc, path in lviol:
            violations.append(({"op": "concurrent", "pre": "", "field": x["pred"], "want": "", "got": str(x["detail"])[:300], "cfg": None}, path))
    if prop == "C05" and not broken:
        # a write finds the entry expired while a reader extends the deadline of the node being replaced (SweepHist.tla)
        import c13check
        rn, rviol, rbroken = c13check.read_race_half(prop, tier)
        cov["write_over_expired_race_scenarios"] = rn
        cov["traces_validated_against_impl"] += rn
        broken += rbroken
        for pred, detail, path in rviol:
            violations.append(({"op": "readrace", "pre": "", "field": pred, "want": "", "got": str(detail)[:300], "cfg": None}, path))
    if prop == "C06" and not broken:
        # the expiration sweep races a read that extends the deadline, the sweeper parked between the wheel's test and the removal
        # (ExpireRace.tla model-checked; its counterexample as a gated schedule on the real cache, judged by SweepHist.tla)
        import c13check
        mcs = []
        rn, rviol, rbroken = c13check.read_race_half(prop, tier, mc_out=mcs)
        cov["gated_read_race_scenarios"] = rn
        cov["traces_validated_against_impl"] += rn
        cov["expire_race_mc"] = mcs
        cov["states"] += sum(m["distinct"] for m in mcs)
        cov["transitions"] += sum(m["generated"] for m in mcs)
        broken += rbroken
        for pred, detail, path in rviol:
            violations.append(({"op": "readrace", "pre": "", "field": pred, "want": "", "got": str(detail)[:300], "cfg": None}, path))
    if prop == "C19" and not broken:
        # saving while drain tasks handed to the executor are still pending (SaveHist.tla)
        sn, sviol, sbroken = save_pending_half(prop, tier)
        cov["save_with_pending_maintenance"] = sn
        cov["traces_validated_against_impl"] += sn
        broken += sbroken
        for pred, detail, path in sviol:
            violations.append(({"op": "save", "pre": "", "field": pred, "want": "", "got": str(detail)[:300], "cfg": None}, path))
    if prop in ("C04", "C05", "C07") and not broken:
        # the eviction policy object itself: every call on the real policy replayed on Policy.tla (pointer-level model of
        # policy.go / linked.go, incl. the hill climber and tasks applied out of order), judged by PolicyTrace.tla
        import polcheck
        pcov, pviol, pbroken = polcheck.run(prop, tier, None, collect_only=True)
        cov["policy_events"] = pcov["events"]
        cov["policy_drift"] = pcov["drift"]
        cov["traces_validated_against_impl"] += pcov["traces_validated_against_impl"]
        cov["states"] += pcov["states"]
        cov["transitions"] += pcov["transitions"]
        cov["mc_configs"] += pcov["mc"]
        broken += pbroken
        for pred, detail, path in pviol:
            violations.append(({"op": "policy", "pre": "", "field": pred, "want": "", "got": str(detail)[:300], "cfg": None}, path))
    if prop == "C08" and not broken:
        # concurrent half of C08 (the larger one): gate-scheduled loads racing writes, judged by LoadHist.tla
        import loadcheck
        lcov, lviol, lbroken = loadcheck.run("C08", tier, None, collect_only=True)
        cov["concurrent_histories"] = lcov["traces_validated_against_impl"]
        cov["traces_validated_against_impl"] += lcov["traces_validated_against_impl"]
        cov["states"] += lcov["states"]
        cov["transitions"] += lcov["transitions"]
        cov["mc_configs"] += lcov["mc"]
        cov["switches_that_must_violate"] = lcov.get("switches_that_must_violate", [])
        broken += lbroken
        for x, sc, path in lviol:
            violations.append(({"op": "concurrent", "pre": "", "field": x["pred"], "want": "", "got": x["detail"], "cfg": None}, path))
    if prop == "C10" and not broken:
        # concurrent half of C10: shared flights of Get / BulkGet with every loader outcome, judged by LoadHist.tla
        import loadcheck
        lcov, lviol, lbroken = loadcheck.run("C10", tier, None, collect_only=True)
        cov["concurrent_histories"] = lcov["traces_validated_against_impl"]
        cov["traces_validated_against_impl"] += lcov["traces_validated_against_impl"]
        broken += lbroken
        for x, sc, path in lviol:
            violations.append(({"op": "concurrent", "pre": "", "field": x["pred"], "want": "", "got": x["detail"], "cfg": None}, path))
    if prop == "C11" and not broken:
        # asynchronous-executor half of C11: gate-scheduled refreshes / reloads judged by LoadHist.tla
        import loadcheck
        lcov, lviol, lbroken = loadcheck.run("C11", tier, None, collect_only=True)
        cov["concurrent_histories"] = lcov["traces_validated_against_impl"]
        cov["traces_validated_against_impl"] += lcov["traces_validated_against_impl"]
        cov["states"] += lcov["states"]
        cov["transitions"] += lcov["transitions"]
        cov["mc_configs"] += lcov["mc"]
        broken += lbroken
        for x, sc, path in lviol:
            violations.append(({"op": "concurrent", "pre": "", "field": x["pred"], "want": "", "got": x["detail"], "cfg": None}, path))
    if prop == "C20" and not broken:
        # concurrent form of C20: tallies of gate-scheduled / free-running histories judged by StatsHist.tla
        import c02check
        ccov, cviol = c02check.run("C20", tier, None)
        cov["concurrent_histories"] = ccov["traces_validated_against_impl"]
        cov["traces_validated_against_impl"] += ccov["traces_validated_against_impl"]
        for pred, detail, path in cviol:
            violations.append(({"op": "concurrent", "pre": "", "field": pred, "want": "", "got": str(detail), "cfg": None}, path))
    for fd, d in known[:1] if known else []:
        pass
    printed = set()
    for fd, d in known:
        if fd["id"] in printed:
            continue
        printed.add(fd["id"])
        print("KNOWN-FINDING: property=%s %s (%s; e.g. op=%s field=%s)" % (prop, fd["id"], fd["title"], d["op"], d["field"]))
    cov["known_finding_hits"] = len(known)
    cov["rule"] = ("scripts are generated from seeded profiles (all 12 node layouts, 4 time scales) and executed on the real cache; "
                   "every operation record is folded through Cache!Step; a trace is non-trivial when it has >= 1 operation")
    cov["exhaustive"] = False
    cov["explanation"] = ("states/transitions: TLC totals over the CacheMC configurations listed in mc_configs (exhaustive for those "
                          "bounded instances); traces_validated_against_impl: scripts run on the real code and folded through CacheTrace.tla")
    if not cov["samples"]:
        cov["samples"] = [{"note": "no trace lines sampled"}]
    vlib.write_evidence(prop, tier, "model_checking", cov, time.time() - t0, violations=len(violations),
                        assumptions=["TLC 32-bit integers: times logged in units of the run's scale, INF/BAD classes",
                                     "same-goroutine executor, manual clock whose Tick channel never fires",
                                     "automatic removals are policed (must be justified), not predicted"])
    if broken:
        for b in broken:
            vlib.log("BROKEN:", b)
        if not violations:       # (what the working parts observed on the real code stands: a violation is reported even if another part broke)
            return 2
    if violations:
        for d, path in violations[:20]:
            print("VIOLATION property=%s replay=%s" % (prop, path))
            vlib.log("  deviation: op=%s pre=%s field=%s want=%s got=%s cfg=%s" %
                     (d["op"], d["pre"], d["field"], d["want"][:200], d["got"][:200], d.get("cfg")))
        return 1
    return 0
