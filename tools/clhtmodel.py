"""Instances of spec/CLHT.tla (per-access model of the table) for the C15 check."""
import os

import vlib


def cfg(prog, gprog, maxtables=3, recheck=True, clearers="{}", clear_retries=True):
    return ("SPECIFICATION Spec\nCONSTANTS\n Keys = {1, 2, 3}\n S = 2\n H2 <- H2_c\n B2 <- B2_c\n Writers = {11, 12}\n Prog <- %s\n"
            " Getters = {21}\n GProg <- %s\n Resizers = {31}\n MaxTables = %d\n Recheck = %s\n Clearers = %s\n ClearRetries = %s\n"
            "INVARIANTS GetOK ClearOK Agree SizeOK NoLockLeft MetaBeforePtr\nCHECK_DEADLOCK FALSE\n" %
            (prog, gprog, maxtables, "TRUE" if recheck else "FALSE", clearers, "TRUE" if clear_retries else "FALSE"))


def instances(quick):
    if quick:
        return [("clht_q", cfg("Prog_q", "GProg_q")), ("clht_a", cfg("Prog_a", "GProg_a")), ("clht_q_clear", cfg("Prog_q", "GProg_q", clearers="{41}"))]
    return [("clht_a", cfg("Prog_a", "GProg_a")), ("clht_b", cfg("Prog_b", "GProg_b")), ("clht_c", cfg("Prog_c", "GProg_a")),
            ("clht_a_clear", cfg("Prog_a", "GProg_a", clearers="{41}")), ("clht_b_clear", cfg("Prog_b", "GProg_b", clearers="{41}"))]


def run_mc(work, tag, text, workers):
    path = os.path.join(work, "%s.cfg" % tag)
    with open(path, "w") as f:
        f.write(text)
    r = vlib.run_tlc(work, "CLHTMC", path, workers=workers, timeout=3000, heap="10g")
    r["tag"] = tag
    return r
