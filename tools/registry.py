"""property id -> check function(prop, tier, replay) -> exit code, plus the MANIFEST metadata"""
import seqcheck
import draincheck
import wrcheck
import loadcheck
import compcheck
import c13check
import c18check
import c15check
import c02check

CHECKS = {}
META = {}
NOT_CLAIMED = {}
HOOK_COMMITS = []
ENGINES = [
    {"name": "seq-fold", "path": "tools/seqcheck.py", "serves_properties": sorted(seqcheck.PLAN),
     "kind_free_text": "TLC exhaustive check of spec/CacheMC.tla (declarative property formulas vs step functions) + "
                       "deterministic-fold trace validation (spec/CacheTrace.tla) of NDJSON traces recorded from the real cache"},
]

_SEQ_TEXT = {
    "C01": "every operation of seeded scripts on all 12 node layouts is folded through the abstract step functions; results, events, stats and the GetEntryQuietly projection must match, automatic removals must be justified",
    "C03": "operations on expired-unswept keys must behave exactly as on absent keys (TLC: C03_AsAbsent/NoResurrection over every transition of the bounded model; traces: expiry profile without CleanUp)",
    "C07": "every Overflow/Expiration event of a trace must be enabled in the model state reached so far (total weight > maximum or deadline passed); bound restored after every call",
    "C10": "Get/BulkGet results, loader argument lists, resulting contents and load counters for all scripted loader outcomes and shapes",
    "C11": "stale reads return the cached value and trigger exactly one reload, reload outcomes map to replace/keep/remove, Refresh channels deliver one result",
    "C12": "deadlines after create/update/read equal now + calculator duration on a grid of 4 time scales, INF-class durations and clock origins including a real-clock-sized origin",
    "C19": "SaveCacheTo/LoadCacheFrom of script-produced contents at clock offsets incl. exactly-at-deadline, smaller and larger targets",
    "C20": "Stats() after every call equals the model counters; eviction counters bounded by the Overflow/Expiration events of the call",
}
for _p in seqcheck.PLAN:
    if _p not in _SEQ_TEXT:
        continue     # registered below together with its concurrent half
    CHECKS[_p] = seqcheck.run
    META[_p] = {
        "engine": "seq-fold",
        "text": _SEQ_TEXT[_p],
        "design_ref": "DESIGN.md section 6 (%s), section 3.2 B1" % _p,
        "note": "bounded model (2 keys, 2 values, clock 0..3/4); conformance on the sampled scripts only; time logged in scaled units (TLC integers are 32 bit); same-goroutine executor and manual clock as the property states",
        "technique": "TLA+ spec (Cache.tla) model-checked with TLC + trace validation of real executions as a deterministic fold (CacheTrace.tla)",
    }

for _p, _extra in (("C10", "; concurrent half: LoadRace.tla (an expired, unswept entry under the sweep / a cancelled computation / explicit invalidations: NoDrop, NoStaleInstall) model-checked, gate-scheduled load histories of the real cache judged by LoadHist.tla"),
                   ("C11", "; asynchronous half: refreshes / stale reads racing writers under the gate scheduler, judged by LoadHist.tla (one result per Refresh, swap before delivery, a reload replaces only the value it was handed, no reload when nothing is due)")):
    if _p in META:
        META[_p]["text"] += _extra
        META[_p]["technique"] += " + TLA+/PlusCal spec (LoadRace.tla) model-checked with TLC and gate-scheduled load histories of the real cache judged by a TLA+ trace spec (LoadHist.tla)"

CHECKS["C14"] = draincheck.run
META["C14"] = {
    "engine": "drain-replay",
    "text": "Drain.tla (one label per shared access of the drain-status protocol) model-checked for NoStranded with every kind of eviction-mutex holder; behaviours of the model and seeded random/PCT schedules are forced onto the real cache (default executor) by the gate scheduler and the cache is audited after quiescence without any further call",
    "design_ref": "DESIGN.md section 6 (C14), section 3.2 B2",
    "note": "schedules serialise goroutines at hook granularity; bounded scenarios (2-3 writers, 1-3 writes, one or two extra holders); verdict only from the audit of the real cache",
    "technique": "TLA+/PlusCal spec (Drain.tla) model-checked with TLC + replay of TLC behaviours as goroutine schedules on the real code",
}
ENGINES.append({"name": "drain-replay", "path": "tools/draincheck.py", "serves_properties": ["C14"],
                "kind_free_text": "TLC model check + simulation of spec/Drain.tla; schedules replayed by harness/kit (gate scheduler over verifhook points) in harness/otter/verif_drain_test.go"})
HOOK_COMMITS.extend(["3f17fd0", "90d5fc6", "7f02039", "92eaa79", "583b2ee", "8514aa9"])

_WR_TEXT = {
    "C04": "after quiescence and one maintenance run the weight of the entries present is within the maximum, nothing heavier than the maximum is retained, zero-weight entries are never evicted (WriteReplay.tla: Bound; real cache: WRAudit.tla over the audit record); Policy.tla: Bound / MaximaOK with the real policy replayed on it (PolicyTrace.tla); a read that extends a deadline while the expiration sweep runs (SweepHist.tla)",
    "C05": "after quiescence the table, the three policy deques with their running totals, the timer wheel and the public views (WeightedSize, EstimatedSize, All, Hottest, Coldest) agree (WriteReplay.tla: Agree; real cache: WRAudit.tla); the eviction policy object itself is modelled at pointer level (Policy.tla: WellFormed, Agree, MaximaOK incl. the hill climber and tasks applied out of order) and every call on the real policy is replayed on that model (PolicyTrace.tla)",
    "C06": "sequential fold: the atomic and the asynchronous handler receive the same bag of (key, value, cause) in every call, operation-caused events are exactly the predicted ones (incl. Expiration for writes over / removals of expired-unswept entries), all 12 layouts; concurrent: values written = values present + values reported; each removed value reaches OnAtomicDeletion and OnDeletion exactly once with the same cause; per key the atomic handler sees removals in installation order (WriteReplay.tla: Once/NeverTwice; real cache: WRAudit.tla); expiration sweep racing a read that extends the deadline: ExpireRace.tla (Truthful, Once, Tracked, Swept; the protocol as found must violate Truthful) and its counterexample as a gated schedule on the real cache (SweepHist.tla: a cache that is not above its maximum never reports Overflow)",
}
for _p in ("C04", "C05", "C06"):
    CHECKS[_p] = seqcheck.run      # sequential fold + the concurrent audit (wrcheck, merged by seqcheck.finish)
    META[_p] = {
        "engine": "write-replay",
        "text": _WR_TEXT[_p],
        "design_ref": "DESIGN.md section 6 (%s), section 3.2 B2" % _p,
        "note": "bounded model (2-3 writers, 1-2 keys, 2-3 ops); real runs: 2-4 writers, gate-scheduled (random/PCT) or yield-perturbed free running, frozen clock; audit reads unexported state through in-package overlay tests",
        "technique": "TLA+ specs (WriteReplay.tla, Policy.tla) model-checked with TLC + controlled-schedule runs of the real cache whose terminal audit record is judged by a TLA+ trace spec (WRAudit.tla) + deterministic-fold trace validation of the real policy object against Policy.tla (PolicyTrace.tla)",
    }
ENGINES.append({"name": "write-replay", "path": "tools/wrcheck.py", "serves_properties": ["C04", "C05", "C06"],
                "kind_free_text": "TLC on spec/WriteReplay.tla; harness/otter/verif_wr_test.go (gate scheduler + audit); spec/WRAudit.tla judges audit records"})

_LD_TEXT = {
    "C08": "loader runs for one key never overlap unless the key was written/invalidated/evicted in between, every Get/BulkGet/Refresh returns for every loader outcome, no in-flight record is left behind and a later Get loads afresh (LoadRace.tla: NoOverlap, Returned, CleanTable, Terminates; real cache: LoadHist.tla over gate-scheduled histories; sequential leak audit in the fold traces)",
    "C09": "a load result is installed only if no explicit write to the key completed between the load's start and its installation; the last explicit write wins (LoadRace.tla: NoStaleInstall; real cache: LoadHist.tla)",
}
for _p in ("C08", "C09"):
    CHECKS[_p] = loadcheck.run if _p == "C09" else seqcheck.run    # C08 = sequential in-flight audit (fold) + concurrent histories
    META[_p] = {
        "engine": "load-race",
        "text": _LD_TEXT[_p],
        "design_ref": "DESIGN.md section 6 (%s), section 3.2 B2" % _p,
        "note": "bounded model (2-3 getters, 1-2 refreshers, 1-2 writers, one key); real runs serialised at hook granularity with the scripted loader as a gate",
        "technique": "TLA+/PlusCal spec (LoadRace.tla) model-checked with TLC + gate-scheduled runs of the real cache whose histories are judged by a TLA+ trace spec (LoadHist.tla)",
    }
ENGINES.append({"name": "load-race", "path": "tools/loadcheck.py", "serves_properties": ["C08", "C09"],
                "kind_free_text": "TLC on spec/LoadRace.tla; harness/otter/verif_load_test.go; spec/LoadHist.tla judges histories"})

CHECKS["C16"] = compcheck.run_c16
META["C16"] = {
    "engine": "component-replay",
    "text": "every accepted write event is popped exactly once, in per-producer order, refusals only at full capacity, nothing lost across growth: MPSC.tla (one label per shared access) model-checked; its behaviours and seeded schedules are replayed on the real queue by the gate scheduler, free-running producers with yields add volume; histories judged by MPSCHist.tla",
    "design_ref": "DESIGN.md section 6 (C16)",
    "note": "bounded model (2-3 producers, 2-3 pushes, capacities 2->4/8); real runs up to 8 producers and capacities up to 64; serialised at hook granularity in gated runs",
    "technique": "TLA+/PlusCal spec (MPSC.tla) model-checked with TLC + replay of TLC behaviours as schedules on the real queue + TLA+ history judge (MPSCHist.tla)",
}
ENGINES.append({"name": "component-replay", "path": "tools/compcheck.py", "serves_properties": ["C16"],
                "kind_free_text": "TLC on the mechanism spec; harness/<pkg> in-package overlay drivers under harness/kit; TLA+ history judges"})

CHECKS["C17"] = compcheck.run_c17
META["C17"] = {
    "engine": "component-replay",
    "text": "the read buffer may refuse or drop a recording but never delivers an unrecorded entry, never delivers one twice, never holds more than its capacity, and the final drain at quiescence delivers every Success add: Ring.tla model-checked; behaviours and seeded schedules replayed on the real ring, the real Striped buffer is driven through stripe creation / expansion; histories judged by RingHist.tla. 'Dropping never changes results' is the independence of Cache.tla's step functions from the buffer, validated by the sequential fold with a saturated buffer",
    "design_ref": "DESIGN.md section 6 (C17)",
    "note": "exhaustive only for 2-4 slot rings; the striped table is checked by conformance runs, not by its own model",
    "technique": "TLA+/PlusCal spec (Ring.tla) model-checked with TLC + replay of TLC behaviours as schedules on the real ring + TLA+ history judge (RingHist.tla)",
}
for e in ENGINES:
    if e["name"] == "component-replay":
        e["serves_properties"].append("C17")

CHECKS["C13"] = c13check.run
META["C13"] = {
    "engine": "timer-wheel",
    "text": "TimerWheel.tla (parametric geometry) model-checked for SweptWithinTick incl. deadlines before the wheel time; every call on the real wheel is recomputed with the real geometry (bucket of every timer, expired set) by TimerWheelTrace.tla; cache-level traces with TTLs over all five levels and large clock jumps must have no dead entry older than one tick after CleanUp; writes racing maintenance are forced through a stalling clock",
    "design_ref": "DESIGN.md section 6 (C13)",
    "note": "exhaustive only for the small geometry and 1-3 timers; real-geometry conformance on sampled call sequences (8 timers); deadlines up to 13 days in the wheel traces",
    "technique": "TLA+ spec (TimerWheel.tla) model-checked with TLC + deterministic-fold trace validation of the real wheel (TimerWheelTrace.tla) and of the cache (CacheTrace.tla) + TLA+ judge of racing-write scenarios (SweepHist.tla)",
}
ENGINES.append({"name": "timer-wheel", "path": "tools/c13check.py", "serves_properties": ["C13"],
                "kind_free_text": "TLC on spec/TimerWheel.tla; harness/expiration/verif_wheel_test.go; harness/otter/verif_sweep_test.go"})

CHECKS["C18"] = c18check.run
META["C18"] = {
    "engine": "sketch-fold",
    "text": "Sketch.tla: for every hash assignment of a small concrete sketch the estimate never under-counts the recordings of the period, never exceeds 15, is halved exactly by aging and is zero before initialisation; the real sketch (capacities 1..4097 incl. growth, fresh seeds) and policy.admit with injected randomness are validated call by call by SketchTrace.tla; the admission decisions of real eviction passes are replayed on Policy.tla (PolicyTrace.tla: a victim is displaced only by a candidate with a greater estimate or by the random admission)",
    "design_ref": "DESIGN.md section 6 (C18)",
    "note": "hash seeds and capacities are sampled; the exhaustive part is a 4x2 / 4x3 counter sketch with 2-3 keys",
    "technique": "TLA+ specs (Sketch.tla, Policy.tla) model-checked with TLC + deterministic-fold trace validation of the real sketch, admission rule and eviction passes (SketchTrace.tla, PolicyTrace.tla)",
}
ENGINES.append({"name": "sketch-fold", "path": "tools/c18check.py", "serves_properties": ["C18"],
                "kind_free_text": "TLC on spec/Sketch.tla; harness/otter/verif_sketch_test.go; spec/SketchTrace.tla"})

CHECKS["C15"] = c15check.run
META["C15"] = {
    "engine": "table-linearizability",
    "text": "histories of concurrent get / compute / delete on the real table (growth, shrink, pinned collisions inside one bucket chain, all initial capacities) are linearizable w.r.t. a sequential map with every update function applied exactly once (LinTrace.tla, search); iterations yield every stable key exactly once, never a key twice, never a value replaced before they began, and Size equals the number of keys at quiescence (RangeHist.tla)",
    "design_ref": "DESIGN.md section 6 (C15)",
    "note": "linearizability is decided per recorded history (2-4 clients, <= 8 keys, 30-60 operations each); gate-scheduled runs serialise at the per-access hooks of map.go",
    "technique": "TLA+ spec of the sequential map with linearisation points as silent steps (LinTrace.tla) checked by TLC search over recorded histories + TLA+ judge for iteration/size (RangeHist.tla)",
}
ENGINES.append({"name": "table-linearizability", "path": "tools/c15check.py", "serves_properties": ["C15"],
                "kind_free_text": "harness/hashmap/verif_clht_test.go histories; spec/LinTrace.tla (TLC depth-first search, high-water acceptance); spec/RangeHist.tla"})

CHECKS["C02"] = c02check.run
META["C02"] = {
    "engine": "cache-linearizability",
    "text": "concurrent histories of Set/SetIfAbsent/GetIfPresent/GetEntry/Compute*/Invalidate/loader-backed Get on the real cache (evicting, table growing and shrinking) are explained by a total order that respects real time, with automatic removals taking effect at the instant OnAtomicDeletion reports them and every compute callback run exactly once on the value it replaces (LinTrace.tla, TLC search per history)",
    "design_ref": "DESIGN.md section 6 (C02)",
    "note": "per recorded history (2-6 clients, <= 8 keys); free-running with yields at the hook points or gate-scheduled (random / PCT)",
    "technique": "TLA+ spec of the sequential map with linearisation points as silent steps (LinTrace.tla) checked by TLC depth-first search over recorded histories",
}
ENGINES.append({"name": "cache-linearizability", "path": "tools/c02check.py", "serves_properties": ["C02"],
                "kind_free_text": "harness/otter/verif_lin_test.go histories; spec/LinTrace.tla"})
