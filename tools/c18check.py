"""C18: Sketch.tla model-checked over all hash assignments of a small concrete sketch (NeverUnder, AtMost15, HalvedExactly,
ZeroBeforeInit) + deterministic-fold trace validation of the real sketch and of policy.admit (SketchTrace.tla)."""
import concurrent.futures as cf
import json
import os
import time

import vlib


def sk_cfg(keys, slots, sample, maxops):
    return ("SPECIFICATION Spec\nCONSTANTS\n Keys = {%s}\n Slots = {%s}\n SampleSize = %d\n MaxOps = %d\n"
            "INVARIANTS NeverUnder AtMost15 ZeroBeforeInit HalvedExactly\nCHECK_DEADLOCK FALSE\n" %
            (", ".join(map(str, range(1, keys + 1))), ", ".join(map(str, range(1, slots + 1))), sample, maxops))


def run(prop, tier, replay=None):
    t0 = time.time()
    seed = vlib.seed()
    quick = tier == "quick"
    cov = {"states": 0, "transitions": 0, "traces_validated_against_impl": 0, "mc": [], "samples": [], "predicates_failed": {}, "events": 0}
    violations, broken = [], []
    with vlib.scratch("verif-c18-") as work:
        ex = cf.ThreadPoolExecutor(max_workers=vlib.NCPU)

        def mc(tag, text):
            path = os.path.join(work, "sk_%s.cfg" % tag)
            with open(path, "w") as f:
                f.write(text)
            r = vlib.run_tlc(work, "Sketch", path, workers=6 if quick else 12, timeout=3000, heap="8g")
            r["tag"] = tag
            return r
        inst = [("k3s2n8", sk_cfg(3, 2, 5, 8)), ("k2s2n17", sk_cfg(2, 2, 40, 17))] if quick else \
               [("k3s2n10", sk_cfg(3, 2, 5, 10)), ("k2s2n20", sk_cfg(2, 2, 40, 20)), ("k2s3n10", sk_cfg(2, 3, 4, 10))]
        mc_futs = [ex.submit(mc, t, c) for t, c in inst] if not replay else []
        binary = vlib.build_test_binary(work, "otter")

        def one(i, sd=None):
            tr = os.path.join(work, "sk_%d.ndjson" % i)
            dv = os.path.join(work, "sk_%d.dev.json" % i)
            sd = sd if sd is not None else seed * 1000 + i
            rc, out = vlib.run_test_binary(binary, "TestVerifSketch", {"VERIF_OUT": tr, "VERIF_SEED": sd, "VERIF_N": 30 if quick else 120,
                                                                       "VERIF_LEN": 400 if quick else 800}, timeout=900)
            if rc != 0:
                raise vlib.Broken("sketch driver failed:\n" + out[-2000:])
            r = vlib.run_tlc(work, "SketchTrace", os.path.join(vlib.SPEC, "SketchTrace.cfg"), workers=1, timeout=1500, heap="3g",
                             env_extra={"VERIF_TRACE": tr, "VERIF_DEVOUT": dv})
            if not vlib.tlc_ok(r) or not os.path.exists(dv):
                raise vlib.Broken("SketchTrace did not complete:\n" + r["out"][-2500:])
            with open(dv) as f:
                d = json.load(f)
            with open(tr) as f:
                lines = f.readlines()
            return d, lines, sd
        seeds = None
        if replay:
            with open(replay) as f:
                seeds = [json.load(f)["seed"]]
        futs = [ex.submit(one, i, s) for i, s in enumerate(seeds)] if seeds else [ex.submit(one, i) for i in range(6 if quick else 16)]
        for fu in futs:
            d, lines, sd = fu.result()
            cov["events"] += d["n"]
            cov["traces_validated_against_impl"] += sum(1 for x in lines if '"tp":"reset"' in x)
            if len(cov["samples"]) < 1:
                cov["samples"].append({"records": [json.loads(x) for x in lines[1:6]]})
            for x in d["devs"]:
                cov["predicates_failed"][x["pred"]] = cov["predicates_failed"].get(x["pred"], 0) + 1
            if d["devs"]:
                path = vlib.save_replay(prop, "sketch-%d" % sd, {"seed": sd})
                violations.append((d["devs"][0]["pred"], d["devs"][0]["detail"], path))
        for fu in mc_futs:
            r = fu.result()
            cov["mc"].append({"instance": r["tag"], "distinct": r["distinct"], "generated": r["generated"], "wall_s": round(r["wall"], 1)})
            cov["states"] += r["distinct"]
            cov["transitions"] += r["generated"]
            if not vlib.tlc_ok(r):
                broken.append("Sketch model check %s: %s" % (r["tag"], r["out"][-1500:]))
        ex.shutdown()
    if not replay:
        # admission as the eviction pass really applies it: the real policy replayed on Policy.tla (PolicyTrace.tla, C18.displaced_*)
        import polcheck
        pcov, pviol, pbroken = polcheck.run(prop, tier, None, collect_only=True)
        cov["policy_events"] = pcov["events"]
        cov["policy_drift"] = pcov["drift"]
        cov["traces_validated_against_impl"] += pcov["traces_validated_against_impl"]
        cov["states"] += pcov["states"]
        cov["transitions"] += pcov["transitions"]
        cov["mc"] += pcov["mc"]
        broken += pbroken
        for pred, detail, path in pviol:
            violations.append((pred, detail, path))
    cov["explanation"] = ("states/transitions: TLC totals for Sketch.tla (every hash assignment of a 4-row sketch with 2-3 slots per row); "
                          "events: calls on the real sketch / policy.admit folded by SketchTrace.tla (12 keys, capacities 1..4097, fresh seeds per run)")
    vlib.write_evidence(prop, tier, "model_checking", cov, time.time() - t0, violations=len(violations),
                        assumptions=["hash seeds are sampled (one fresh seed per run and per re-allocation)", "12 driver keys, 3 of them hot"])
    if broken:
        for b in broken:
            vlib.log("BROKEN:", b)
        if not violations:       # (what the working parts observed on the real code stands: a violation is reported even if another part broke)
            return 2
    if violations:
        for pred, detail, path in violations[:10]:
            print("VIOLATION property=%s replay=%s" % (prop, path))
            vlib.log("  %s: %s" % (pred, str(detail)[:300]))
        return 1
    return 0
