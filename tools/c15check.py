"""C15 (and the table half of C02): histories of the real CLHT-style table under concurrent get/compute/delete/range/clear with growth,
shrink and pinned hash collisions; linearizability decided by LinTrace.tla (search), iteration and size by RangeHist.tla;
CLHT.tla (mechanism model) checked exhaustively on a small instance when present."""
import concurrent.futures as cf
import json
import os
import time

import lintrace
import vlib


def scenarios(quick, seed):
    out = []
    n = 320 if quick else 16000
    for j in range(n):
        pol = ["free", "pct", "pct+stale", "random+stale"][j % 4] if j % 8 < 4 else ["free", "pct", "pct", "random"][j % 4]
        churn = [300, 900, 0, 300][(j // 4) % 4] if pol == "free" else (150 if j % 16 == 1 else [0, 40][j % 2])
        out.append({"clients": 2 + j % 3, "ops": (30 + 10 * (j % 4)) if pol == "free" else 8 + j % 5, "keys": 2 + j % 6, "collide": (j // 2) % 2,
                    "churn": churn, "initsize": [0, 1, 200, 5000][(j // 3) % 4], "rangers": (j // 2) % 2, "policy": pol, "resizes": (2 if j % 8 < 4 else 0) if pol == "free" else (1 + j % 3 if j % 8 < 4 else [0, 1, 2, 1][j % 4]),
                    "clears": [0, 0, 1, 2][(j // 4) % 4], "hollow": 0, "seed": seed * 100000 + j})
        if (j // 3) % 5 == 2:
            # a chain longer than its root bucket whose root bucket is emptied before the table is rebuilt
            out[-1].update(hollow=1, collide=1, keys=6 + j % 3)
    return out


def run(prop, tier, replay=None):
    t0 = time.time()
    seed = vlib.seed()
    quick = tier == "quick"
    cov = {"states": 0, "transitions": 0, "traces_validated_against_impl": 0, "mc": [], "samples": [], "predicates_failed": {},
           "events": 0, "growths": 0, "shrinks": 0, "iterations": 0}
    violations, broken = [], []
    with vlib.scratch("verif-c15-") as work:
        binary = vlib.build_test_binary(work, "hashmap")
        ex = cf.ThreadPoolExecutor(max_workers=vlib.NCPU)
        mc_futs = []
        if os.path.exists(os.path.join(vlib.SPEC, "CLHT.tla")) and not replay:
            import clhtmodel
            mc_futs = [ex.submit(clhtmodel.run_mc, work, tag, txt, 6 if quick else 12) for tag, txt in clhtmodel.instances(quick)]
        if replay and os.path.basename(replay).startswith(prop + "-iter-"):
            scen = []
        elif replay:
            with open(replay) as f:
                scen = json.load(f)
        else:
            scen = scenarios(quick, seed)
        nshard = min(vlib.NCPU, max(1, len(scen) // 4))
        shards = [scen[i::nshard] for i in range(nshard)]

        def one(i, part):
            inp = os.path.join(work, "in_%d.json" % i)
            outp = os.path.join(work, "out_%d.ndjson" % i)
            devp = os.path.join(work, "dev_%d.json" % i)
            with open(inp, "w") as f:
                json.dump(part, f)
            rc, out = vlib.run_test_binary(binary, "TestVerifCLHT", {"VERIF_IN": inp, "VERIF_OUT": outp}, timeout=1500)
            if rc != 0:
                raise vlib.Broken("table driver failed:\n" + out[-3000:])
            with open(outp) as f:
                recs = [json.loads(x) for x in f]
            linp = os.path.join(work, "lin_%d.ndjson" % i)
            sizes = [sum(1 for _ in range(0)) or -1 for _ in recs]
            spans = lintrace.write_histories(linp, [r["events"] for r in recs])
            n, hw, tl = lintrace.check(work, linp, str(i))
            r = vlib.run_tlc(work, "RangeHist", os.path.join(vlib.SPEC, "RangeHist.cfg"), workers=1, timeout=900, heap="3g",
                             env_extra={"VERIF_TRACE": outp, "VERIF_DEVOUT": devp})
            if not vlib.tlc_ok(r) or not os.path.exists(devp):
                raise vlib.Broken("RangeHist did not complete:\n" + r["out"][-2500:])
            with open(devp) as f:
                d = json.load(f)
            return part, recs, spans, n, hw, tl, d

        for fu in [ex.submit(one, i, p) for i, p in enumerate(shards)]:
            part, recs, spans, n, hw, tl, d = fu.result()
            cov["traces_validated_against_impl"] += len(recs)
            cov["events"] += n
            cov["states"] += tl["distinct"]
            cov["transitions"] += tl["generated"]
            for r in recs:
                cov["growths"] += r["growths"]
                cov["shrinks"] += r["shrinks"]
                cov["iterations"] += len(r["ranges"])
            if recs and len(cov["samples"]) < 2:
                cov["samples"].append({"scenario": recs[0]["sc"], "events": recs[0]["events"][:12], "ranges": recs[0]["ranges"][:1]})
            if hw <= n:
                # the search could not get past line hw: the history containing it is not linearizable
                bad = next((k for k, (a, b) in enumerate(spans) if a <= hw <= b), len(spans) - 1)
                cov["predicates_failed"]["C15.not_linearizable"] = cov["predicates_failed"].get("C15.not_linearizable", 0) + 1
                path = vlib.save_replay(prop, "table-%s-%d" % (part[bad]["policy"], part[bad]["seed"]), [part[bad]])
                ev = recs[bad]["events"]
                off = hw - spans[bad][0]
                violations.append(("C15.not_linearizable", "stuck at event %s" % (ev[off] if 0 <= off < len(ev) else off), path))
            for x in d["devs"]:
                cov["predicates_failed"][x["pred"]] = cov["predicates_failed"].get(x["pred"], 0) + 1
                sc = part[x["rec"] - 1]
                path = vlib.save_replay(prop, "table-%s-%d" % (sc["policy"], sc["seed"]), [sc])
                violations.append((x["pred"], x["detail"], path))
        # ---- the cache's own iterators (All / Keys / Values through cache.nodes()) while values are being replaced
        if not replay or os.path.basename(replay).startswith(prop + "-iter-"):
            obin = vlib.build_test_binary(work, "otter")
            if replay:
                with open(replay) as f:
                    iscen = json.load(f)
            else:
                ni = 24 if quick else 240
                iscen = [{"stable": 8 + 8 * (j % 4), "churn": [0, 20, 60][j % 3], "writers": 2 + j % 3, "iters": 150 if quick else 400, "bounded": (j // 2) % 2,
                          "expiry": (j // 4) % 2, "kind": ["all", "keys", "values"][j % 3], "seed": seed * 100000 + 80000 + j} for j in range(ni)]
            ish = [iscen[i::4] for i in range(4)]

            def iter_one(i, part):
                inp = os.path.join(work, "it_in_%d.json" % i)
                outp = os.path.join(work, "it_out_%d.ndjson" % i)
                devp = os.path.join(work, "it_dev_%d.json" % i)
                with open(inp, "w") as f:
                    json.dump(part, f)
                rc, out = vlib.run_test_binary(obin, "TestVerifIter", {"VERIF_IN": inp, "VERIF_OUT": outp}, timeout=1500)
                if rc != 0:
                    raise vlib.Broken("iterator driver failed:\n" + out[-3000:])
                r = vlib.run_tlc(work, "IterHist", os.path.join(vlib.SPEC, "IterHist.cfg"), workers=1, timeout=900, heap="3g",
                                 env_extra={"VERIF_TRACE": outp, "VERIF_DEVOUT": devp})
                if not vlib.tlc_ok(r) or not os.path.exists(devp):
                    raise vlib.Broken("IterHist did not complete:\n" + r["out"][-2500:])
                with open(devp) as f:
                    return part, json.load(f)
            with cf.ThreadPoolExecutor(max_workers=4) as ex2:
                for fu in [ex2.submit(iter_one, i, p) for i, p in enumerate(ish) if p]:
                    part, d = fu.result()
                    cov["cache_iterations"] = cov.get("cache_iterations", 0) + sum(sc["iters"] for sc in part)
                    cov["traces_validated_against_impl"] += d["n"]
                    for x in d["devs"]:
                        cov["predicates_failed"][x["pred"]] = cov["predicates_failed"].get(x["pred"], 0) + 1
                        sc = part[x["rec"] - 1]
                        path = vlib.save_replay(prop, "iter-%s-%d" % (sc["kind"], sc["seed"]), [sc])
                        violations.append((x["pred"], x["detail"], path))
        if not replay:
            # iterations whose consumer rewrites keys and moves the clock between two yields (IterHist.tla, CheckBody)
            import itercheck
            n, iviol, ibroken = itercheck.run(prop, tier, work)
            cov["loop_body_iterations"] = n
            cov["traces_validated_against_impl"] += n
            broken += ibroken
            violations += iviol
        if not replay:
            # large tables: the parallel copy path under several GOMAXPROCS values, writers parked inside their update functions
            import bulkcheck
            for level in ("table", "cache"):
                bn, bviol, bbroken = bulkcheck.run(prop, tier, work, level)
                cov["large_table_scenarios"] = cov.get("large_table_scenarios", 0) + bn
                cov["traces_validated_against_impl"] += bn
                broken += bbroken
                violations += bviol
        for fu in mc_futs:
            r = fu.result()
            cov["mc"].append({"instance": r["tag"], "distinct": r["distinct"], "generated": r["generated"], "wall_s": round(r["wall"], 1)})
            cov["states"] += r["distinct"]
            cov["transitions"] += r["generated"]
            if not vlib.tlc_ok(r):
                broken.append("CLHT model check %s: %s" % (r["tag"], r["out"][-1500:]))
        ex.shutdown()
    if not cov["samples"]:
        cov["samples"] = [{"note": "replay"}]
    cov["explanation"] = ("states/transitions: states TLC visited in the linearizability searches (LinTrace.tla) plus the CLHT.tla instances in 'mc'; "
                          "traces_validated_against_impl: concurrent histories of the real table (events = call/return records)")
    vlib.write_evidence(prop, tier, "model_checking", cov, time.time() - t0, violations=len(violations),
                        assumptions=["sync/atomic is sequentially consistent", "hash values of the checked keys pinned to one chain in half of the runs",
                                     "initial capacities {default, 1, 200, 5000}; growth and shrink forced by a churn goroutine"])
    if broken:
        for b in broken:
            vlib.log("BROKEN:", b)
        if not violations:       # (what the working parts observed on the real code stands: a violation is reported even if another part broke)
            return 2
    if violations:
        for pred, detail, path in violations[:10]:
            print("VIOLATION property=%s replay=%s" % (prop, path))
            vlib.log("  %s: %s" % (pred, str(detail)[:300]))
        return 1
    return 0
