"""Loop-body iteration scenarios (C01 C03 C12 C15 C20): the consumer of All / Keys / Values / Coldest / Hottest moves the clock,
replaces values and invalidates keys between two yields (harness/otter/verif_iter_test.go, runIterBody); judged by IterHist.tla
(CheckBody).  Used as one more half of the sequential checks of those properties."""
import json
import os
import random

import vlib

OWN = {"C03": ("C03.",), "C12": ("C03.",), "C20": ("C20.",), "C01": ("C01.", "C03.", "C20.", "C15."), "C15": ("C15.",)}


def scenarios(seed, n):
    rng = random.Random(seed * 7907 + 11)
    out = []
    for j in range(n):
        kind = ["all", "keys", "values", "coldest", "hottest"][j % 5]
        N = 12 + (j % 4) * 8
        ttl = 20
        acts = []
        nadv = 1 + rng.randrange(2)
        for _ in range(nadv):
            acts.append({"at": rng.randrange(0, 4), "act": "adv", "k": 0, "d": rng.choice([1, 3, 7, 12, 19, 20, 21, 40])})
        if kind in ("all", "keys", "values"):
            for _ in range(rng.randrange(0, 5)):
                acts.append({"at": rng.randrange(0, 6), "act": rng.choice(["set", "set", "inv", "setshort"]), "k": rng.randrange(N), "d": 0})
        step = 1
        if j % 3 == 0 and kind in ("all", "keys", "values"):
            # the body rewrites MANY keys at once (a node that was replaced after its bucket had been copied is looked up again by
            # the iterator), then lets time pass
            N, step = 120, 0          # all keys written at second 0, deadline = ttl
            if (j // 3) % 2 == 0:
                # ... past the short deadlines of the new values
                at = rng.randrange(0, 2)
                acts = [{"at": at, "act": rng.choice(["set", "setshort", "setshort"]), "k": k, "d": 0} for k in range(N) if rng.randrange(4)]
                acts.append({"at": at + 1, "act": "adv", "k": 0, "d": rng.choice([3, 5, 9])})
            else:
                # ... past the old deadlines but not past the new ones
                acts = [{"at": 0, "act": "adv", "k": 0, "d": 10}]
                acts += [{"at": 1, "act": "set", "k": k, "d": 0} for k in range(N) if rng.randrange(4)]
                acts.append({"at": 2, "act": "adv", "k": 0, "d": 12})
        pre = 0
        if j % 6 == 4:
            # the iterator is obtained, kept for a while (some entries expire meanwhile, unswept) and consumed afterwards
            pre = rng.choice([5, 12, 25])
        out.append({"stable": 0, "churn": 0, "writers": 0, "iters": 0, "bounded": (j // 5) % 2, "expiry": 1, "kind": kind,
                    "seed": seed * 100000 + 90000 + j, "body": 1, "n": N, "ttl": ttl, "step": step, "acts": acts, "pre": pre})
    return out


def run(prop, tier, work, binary=None, replay_scen=None):
    """-> (number of iterations judged, [(pred, detail, replay path)], [broken])"""
    quick = tier == "quick"
    scen = replay_scen or scenarios(vlib.seed(), 60 if quick else 600)
    binary = binary or vlib.build_test_binary(work, "otter")
    inp = os.path.join(work, "itb_in.json")
    outp = os.path.join(work, "itb_out.ndjson")
    devp = os.path.join(work, "itb_dev.json")
    with open(inp, "w") as f:
        json.dump(scen, f)
    rc, out = vlib.run_test_binary(binary, "TestVerifIter", {"VERIF_IN": inp, "VERIF_OUT": outp}, timeout=900)
    if rc != 0:
        return 0, [], ["iterator (loop body) driver failed:\n" + out[-2000:]]
    r = vlib.run_tlc(work, "IterHist", os.path.join(vlib.SPEC, "IterHist.cfg"), workers=1, timeout=900, heap="3g",
                     env_extra={"VERIF_TRACE": outp, "VERIF_DEVOUT": devp})
    if not vlib.tlc_ok(r) or not os.path.exists(devp):
        return 0, [], ["IterHist (loop body) did not complete:\n" + r["out"][-2500:]]
    with open(devp) as f:
        d = json.load(f)
    viol = []
    for x in d["devs"]:
        if not x["pred"].startswith(OWN.get(prop, ())):
            continue
        sc = scen[x["rec"] - 1]
        path = vlib.save_replay(prop, "iterbody-%s-%d" % (sc["kind"], sc["seed"]), [sc])
        viol.append((x["pred"], x["detail"], path))
    return d["n"], viol, []


def replay(prop, tier, path):
    with open(path) as f:
        scen = json.load(f)
    with vlib.scratch("verif-itb-") as work:
        n, viol, broken = run(prop, tier, work, replay_scen=scen)
    for b in broken:
        vlib.log("BROKEN:", b)
    if broken:
        return 2
    for pred, detail, p in viol[:10]:
        print("VIOLATION property=%s replay=%s" % (prop, p))
        vlib.log("  %s: %s" % (pred, str(detail)[:300]))
    return 1 if viol else 0


if __name__ == "__main__":
    import sys
    with vlib.scratch("verif-itb-") as w:
        print(run(sys.argv[1], "quick", w))
