"""Helpers for the linearizability trace spec (LinTrace.tla): build concatenated NDJSON histories and run the search."""
import json
import os

import vlib

RESET = {"seq": 0, "c": 1, "t": "reset", "op": "", "k": 0, "v": -1, "rv": 0, "rok": 0, "saw": 0, "act": "", "nc": 0, "hit": 0, "ri": 0}


def write_histories(path, histories, sizes=None):
    """histories: list of event lists (sorted by seq). Adds ri (index of the matching return) to every call. Returns per-history
    [first_line, last_line] (1-based, inclusive of the closing reset record)."""
    spans = []
    line = 0
    with open(path, "w") as f:
        for hi, evs in enumerate(histories):
            start = line + 1
            base = line
            pending = {}
            recs = []
            for j, e in enumerate(evs):
                e = dict(e)
                e.setdefault("ri", 0)
                recs.append(e)
                if e["t"] == "call":
                    pending[e["c"]] = j
                elif e["t"] == "ret":
                    cj = pending.pop(e["c"], None)
                    if cj is not None:
                        recs[cj]["ri"] = base + j + 1
            # calls that never returned stay pending: drop them (the driver reports hangs separately)
            recs = [r for r in recs if not (r["t"] == "call" and r["ri"] == 0)]
            # indices shifted if something was dropped: recompute
            if len(recs) != len(evs):
                pending = {}
                for j, e in enumerate(recs):
                    if e["t"] == "call":
                        pending[e["c"]] = j
                    elif e["t"] == "ret":
                        cj = pending.pop(e["c"], None)
                        if cj is not None:
                            recs[cj]["ri"] = base + j + 1
            # an automatic removal is reported from inside the table computation and becomes visible when that computation
            # ends: bi = line of the next record logged by the same goroutine (or the closing reset), by which it has ended
            for j, e in enumerate(recs):
                e.setdefault("bi", 0)
                e.setdefault("g", 0)
                if e["t"] == "auto":
                    nxt = next((x for x in range(j + 1, len(recs)) if recs[x].get("g", 0) == e["g"] and e["g"] != 0), None)
                    e["bi"] = base + (nxt + 1 if nxt is not None else len(recs) + 1)
            for e in recs:
                f.write(json.dumps(e) + "\n")
            r = dict(RESET)
            if sizes is not None:
                r["v"] = sizes[hi]
            f.write(json.dumps(r) + "\n")
            line += len(recs) + 1
            spans.append((start, line))
    return spans


def check(work, path, tag):
    out = os.path.join(work, "lin_%s.json" % tag)
    r = vlib.run_tlc(work, "LinTrace", os.path.join(vlib.SPEC, "LinTrace.cfg"), workers=1, timeout=1800, heap="4g", deque=True,
                     env_extra={"VERIF_TRACE": path, "VERIF_DEVOUT": out})
    if not os.path.exists(out):
        raise vlib.Broken("LinTrace did not complete:\n" + r["out"][-2500:])
    with open(out) as f:
        d = json.load(f)
    return d["n"], d["hw"], r
