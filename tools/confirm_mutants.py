#!/usr/bin/env python3
"""Confirm seeded changes in a scratch worktree: with the patch the library builds, the existing suite passes and
the demonstration fails; without it the demonstration passes.  usage: confirm_mutants.py <dir with ID subdirs> [ids...]"""
import json, os, subprocess, sys, shutil
src = sys.argv[1]
ids = sys.argv[2:] or sorted(d for d in os.listdir(src) if os.path.isdir(os.path.join(src, d)) and os.path.exists(os.path.join(src, d, "patch.diff")))
wt = "/tmp/wt-confirm"
env = dict(os.environ, GOFLAGS="-mod=mod", GOPROXY="off")
env.pop("GOTOOLCHAIN", None); env.pop("GOSUMDB", None)
def sh(cmd, cwd=wt, timeout=900):
    p = subprocess.run(cmd, cwd=cwd, env=env, shell=True, stdout=subprocess.PIPE, stderr=subprocess.STDOUT, text=True, timeout=timeout)
    return p.returncode, p.stdout
subprocess.run("git -C /repo worktree remove --force %s 2>/dev/null; git -C /repo worktree add -q %s HEAD" % (wt, wt), shell=True)
out = {}
for mid in ids:
    d = os.path.join(src, mid)
    res = {}
    sh("git reset -q --hard && git clean -fdq")
    demo = open(os.path.join(d, "demo_test.go")).read()
    pkgdir = "."
    m = __import__("re").search(r"^package (\w+)", demo, __import__("re").M)
    pkg = m.group(1) if m else "otter"
    pkgdir = {"otter": ".", "hashmap": "internal/hashmap", "queue": "internal/deque/queue", "lossy": "internal/lossy", "expiration": "internal/expiration"}.get(pkg, ".")
    meta = {}
    try: meta = json.load(open(os.path.join(d, "meta.json")))
    except Exception: pass
    if meta.get("demo_pkg_dir"): pkgdir = meta["demo_pkg_dir"]
    shutil.copy(os.path.join(d, "demo_test.go"), os.path.join(wt, pkgdir, "zz_mutant_demo_test.go"))
    rc, o = sh("go test -vet=off -count=1 -timeout 120s -run 'TestMutantDemo' ./%s" % pkgdir)
    res["demo_clean_passes"] = rc == 0
    rc, o = sh("git apply --3way %s 2>&1 || git apply %s" % (os.path.join(d, "patch.diff"), os.path.join(d, "patch.diff")))
    res["applies"] = rc == 0
    if rc != 0: res["apply_out"] = o[-500:]
    rc, o = sh("go build ./...")
    res["builds"] = rc == 0
    rc, o = sh("go test -vet=off -count=1 -timeout 120s -run 'TestMutantDemo' ./%s" % pkgdir)
    res["demo_patched_fails"] = rc != 0
    os.remove(os.path.join(wt, pkgdir, "zz_mutant_demo_test.go"))
    ok = False
    for attempt in range(3):
        rc, o = sh("go test -vet=off -count=1 -timeout 100s ./...")
        if rc == 0: ok = True; break
        res.setdefault("suite_failures", []).append([l for l in o.split("\n") if "--- FAIL" in l or "running tests" in l or l.startswith("\t\tTest")][:6])
    res["suite_passes"] = ok
    res["confirmed"] = all(res.get(k) for k in ("demo_clean_passes", "applies", "builds", "demo_patched_fails", "suite_passes"))
    out[mid] = res
    print(mid, res, flush=True)
sh("git reset -q --hard && git clean -fdq")
subprocess.run("git -C /repo worktree remove --force %s" % wt, shell=True)
json.dump(out, open(os.path.join(src, "confirm.json"), "w"), indent=1)
