"""Policy fold (C04 C05 C07 C18): Policy.tla - a pointer-level transliteration of policy.go / linked.go driven the way the cache
drives it - is model-checked (WellFormed, Agree, MaximaOK, Bound, Justified), and every call on the REAL policy object
(harness/otter/verif_policy_test.go) is replayed on it by PolicyTrace.tla.  Verdicts come from the properties evaluated on the
logged real state; a difference between model and code that breaks no property is drift (reported, exit 2 only if the model no
longer follows the code at all)."""
import concurrent.futures as cf
import json
import os
import time

import vlib

PRED_PROP = {"C05.": "C05", "C04.": "C04", "C07.": "C07", "C18.": "C18"}


def pol_cfg(n, weights, maxima, adj, freqs, reorder, invs, signed=True):
    return ("SPECIFICATION Spec\nCONSTANTS\n N = %d\n Keys = {1, 2}\n Weights = {%s}\n Maxima = {%s}\n Adjust <- %s\n Freqs = {%s}\n"
            " Reorder = %s\n Signed = %s\n KeepObs = FALSE\nINVARIANTS %s\n" %
            (n, ", ".join(map(str, weights)), ", ".join(map(str, maxima)), adj, ", ".join(map(str, freqs)),
             "TRUE" if reorder else "FALSE", "TRUE" if signed else "FALSE", invs))


ALL_INV = "WellFormed Agree MaximaOK Bound Justified CurAlive"
# with tasks applied out of order a running total may go below zero.  Compared as an unsigned number (policy.go before fix F25) it starts a
# spurious eviction sweep - a cache far below its maximum evicts what it holds with cause Overflow; `Signed = TRUE` (the repaired code,
# Caffeine's signed totals) satisfies Justified under reordering as well.  The instance with Signed = FALSE must violate it.
RO_INV = ALL_INV
NEG = [("neg_unsigned_totals", "Justified")]


def instances(quick, prop="C05"):
    """quick: the exhaustive instances are run by the check of C05 only (the other properties share the model; their quick
    tier replays the real policy on it); thorough: every property runs all of them."""
    q1 = [("n3", pol_cfg(3, [0, 1, 2], [2, 3], "Adj1", [0, 7], False, ALL_INV)),
          ("n3ro12", pol_cfg(3, [1, 2], [3], "Adj0", [0, 7], True, RO_INV)),
          ("neg_unsigned_totals", pol_cfg(3, [1, 2], [3], "Adj0", [0, 7], True, ALL_INV, signed=False))]
    if quick:
        return q1 if prop == "C05" else []
    # measured on this machine (16 cores, other jobs running): n3ro 2.0 M states / 2.5 min, n3big 1.6 M / 1 min, n3ro3 0.9 M / 1 min,
    # n3w 9.2 M / 11 min - the largest one is run by the check of C05 only
    mid = q1 + [("n3ro02", pol_cfg(3, [0, 2], [2, 3], "Adj0", [0, 7], True, RO_INV)), ("n3big", pol_cfg(3, [0, 1, 3], [5, 8], "Adj2", [0, 7], False, ALL_INV)),
                ("n3ro3", pol_cfg(3, [0, 1, 2], [3], "Adj0", [0, 7], True, RO_INV))]
    if prop != "C05":
        return mid
    return mid + [("n3ro", pol_cfg(3, [0, 1, 2], [2, 3], "Adj1", [0, 7], True, RO_INV)),
                  ("n3w", pol_cfg(3, [1, 2, 4], [4, 6], "Adj3", [0, 7], True, RO_INV))]


def run(prop, tier, replay=None, collect_only=False):
    """Returns (cov, violations, broken) when collect_only, else an exit code.  violations: [(pred, detail, replay path)] of `prop`."""
    t0 = time.time()
    seed = vlib.seed()
    quick = tier == "quick"
    cov = {"states": 0, "transitions": 0, "traces_validated_against_impl": 0, "mc": [], "samples": [], "predicates_failed": {},
           "events": 0, "drift": 0}
    violations, broken = [], []
    with vlib.scratch("verif-pol-") as work:
        ex = cf.ThreadPoolExecutor(max_workers=vlib.NCPU)

        def mc(tag, text):
            path = os.path.join(work, "pol_%s.cfg" % tag)
            with open(path, "w") as f:
                f.write(text)
            r = vlib.run_tlc(work, "PolicyMC", path, workers=5 if quick else 8, timeout=3000, heap="8g")
            r["tag"] = tag
            return r
        mc_futs = [ex.submit(mc, t, c) for t, c in instances(quick, prop)] if not replay else []
        binary = vlib.build_test_binary(work, "otter")

        def one(i, sd=None):
            tr = os.path.join(work, "pol_%d.ndjson" % i)
            dv = os.path.join(work, "pol_%d.dev.json" % i)
            sd = sd if sd is not None else seed * 1000 + i
            rc, out = vlib.run_test_binary(binary, "TestVerifPolicy", {"VERIF_OUT": tr, "VERIF_SEED": sd, "VERIF_N": 60 if quick else 200,
                                                                       "VERIF_LEN": 120 if quick else 160}, timeout=900)
            if rc != 0:
                raise vlib.Broken("policy driver failed:\n" + out[-2000:])
            r = vlib.run_tlc(work, "PolicyTrace", os.path.join(vlib.SPEC, "PolicyTrace.cfg"), workers=1, timeout=1500, heap="3g",
                             env_extra={"VERIF_TRACE": tr, "VERIF_DEVOUT": dv})
            if not vlib.tlc_ok(r) or not os.path.exists(dv):
                raise vlib.Broken("PolicyTrace did not complete:\n" + r["out"][-2500:])
            with open(dv) as f:
                d = json.load(f)
            with open(tr) as f:
                lines = f.readlines()
            return d, lines, sd
        seeds = None
        if replay:
            with open(replay) as f:
                seeds = [json.load(f)["seed"]]
        futs = [ex.submit(one, i, s) for i, s in enumerate(seeds)] if seeds else [ex.submit(one, i) for i in range(4 if quick else 12)]
        for fu in futs:
            try:
                d, lines, sd = fu.result()
            except vlib.Broken as e:
                broken.append(str(e))
                continue
            cov["events"] += d["n"]
            cov["drift"] += d["drift"]
            cov["traces_validated_against_impl"] += sum(1 for x in lines if '"op":"reset"' in x)
            if len(cov["samples"]) < 1:
                cov["samples"].append({"records": [json.loads(x) for x in lines[1:5]]})
            mine = []
            for x in d["devs"]:
                cov["predicates_failed"][x["pred"]] = cov["predicates_failed"].get(x["pred"], 0) + 1
                if PRED_PROP.get(x["pred"][:4]) == prop:
                    mine.append(x)
            if mine:
                path = vlib.save_replay(prop, "pol-%d" % sd, {"seed": sd, "line": mine[0]["line"], "record": json.loads(lines[mine[0]["line"] - 1])})
                violations.append((mine[0]["pred"], mine[0]["detail"], path))
        for fu in mc_futs:
            r = fu.result()
            cov["mc"].append({"instance": "Policy " + r["tag"], "distinct": r["distinct"], "generated": r["generated"], "wall_s": round(r["wall"], 1)})
            cov["states"] += r["distinct"]
            cov["transitions"] += r["generated"]
            must = dict(NEG).get(r["tag"])
            if must:
                hit = ("Invariant %s is violated" % must) in r["out"]
                cov.setdefault("switches_that_must_violate", []).append({"instance": r["tag"], "invariant": must, "violated": hit})
                if not hit:
                    broken.append("Policy %s: %s is not violated although the totals are compared as unsigned numbers (vacuous invariant?)" % (r["tag"], must))
            elif not vlib.tlc_ok(r):
                broken.append("Policy model check %s: %s" % (r["tag"], r["out"][-1500:]))
        ex.shutdown()
    if cov["events"] and cov["drift"] * 2 > cov["events"]:
        broken.append("Policy.tla no longer follows policy.go: %d of %d records differ (model out of date)" % (cov["drift"], cov["events"]))
    if collect_only:
        return cov, violations, broken
    cov["explanation"] = ("states/transitions: TLC totals for Policy.tla; events: calls on the real policy object replayed on the model by "
                          "PolicyTrace.tla; drift: records on which model and code differ without breaking a property")
    vlib.write_evidence(prop, tier, "model_checking", cov, time.time() - t0, violations=len(violations))
    if broken:
        for b in broken:
            vlib.log("BROKEN:", b)
        if not violations:       # (what the working parts observed on the real code stands: a violation is reported even if another part broke)
            return 2
    if violations:
        for pred, detail, path in violations[:10]:
            print("VIOLATION property=%s replay=%s" % (prop, path))
            vlib.log("  %s: %s" % (pred, str(detail)[:300]))
        return 1
    return 0


if __name__ == "__main__":
    import sys
    sys.exit(run(sys.argv[1], sys.argv[2] if len(sys.argv) > 2 else "quick"))
