#!/usr/bin/env python3
"""Run registered checks against seeded changes: apply /verif/seeded/<id>/patch.diff to /repo, run the check(s) of the
property it breaks, undo.  usage: run_seeded.py [--tier quick|thorough] [--all-checks] <id>...   (results -> seeded/results.json)"""
import json, os, subprocess, sys, time
V = os.path.dirname(os.path.dirname(os.path.abspath(__file__)))
args = sys.argv[1:]
tier = "quick"
allchecks = False
if "--tier" in args:
    i = args.index("--tier"); tier = args[i + 1]; del args[i:i + 2]
if "--all-checks" in args:
    allchecks = True; args.remove("--all-checks")
ids = args or sorted(d for d in os.listdir(os.path.join(V, "seeded")) if os.path.isdir(os.path.join(V, "seeded", d)))
resf = os.path.join(V, "seeded", "results.json")
results = json.load(open(resf)) if os.path.exists(resf) else {}
man = json.load(open(os.path.join(V, "MANIFEST.json")))
claimed = [c["property_id"] for c in man["checks"]]
for mid in ids:
    d = os.path.join(V, "seeded", mid)
    if not os.path.exists(os.path.join(d, "meta.json")):
        continue
    meta = json.load(open(os.path.join(d, "meta.json")))
    if str(meta.get("status", "")).startswith("retired"):
        results[mid] = {"retired": meta["status"]}
        print(mid, "retired"); continue
    prop = mid[:3]
    # the change is applied in a scratch worktree of /repo's HEAD (never in /repo itself); the checks build from it
    wt = "/tmp/wt-seeded-%s-%d" % (mid, os.getpid())
    subprocess.run("git -C /repo worktree remove --force %s 2>/dev/null; git -C /repo worktree add -q %s HEAD" % (wt, wt), shell=True)
    try:
        p = subprocess.run("git apply --3way %s 2>&1 || git apply %s" % (os.path.join(d, "patch.diff"), os.path.join(d, "patch.diff")),
                           cwd=wt, shell=True, stdout=subprocess.PIPE, stderr=subprocess.STDOUT, text=True)
        if p.returncode != 0:
            print(mid, "patch does not apply:", p.stdout[-300:]); continue
        env = dict(os.environ, VERIF_REPO=wt)
        for pr in (claimed if allchecks else [prop]):
            if pr not in claimed:
                print(mid, pr, "not claimed"); continue
            t = time.time()
            q = subprocess.run([os.path.join(V, "bin", "check"), pr, tier], cwd=V, env=env, stdout=subprocess.PIPE, stderr=subprocess.PIPE, text=True)
            viol = [l for l in q.stdout.split("\n") if l.startswith("VIOLATION")]
            results.setdefault(mid, {})["%s/%s" % (pr, tier)] = {"exit": q.returncode, "violations": len(viol), "wall_s": round(time.time() - t, 1),
                                                             "first": ([l for l in q.stderr.split("\n") if "deviation" in l or "stranded" in l or ": " in l][:1] if viol else [])}
            print(mid, pr, tier, "exit", q.returncode, "violations", len(viol), "%.0fs" % (time.time() - t), flush=True)
    finally:
        subprocess.run("git -C /repo worktree remove --force %s" % wt, shell=True)
    json.dump(results, open(resf, "w"), indent=1, sort_keys=True)
