"""C02: concurrent histories of the real cache (evicting, table growing/shrinking, frozen clock) decided linearizable by
LinTrace.tla (TLC search with linearisation points as silent steps; automatic removals consumed at the instant the atomic
deletion handler logged them)."""
import concurrent.futures as cf
import json
import os
import time

import lintrace
import vlib


def scenarios(quick, seed):
    out = []
    n = 160 if quick else 12000
    for j in range(n):
        pol = ["free", "pct", "free", "random"][j % 4]
        out.append({"clients": 2 + j % 3 + (2 if (not quick and j % 16 == 0 and pol == "free") else 0),
                    "ops": (40 + 10 * (j % 3)) if pol == "free" else 8 + j % 6, "keys": 2 + j % 7,
                    "max": [0, 3, 1, 2, 6, 4][j % 6], "churn": ([0, 400, 900][j % 3] if pol == "free" else 0), "expiry": (j // 2) % 2,
                    "initcap": [0, 1, 64, 1000][(j // 3) % 4], "policy": pol, "seed": seed * 100000 + j, "loader": (j // 3) % 2})
        if j % 8 == 5:
            # per-value lifetimes (even values get no deadline) over keys that start with an expired, not yet removed entry
            out[-1].update(expiry=2)
        if pol != "free" and out[-1]["loader"] and (j // 6) % 2:
            # few keys, installations stalled: joined loads and the reads that follow them
            out[-1].update(policy=pol + "+stall", keys=1 + j % 2, max=0)
    return out


def run(prop, tier, replay=None):
    t0 = time.time()
    seed = vlib.seed()
    quick = tier == "quick"
    cov = {"states": 0, "transitions": 0, "traces_validated_against_impl": 0, "samples": [], "events": 0, "automatic_removals": 0,
           "not_linearizable": 0}
    violations, broken = [], []
    with vlib.scratch("verif-c02-") as work:
        binary = vlib.build_test_binary(work, "otter")
        ex = cf.ThreadPoolExecutor(max_workers=vlib.NCPU)
        recorded = None
        if replay:
            with open(replay) as f:
                scen = json.load(f)
            if scen and scen[0].get("recorded_events"):
                recorded = scen[0]["recorded_events"]
                linp = os.path.join(work, "recorded.ndjson")
                lintrace.write_histories(linp, [recorded])
                n, hw, tl = lintrace.check(work, linp, "recorded")
                vlib.log("recorded history: %d events, search reached %d" % (n, hw))
                if hw <= n:
                    print("VIOLATION property=%s replay=%s" % (prop, replay))
                    vlib.log("  the recorded history is not linearizable: stuck at event", recorded[hw - 1] if hw - 1 < len(recorded) else hw)
                    return 1
                return 0
            for sc in scen:
                sc.pop("recorded_events", None)
        else:
            scen = scenarios(quick, seed)
        nshard = min(vlib.NCPU, max(1, len(scen) // 4))
        shards = [scen[i::nshard] for i in range(nshard)]

        def one(i, part):
            inp = os.path.join(work, "in_%d.json" % i)
            outp = os.path.join(work, "out_%d.ndjson" % i)
            with open(inp, "w") as f:
                json.dump(part, f)
            rc, out = vlib.run_test_binary(binary, "TestVerifC02", {"VERIF_IN": inp, "VERIF_OUT": outp}, timeout=1500)
            if rc != 0:
                raise vlib.Broken("C02 driver failed:\n" + out[-3000:])
            with open(outp) as f:
                recs = [json.loads(x) for x in f]
            linp = os.path.join(work, "lin_%d.ndjson" % i)
            spans = lintrace.write_histories(linp, [r["events"] for r in recs])
            n, hw, tl = lintrace.check(work, linp, str(i))
            # concurrent statistics tallies (C20) from the same runs
            stp = os.path.join(work, "st_%d.ndjson" % i)
            with open(stp, "w") as f:
                for r in recs:
                    f.write(json.dumps({k: r[k] for k in ("sc", "lookups", "loads", "nover", "nexp", "st", "stmid", "churnnc")}) + "\n")
            dvp = os.path.join(work, "st_%d.dev.json" % i)
            sr = vlib.run_tlc(work, "StatsHist", os.path.join(vlib.SPEC, "StatsHist.cfg"), workers=1, timeout=600, heap="2g",
                              env_extra={"VERIF_TRACE": stp, "VERIF_DEVOUT": dvp})
            if not vlib.tlc_ok(sr) or not os.path.exists(dvp):
                raise vlib.Broken("StatsHist did not complete:\n" + sr["out"][-2000:])
            with open(dvp) as f:
                sd = json.load(f)
            for r in recs:
                r["_stats_devs"] = [x for x in sd["devs"]]
            return part, recs, spans, n, hw, tl

        for fu in [ex.submit(one, i, p) for i, p in enumerate(shards)]:
            part, recs, spans, n, hw, tl = fu.result()
            cov["traces_validated_against_impl"] += len(recs)
            cov["events"] += n
            cov["states"] += tl["distinct"]
            cov["transitions"] += tl["generated"]
            cov["automatic_removals"] += sum(r["autos"] for r in recs)
            if recs and len(cov["samples"]) < 2:
                cov["samples"].append({"scenario": recs[0]["sc"], "events": recs[0]["events"][:16]})
            for k, r in enumerate(recs):
                if r["diag"] and prop == "C02":
                    path = vlib.save_replay(prop, "c02-%s-%d" % (part[k]["policy"], part[k]["seed"]), [part[k]])
                    violations.append(("C02.abnormal_end", r["diag"], path))
            if recs and prop == "C02":
                for x in recs[0]["_stats_devs"]:
                    if x["pred"].startswith("C02."):
                        sc = part[x["rec"] - 1]
                        path = vlib.save_replay(prop, "c02-%s-%d" % (sc["policy"], sc["seed"]), [sc])
                        violations.append((x["pred"], x["detail"], path))
            if recs and prop == "C20":
                for x in recs[0]["_stats_devs"]:
                    if not x["pred"].startswith("C20."):
                        continue
                    sc = part[x["rec"] - 1]
                    path = vlib.save_replay(prop, "c20-%s-%d" % (sc["policy"], sc["seed"]), [sc])
                    violations.append((x["pred"], x["detail"], path))
            if hw <= n and prop == "C02":
                bad = next((k for k, (a, b) in enumerate(spans) if a <= hw <= b), len(spans) - 1)
                cov["not_linearizable"] += 1
                ev = [e for e in recs[bad]["events"]]
                # the recorded history is the evidence (free-running schedules are not reproducible from the seed)
                path = vlib.save_replay(prop, "c02-%s-%d" % (part[bad]["policy"], part[bad]["seed"]), [dict(part[bad], recorded_events=ev)])
                off = hw - spans[bad][0]
                violations.append(("C02.not_linearizable", "search stuck at event %s" % (ev[off] if 0 <= off < len(ev) else off), path))
        ex.shutdown()
        if prop == "C02" and not replay:
            # large tables (parallel copy path of the resize) with writers parked inside their callbacks: BulkHist.tla
            import bulkcheck
            bn, bviol, bbroken = bulkcheck.run(prop, tier, work, "cache", binary=binary)
            cov["large_table_scenarios"] = bn
            cov["traces_validated_against_impl"] += bn
            broken += bbroken
            violations += bviol
    if not cov["samples"]:
        cov["samples"] = [{"note": "replay"}]
    cov["explanation"] = ("states/transitions: states TLC visited while searching linearisations (LinTrace.tla, one run per shard of histories); "
                          "traces_validated_against_impl: concurrent histories recorded from the real cache")
    if prop == "C20":
        return cov, violations       # concurrent half of C20: the caller merges it with the sequential half
    vlib.write_evidence(prop, tier, "model_checking", cov, time.time() - t0, violations=len(violations),
                        assumptions=["the clock is frozen during a history", "2-6 clients, <= 8 checked keys, unique values per write",
                                     "loader-backed Get: loaders always succeed; a missed Get is modelled with two linearisation points (miss, install)"])
    if broken:
        for b in broken:
            vlib.log("BROKEN:", b)
        if not violations:       # (what the working parts observed on the real code stands: a violation is reported even if another part broke)
            return 2
    if violations:
        for pred, detail, path in violations[:10]:
            print("VIOLATION property=%s replay=%s" % (prop, path))
            vlib.log("  %s: %s" % (pred, str(detail)[:300]))
        return 1
    return 0
