"""C14: Drain.tla model-checked (NoStranded for every holder kind) + behaviours of the model replayed as
schedules on the real cache (binding B2) + seeded random/PCT schedules; verdict = terminal audit of the real
cache after quiescence, without any further cache call."""
import concurrent.futures as cf
import json
import os
import re
import time

import vlib

# spec label -> hook id ("" = hooked but the id depends on the caller, None = no hook: silent step)
LABEL = {
    "aw_push": "aw.push", "saw_load": "saw.load", "saw_casIdle": "saw.casIdle", "saw_casP2I": "saw.casP2I",
    "sdb_load1": "sdb.load1", "sdb_tryLock": "sdb.tryLock", "sdb_load2": "sdb.load2", "sdb_unlockBusy": "sdb.unlockBusy",
    "sdb_storeP2I": "sdb.storeP2I", "sdb_exec": "sdb.exec", "sdb_token": "sdb.token", "sdb_unlock": "sdb.unlock",
    "sdb_ret": None, "mt_storeP2I": "mt.storeP2I", "mt_pop": "mt.pop", "mt_final": "mt.final", "mt_finalCAS": None,
    "mt_storeReq1": "mt.storeReq", "mt_storeReq2": "mt.storeReq", "mt_unlock": "", "rs_load": "rs.load", "mt_ret": None,
    "W0": "start", "T0": None, "T_end": None, "db_enter": "db.enter", "db_token": "db.token", "pc_lock": "pc.lock",
    "H0": "start", "ia_lock": "ia.lock", "ia_pop": None, "ia_unlock": "ia.unlock", "ia_after": "rs.load",
    "eo_lock": "eo.lock", "sm_lock": "sm.lock", "sm_check": None, "sm_unlock": "sm.unlock", "sm_rs": "rs.load",
    "pc_lock2": "pc.lock", "rd_load": "get.afterLookup",
}
KIND_CFG = {"none": "HK_none", "invalidateAll": "HK_ia", "order": "HK_eo", "getmax": "HK_gm", "cleanup": "HK_cu", "reader": "HK_rd"}


def cfg_text(writers, nwrites, ntasks, kind, fix=True, drop=""):
    holders = "{}" if kind == "none" else "{201}"
    return ("SPECIFICATION Spec\nCONSTANTS\n Writers = {%s}\n NWrites = %d\n Tasks = {%s}\n Holders = %s\n HolderKind <- %s\n"
            " FixHolders = %s\n Drop = {%s}\n defaultInitValue = defaultInitValue\nINVARIANTS NoStranded LockFreeAtEnd StatusOK\n"
            "CONSTRAINT PoolOK\nCHECK_DEADLOCK FALSE\n" %
            (", ".join(str(i + 1) for i in range(writers)), nwrites, ", ".join(str(101 + i) for i in range(ntasks)),
             holders, KIND_CFG[kind], "TRUE" if fix else "FALSE", ('"%s"' % drop) if drop else ""))


STEP_RE = re.compile(r"^\\\* <(\w+)\((\d+)\) line")


def steps_from_labels(labels, ntasks):
    """(label, pid) sequence of a Drain.tla behaviour -> kit script: ordered (goroutine name, hook id) steps."""
    steps = []
    spawned = {}       # spec task id -> current incarnation name
    nspawn = 0
    started = set()
    for label, pid in labels:
        if pid <= 100:
            name = "w%d" % pid
        elif pid <= 200:
            name = spawned.get(pid)
        else:
            name = "h%d" % (pid - 200)
        if label == "sdb_exec":
            free = min(t for t in range(101, 101 + ntasks) if t not in spawned)
            nspawn += 1
            spawned[free] = "x%d" % nspawn
        if label == "T_end":
            spawned.pop(pid, None)
        hook = LABEL.get(label)
        if hook is None or name is None:
            continue
        if hook == "start":
            if name in started:
                continue
            started.add(name)
        if label == "ia_unlock":
            # the model's step "erase / unlock" starts where InvalidateAll has replayed the write buffer and is about to discard the entries
            steps.append({"g": name, "at": "ia.drained"})
        steps.append({"g": name, "at": hook})
    return steps


def scripts_from_sim(simdir, writers, ntasks):
    """Turn TLC -simulate behaviours into kit scripts."""
    out = []
    for fn in sorted(os.listdir(simdir)):
        labels = []
        with open(os.path.join(simdir, fn)) as f:
            for line in f:
                m = STEP_RE.match(line)
                if m:
                    labels.append((m.group(1), int(m.group(2))))
        out.append(steps_from_labels(labels, ntasks))
    return out


CEX_RE = re.compile(r"^State \d+: <(\w+)\((\d+)\) line", re.M)
# adversarial models: Drop = {site}; (site, holder kind); each must violate NoStranded
ADVERSARIAL = [("db_lock", "none"), ("db_token", "none"), ("pc", "none"), ("saw_cas", "none"), ("mt_cas", "none"),
               ("sm_maint", "getmax"), ("sm_rs", "getmax"), ("cleanup", "cleanup"), ("db_lock", "reader"), ("db_token", "cleanup"),
               ("pc", "getmax"),
               # a wrong protocol rather than a missing site: InvalidateAll erases the Required mark of a write before it unlocks
               ("ia_mark", "invalidateAll")]


def adversarial_script(work, site, kind, writers, nwrites, ntasks, workers=2):
    """TLC's shortest counterexample of the model without one re-scheduling site = the schedule that needs that site."""
    tag = "adv_%s_%s_%d_%d" % (site, kind, writers, nwrites)
    r = run_tlc_mc(work, tag, cfg_text(writers, nwrites, ntasks, kind, drop=site), workers, 600)
    r["site"], r["kind"], r["w"], r["n"] = site, kind, writers, nwrites
    labels = [(m.group(1), int(m.group(2))) for m in CEX_RE.finditer(r["out"])]
    violated = "Invariant NoStranded is violated" in r["out"]
    return r, violated, steps_from_labels(labels, ntasks)


def run_tlc_mc(work, tag, text, workers, timeout):
    path = os.path.join(work, "drain_%s.cfg" % tag)
    with open(path, "w") as f:
        f.write(text)
    r = vlib.run_tlc(work, "DrainMC", path, workers=workers, timeout=timeout, heap="8g")
    r["tag"] = tag
    return r


def run_tlc_sim(work, tag, text, num, seed):
    path = os.path.join(work, "drainsim_%s.cfg" % tag)
    with open(path, "w") as f:
        f.write(text)
    simdir = os.path.join(work, "sim_" + tag)
    os.makedirs(simdir, exist_ok=True)
    r = vlib.run_tlc(work, "DrainMC", path, workers=1, timeout=600, heap="2g",
                     simulate="file=%s/t,num=%d" % (simdir, num), extra=["-depth", "400", "-seed", str(seed)])
    return simdir, r


def run(prop, tier, replay=None):
    t0 = time.time()
    seed = vlib.seed()
    quick = tier == "quick"
    findings = vlib.load_findings()
    cov = {"states": 0, "transitions": 0, "traces_validated_against_impl": 0, "mc": [], "schedules": {}, "samples": []}
    violations, known, broken = [], [], []
    with vlib.scratch("verif-drain-") as work:
        binary = vlib.build_test_binary(work, "otter")
        ex = cf.ThreadPoolExecutor(max_workers=vlib.NCPU)
        scen = []
        if replay:
            with open(replay) as f:
                scen = json.load(f)
        else:
            # design step
            inst = [("core", 2, 1, 3, "none")] + [(k, 2, 1, 3, k) for k in ("invalidateAll", "order", "getmax", "cleanup", "reader")]
            if not quick:
                inst.append(("core2x2", 2, 2, 3, "none"))
            mc_futs = [ex.submit(run_tlc_mc, work, tag, cfg_text(w, n, t, k), 4 if quick else 8, 3000) for tag, w, n, t, k in inst]
            # schedules from the model
            nsim = 60 if quick else 600
            sim_inst = [("s_core", 2, 2, 4, "none"), ("s_ia", 2, 1, 4, "invalidateAll"), ("s_eo", 2, 1, 4, "order"),
                        ("s_gm", 2, 2, 4, "getmax"), ("s_cu", 2, 1, 4, "cleanup"), ("s_rd", 2, 2, 4, "reader"),
                        ("s_core3", 3, 1, 4, "none")]
            for i, (tag, w, n, t, k) in enumerate(sim_inst):
                simdir, r = run_tlc_sim(work, tag, cfg_text(w, n, t, k), nsim, seed * 7919 + i)
                if r["rc"] != 0 and "Finished in" not in r["out"]:
                    broken.append("TLC simulation %s failed: %s" % (tag, r["out"][-800:]))
                    continue
                for j, sc in enumerate(scripts_from_sim(simdir, w, t)):
                    hk = [] if k == "none" else [k]
                    if k == "order" and j % 2:
                        hk = ["orderbreak"]        # same protocol steps, the iteration is left early
                    scen.append({"writers": w, "writes": n, "holders": hk, "max": 2, "policy": "script",
                                 "seed": seed * 1000 + j, "script": sc, "samekey": j % 2 == 1})
            # adversarial schedules: counterexamples of the models that lack one re-scheduling / re-check site
            adv_futs = [ex.submit(adversarial_script, work, site, kind, w, n, 3) for site, kind in ADVERSARIAL
                        for (w, n) in ([(2, 1)] if (site, kind) in ADVERSARIAL[8:] else [(2, 1), (2, 2)] if quick else [(2, 1), (2, 2), (3, 1)])]
            cov["adversarial"] = []
            for fu in adv_futs:
                r, violated, sc = fu.result()
                cov["adversarial"].append({"dropped_site": r["site"], "holder": r["kind"], "violates_NoStranded": violated, "steps": len(sc),
                                           "distinct": r["distinct"]})
                if not violated or not sc:
                    continue       # this site is not needed in this instance (reported in the evidence)
                hk = [] if r["kind"] == "none" else [r["kind"]]
                for rep in range(3 if quick else 10):
                    scen.append({"writers": r["w"], "writes": r["n"], "holders": hk, "max": 2, "policy": "script",
                                 "seed": seed * 1000 + 500 + rep, "script": sc, "samekey": rep % 2 == 1, "adv": r["site"]})
            # seeded policies, all holder kinds incl. those the model groups with getmax (setmax, wsize)
            nrand = 40 if quick else 500
            kinds = [[], ["invalidateAll"], ["order"], ["getmax"], ["cleanup"], ["reader"], ["setmax"], ["wsize"],
                     ["invalidateAll", "order"], ["order", "getmax"], ["orderbreak"], ["orderbreak", "orderbreak"]]
            for hk in kinds:
                for j in range(nrand):
                    scen.append({"writers": 2 + (j % 2), "writes": 1 + (j % 3), "holders": hk, "max": 2,
                                 "policy": "pct" if j % 2 else "random", "seed": seed * 100000 + j, "script": [],
                                 "samekey": j % 4 == 3})
        # run on the real code, sharded
        nshard = min(vlib.NCPU, max(1, len(scen) // 20))
        shards = [scen[i::nshard] for i in range(nshard)]

        def one(i, part):
            inp = os.path.join(work, "in_%d.json" % i)
            outp = os.path.join(work, "out_%d.ndjson" % i)
            with open(inp, "w") as f:
                json.dump(part, f)
            rc, out = vlib.run_test_binary(binary, "TestVerifDrain", {"VERIF_IN": inp, "VERIF_OUT": outp,
                                                                       "VERIF_KEEPLOG": "1" if i == 0 else "0"}, timeout=1500)
            if rc != 0:
                raise vlib.Broken("drain driver failed:\n" + out[-3000:])
            with open(outp) as f:
                return [json.loads(x) for x in f]

        results = []
        for fu in [ex.submit(one, i, p) for i, p in enumerate(shards)]:
            results.extend(fu.result())
        if not replay:
            for fu in mc_futs:
                r = fu.result()
                cov["mc"].append({"instance": r["tag"], "distinct": r["distinct"], "generated": r["generated"], "wall_s": round(r["wall"], 1)})
                cov["states"] += r["distinct"]
                cov["transitions"] += r["generated"]
                if not vlib.tlc_ok(r):
                    broken.append("Drain model check %s: %s" % (r["tag"], r["out"][-1500:]))
        ex.shutdown()
    nscript = sum(1 for r in results if r["sc"]["policy"] == "script")
    drift = sum(r["drift"] for r in results if r["sc"]["policy"] == "script")
    steps = sum(r["scriptn"] for r in results if r["sc"]["policy"] == "script")
    cov["traces_validated_against_impl"] = len(results)
    cov["schedules"] = {"from_tlc_behaviours": nscript, "seeded_random_pct": len(results) - nscript,
                        "script_steps": steps, "script_steps_not_followed": drift,
                        "hook_arrivals": sum(r["steps"] for r in results), "watchdog_blocks": sum(r["blocked"] for r in results),
                        "deadlock_or_limit": sum(1 for r in results if r["diag"])}
    for r in results:
        if r.get("log") and len(cov["samples"]) < 2:
            cov["samples"].append({"scenario": {k: r["sc"][k] for k in ("writers", "writes", "holders", "policy")},
                                   "first_hook_arrivals": r["log"][:25], "final": {k: r[k] for k in ("status", "wbuf", "na", "nd", "size")}})
    if not cov["samples"]:
        cov["samples"] = [{"note": "no log kept"}]
    if nscript and steps and drift >= steps:
        broken.append("no model-derived schedule step could be followed on the real code: Drain.tla is out of date")
    for r in results:
        if r["diag"]:
            # a goroutine that never finishes is itself a stranding only if the audit fails; report as no-verdict otherwise
            vlib.log("note: run ended with", r["diag"])
        if r["stranded"] != 1:
            continue
        sig = {"holders": ",".join(sorted(r["sc"]["holders"])), "field": "stranded"}
        fd = vlib.match_finding(findings, prop, sig)
        if fd:
            known.append((fd, r))
            continue
        sc = dict(r["sc"])
        path = vlib.save_replay(prop, "drain-%s-%s-%d" % (sc["policy"], "-".join(sc["holders"]) or "core", sc["seed"]), [sc])
        violations.append((r, path))
    # the overflow fallback (write buffer full: the writer runs the maintenance itself and hands it its own event): small write buffer,
    # foreign holder of the eviction mutex; audited before any further call (WRAudit.tla: C14.bound_restored_only_by_a_further_call)
    fallback_viol = []
    if not replay:
        import wrcheck
        wcov, wviol, wbroken = wrcheck.run("C14", tier, None, collect_only=True)
        cov["overflow_fallback_audits"] = wcov["traces_validated_against_impl"]
        cov["traces_validated_against_impl"] += wcov["traces_validated_against_impl"]
        broken += wbroken
        fallback_viol = wviol
    printed = set()
    for fd, r in known:
        if fd["id"] not in printed:
            printed.add(fd["id"])
            print("KNOWN-FINDING: property=%s %s (%s)" % (prop, fd["id"], fd["title"]))
    cov["explanation"] = ("states/transitions: TLC totals for the Drain.tla instances in 'mc' (NoStranded, LockFreeAtEnd hold); "
                          "traces_validated_against_impl: scenarios executed on the real cache under the gate scheduler and audited")
    vlib.write_evidence(prop, tier, "model_checking", cov, time.time() - t0, violations=len(violations) + len(fallback_viol),
                        assumptions=["goroutines are serialised at hook granularity; races inside a step are not explored",
                                     "task pool of the model bounded (CONSTRAINT PoolOK)",
                                     "default executor, size-only cache (no periodic clean-up goroutine)"])
    if fallback_viol:
        for x, sc, path in fallback_viol[:10]:
            print("VIOLATION property=%s replay=%s" % (prop, path))
            vlib.log("  %s: %s" % (x["pred"], str(x["detail"])[:300]))
        return 1
    if broken:
        for b in broken:
            vlib.log("BROKEN:", b)
        if not violations:       # (what the working parts observed on the real code stands: a violation is reported even if another part broke)
            return 2
    if violations:
        for r, path in violations[:10]:
            print("VIOLATION property=%s replay=%s" % (prop, path))
            vlib.log("  stranded: status=%s wbuf=%s atomic=%s delivered=%s size=%s max=%s holders=%s policy=%s" %
                     (r["status"], r["wbuf"], r["na"], r["nd"], r["size"], r["max"], r["sc"]["holders"], r["sc"]["policy"]))
        return 1
    return 0
