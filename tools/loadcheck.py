"""C08 C09: LoadRace.tla model-checked (NoOverlap, CleanTable, Returned, JoinersShare, NoStaleInstall, termination) +
gate-scheduled races of Get/BulkGet/Refresh against writers on the real cache; histories judged by LoadHist.tla."""
import concurrent.futures as cf
import json
import os
import time

import vlib

WK = {("set", "invalidate"): "WK_two", ("set",): "WK_set", ("invalidate",): "WK_inv", ("evict",): "WK_ev"}


def lr_cfg(getters, refreshers, writers, wk, live, preload=False, expected="live", stale_cancels=False, window=True, reg_locked=True, fail_clears="own",
           outcomes='"val", "err", "nf", "panic"', dead=False, sweep_cancels=False):
    return ("SPECIFICATION Spec\nCONSTANTS\n Getters = {%s}\n Refreshers = {%s}\n Writers = {%s}\n WriterKind <- %s\n"
            " Outcomes = {%s}\n Preload = %s\n Expected = %s\n StaleCancels = %s\n RegLocked = %s\n FailClears = \"%s\"\n Dead = %s\n SweepCancels = %s\n"
            "INVARIANTS NoOverlap CleanTable Returned JoinersShare NoStaleInstall NoDrop LockFree%s\n%s" %
            (", ".join(map(str, getters)), ", ".join(map(str, refreshers)), ", ".join(map(str, writers)), wk, outcomes,
             "TRUE" if preload else "FALSE", '"%s"' % expected, "TRUE" if stale_cancels else "FALSE", "TRUE" if reg_locked else "FALSE", fail_clears, "TRUE" if dead else "FALSE", "TRUE" if sweep_cancels else "FALSE",
             " NoWindowInstall" if window else "",
             "PROPERTIES Terminates\n" if live else ""))


def run_mc(work, tag, text, workers, timeout=3000):
    path = os.path.join(work, "lr_%s.cfg" % tag)
    with open(path, "w") as f:
        f.write(text)
    r = vlib.run_tlc(work, "LoadRaceMC", path, workers=workers, timeout=timeout, heap="8g")
    r["tag"] = tag
    return r


import re
_LR_STEP = re.compile(r"^\\\* <(\w+)\((\d+)\) line")
_LR_VAL = re.compile(r"^/\\ val = (\d+)\s*$")
_LR_OUT = re.compile(r"^/\\ outcome = \((.*)\)\s*$")


def scripts_from_lr_sim(simdir, getters, refreshers, writers, kinds, preload):
    """TLC -simulate behaviours of LoadRace.tla -> scenarios with a kit script (binding B2).  A label is executed by releasing the
    goroutine from the gate it is parked at BEFORE that step (see the header of LoadRace.tla)."""
    out = []
    gname = {p: "g%d" % (i + 1) for i, p in enumerate(getters)}
    rname = {p: "r%d" % (i + 1) for i, p in enumerate(refreshers)}
    wname = {p: "w%d" % (i + 1) for i, p in enumerate(writers)}
    for fn in sorted(os.listdir(simdir)):
        steps, order, outc, nx, actor, passed = [], [], {}, 0, {}, set()
        val = 50 if preload else 0       # value of the key in the state BEFORE the step being read
        last = None
        with open(os.path.join(simdir, fn)) as f:
            for line in f:
                m = _LR_STEP.match(line)
                if m:
                    last = (m.group(1), int(m.group(2)))
                    lab, p = last
                    if lab == "lookup":
                        if p in gname:
                            actor[p] = gname[p]
                            steps.append({"g": gname[p], "at": "start"})
                        else:
                            actor[p] = "x" + rname[p]       # the reload runs on a goroutine of the executor, named after its caller
                            steps.append({"g": rname[p], "at": "start"})
                    elif lab == "start" and p in gname:
                        passed.add(p)
                        steps.append({"g": gname[p], "at": "get.afterLookup"})
                    elif lab == "start":
                        steps.append({"g": actor[p], "at": "start"})          # the executor goroutine registers the reload
                    elif lab == "finish" and p in gname and p not in passed:
                        passed.add(p)
                        steps.append({"g": gname[p], "at": "get.afterLookup"})   # the hit path returns from here
                    elif lab == "ldEnter":
                        order.append(p)
                        steps.append({"g": actor[p], "at": "ld.enter"})
                    elif lab == "ldExit":
                        steps.append({"g": actor[p], "at": "ld.exit"})
                    elif lab == "install":
                        steps.append({"g": actor[p], "at": "ld.beforeInstall"})
                    elif lab == "release":
                        steps.append({"g": actor[p], "at": "ld.afterInstall"})
                    elif lab == "w_cancel":
                        steps.append({"g": wname[p], "at": "start"})
                    elif lab == "w_store":
                        if val != 0:
                            steps.append({"g": wname[p], "at": "h.atomic"})  # the atomic deletion handler: a value is removed / replaced
                        steps.append({"g": wname[p], "at": "set.afterCompute" if kinds[p] == "set" else "inv.afterCompute"})
                    continue
                mv = _LR_VAL.match(line)
                if mv:
                    val = int(mv.group(1))
                    continue
                m = _LR_OUT.match(line)
                if m and last and last[0] == "ldExit":
                    for pid, o in re.findall(r'(\d+) :> "(\w+)"', m.group(1)):
                        if int(pid) == last[1]:
                            outc[int(pid)] = o
        if not steps:
            continue
        out.append({"getters": len(getters), "bulk": 0, "refreshers": len(refreshers), "writers": [kinds[w] for w in writers],
                    # (a panicking reload on an executor goroutine takes the goroutine down by design: replayed as an error)
                    "preload": 1 if preload else 0, "outcomes": ["val"],
                    # (when the real run drifts from the script the i-th run may be another caller's: no panics at all with refreshers)
                    "outseq": [("err" if (rname and outc.get(p) == "panic") else outc.get(p, "val")) for p in order], "policy": "script",
                    "seed": 0, "script": steps, "refresh": 1 if (refreshers or preload) else 0, "bulkkeys": 2, "hgate": 1, "bulkref": 0, "inloader": [], "expiry": 0})
    return out


def lr_sim(work, tag, text, num, seed):
    path = os.path.join(work, "lrsim_%s.cfg" % tag)
    with open(path, "w") as f:
        f.write(text)
    simdir = os.path.join(work, "lrsim_" + tag)
    os.makedirs(simdir, exist_ok=True)
    r = vlib.run_tlc(work, "LoadRaceMC", path, workers=1, timeout=600, heap="2g",
                     simulate="file=%s/t,num=%d" % (simdir, num), extra=["-depth", "200", "-seed", str(seed)])
    return simdir, r


def scenarios_c11(quick, seed):
    """asynchronous-executor half of C11: refreshes / stale reads of a preloaded entry, mostly without writers"""
    n = 120 if quick else 6000
    out = []
    for j in range(n):
        outs = [["val"], ["err"], ["nf"], ["val", "err"], ["val", "nf", "err"]][j % 5]
        out.append({"getters": j % 3, "bulk": (j // 3) % 2 if j % 4 == 0 else 0, "refreshers": 1 + (j // 2) % 3, "writers": [] if j % 4 else [["set"], ["invalidate"], ["compute"]][(j // 4) % 3],
                    "preload": 1, "outcomes": outs, "policy": "random" if j % 2 else "pct", "seed": seed * 100000 + 50000 + j, "script": [], "refresh": 1, "bulkkeys": 2, "hgate": 0, "bulkref": 0, "inloader": [], "expiry": 0})
        if j % 6 == 5:
            # the entry is due for refresh when the race starts: reads return the old value and hand a reload to the executor; the refresh
            # calculator's reload hook is a gate, so other readers run while the reloaded value is being installed
            out[-1].update(getters=3, bulk=0, refreshers=0, writers=[], outcomes=["val"], stale=1, policy=["random", "pct"][(j // 6) % 2] + "+atcalc")
        if j % 6 == 3:
            # nothing is due (refresh an hour after the write, frozen clock, no explicit Refresh): readers race writers of the same key - a reader
            # that looked the entry up just before it was replaced must not take the retired node for a stale entry
            out[-1].update(getters=2 + (j // 6) % 2, bulk=0, refreshers=0, outcomes=["val"], writers=[["set"], ["set", "set"], ["compute"], ["set", "compute"]][(j // 12) % 4],
                           policy=["random", "pct"][(j // 6) % 2])
        if j % 6 == 1:
            # writers that write nothing (a SetIfAbsent that finds the preloaded key present, a computation that cancels itself) run while
            # the reload is in flight: the reload is not disturbed, its result must replace the value before it is delivered
            out[-1].update(getters=j % 2, bulk=0, refreshers=1 + (j // 12) % 2, outcomes=["val"],
                           writers=[["setifabsent"], ["computecancel"], ["setifabsent", "computecancel"], ["computecancel", "computecancel"]][(j // 6) % 4],
                           policy=["random", "pct"][(j // 6) % 2] + "+inflight")
    return out


def scenarios_c10(quick, seed):
    """concurrent half of C10: BulkGet / Get whose flights are shared, all loader outcomes"""
    n = 96 if quick else 2000
    out = []
    for j in range(n):
        out.append({"getters": 1 + j % 3, "bulk": 1 + (j // 3) % 2, "refreshers": 0, "writers": [], "preload": 0,
                    "outcomes": [["nf"], ["val", "nf"], ["nf", "err"], ["val"]][j % 4], "policy": ["random", "pct", "random+inflight", "pct+inflight"][j % 4],
                    "seed": seed * 100000 + 60000 + j, "script": [], "refresh": 0, "bulkkeys": 1 + (j // 6) % 2, "hgate": 0, "bulkref": 0, "inloader": [], "expiry": 0})
        if j % 8 == 5:
            # a computation that cancels itself is not a write: the flight is not disturbed and the value it loads must be cached
            out[-1].update(getters=2, bulk=0, writers=[["computecancel"], ["computecancel", "computecancel"]][(j // 8) % 2], outcomes=["val"],
                           policy=["random", "pct"][(j // 8) % 2] + "+inflight")
        if j % 8 == 3:
            # F24: the key holds an expired entry that has not been removed yet; the load that is started because of it is in flight
            # while a maintenance run removes the dead node (not a write): the loaded value must be cached
            out[-1].update(getters=1 + (j // 8) % 2, bulk=0, writers=[["sweep"], ["computecancel"], ["sweep", "sweep"], ["computecancel", "sweep"]][(j // 16) % 4], outcomes=["val"], dead=1, expiry=1,
                           policy=["random", "pct", "random", "pct"][(j // 8) % 4] + ["+inflight", "+inflight", "", "+atinstall"][(j // 8) % 4])
    return out


def scenarios(prop, quick, seed):
    if prop == "C11":
        return scenarios_c11(quick, seed)
    if prop == "C10":
        return scenarios_c10(quick, seed)
    if prop == "C20":
        # concurrent tallies of the load statistics: shared flights (BulkGet / Get joiners), refreshes, all loader outcomes
        return scenarios_c10(quick, seed) + scenarios_c11(quick, seed)[: (40 if quick else 1000)]
    n = 320 if quick else 20000
    kinds = [["set"], ["invalidate"], ["compute"], ["evict"], ["set", "invalidate"], ["setifabsent"], ["invalidateAll"], [],
             ["compute", "set"], ["invalidate", "invalidate"], ["setifabsent", "setifabsent"], ["computeinv"], ["computeinv", "computeinv"]]
    out = []
    for j in range(n):
        refreshers = [0, 1, 0, 2][(j // 2) % 4]
        refresh = 1 if (refreshers or j % 3 == 0) else 0
        outs = [["val"], ["val", "err", "nf"], ["val", "nf", "err", "val"]][j % 3]
        if not refreshers and not refresh and j % 5 == 0:
            outs = outs + ["panic"]
        sc = {"getters": 1 + j % 3, "bulk": (j // 3) % 2, "refreshers": refreshers, "writers": kinds[j % len(kinds)],
              "preload": (j // 4) % 2 if refresh else 0, "outcomes": outs, "policy": "random" if j % 2 else "pct",
              "seed": seed * 100000 + j, "script": [], "refresh": refresh, "bulkkeys": 2, "hgate": 0, "bulkref": 0, "inloader": [], "expiry": 0}
        fam = j % 8
        if fam in (1, 5):      # waiters joined to a failing / not-found / panicking bulk or single load
            sc.update(getters=2 + j % 2, bulk=1 if fam == 1 else 0, refreshers=0, refresh=0, preload=0, writers=[],
                      outcomes=[["err"], ["nf"], ["panic"], ["val", "err"]][(j // 8) % 4])
        elif fam == 3:         # two refreshes of a present entry with a writer that may be a no-op
            sc.update(getters=j % 2, bulk=0, refreshers=2, refresh=1, preload=1, outcomes=[["val"], ["val", "err"], ["nf", "val"]][(j // 8) % 3],
                      writers=[["setifabsent"], ["set"], ["setifabsent", "setifabsent"], ["invalidate"], ["compute"]][(j // 8) % 5])
        elif fam == 6:         # a reload of a present entry while the entry is removed wholesale (InvalidateAll) or by eviction
            sc.update(getters=(j // 8) % 2, bulk=0, refreshers=1 + (j // 16) % 2, refresh=1, preload=1, outcomes=[["val"], ["val", "val", "err"]][(j // 8) % 2],
                      writers=[["invalidateAll"], ["invalidateAll", "set"], ["evict"], ["invalidate"], ["invalidateAll", "invalidateAll"]][(j // 8) % 5])
            if set(sc["writers"]) == {"invalidateAll"} and (j // 16) % 2 == 0:
                # the same on a plain cache (no bound, no expiry, no handlers): code paths that exist only there
                sc.update(bare=1, getters=0, outcomes=["val"], policy=sc["policy"].split("+")[0] + "+inflight")
        elif fam == 7:         # BulkGet callers whose missing keys are all in flight elsewhere (they must wait for the joined loads)
            sc.update(getters=1 + j % 2, bulk=2, bulkkeys=1 + (j // 8) % 2, refreshers=0, refresh=0, preload=0, writers=[],
                      outcomes=[["val"], ["val", "nf"], ["val", "err"]][(j // 16) % 3])
            if (j // 8) % 2 == 1:
                # the bulk loader fetches "the whole page": a key that is in flight elsewhere comes back as an extra of the caller's own load
                sc.update(extra=1, bulk=1, bulkkeys=2, outcomes=["val"], policy=sc["policy"].split("+")[0] + "+inflight")
        if fam == 0:
            # the write happens inside the loader itself (user code): a whole call between the start of the load and its installation
            sc.update(getters=1 + (j // 16) % 2, bulk=0, refreshers=(j // 32) % 2, refresh=(j // 32) % 2, preload=(j // 32) % 2, writers=[], outcomes=[["val"], ["nf"], ["val"], ["err"]][(j // 8) % 4],
                      inloader=[["set"], ["invalidate"], ["compute"], ["computeinv"], ["invalidateAll"], ["set", "invalidate"]][(j // 16) % 6])
        if fam == 5 and (j // 8) % 2 == 0:
            # failing loads with joiners, the completion step stalled: late callers must load afresh
            sc.update(getters=3, bulk=0, refreshers=0, refresh=0, preload=0, writers=[], outcomes=["err"], policy=sc["policy"].split("+")[0] + "+atinstall")
        if fam == 0 and (j // 8) % 5 == 4:
            # the entry written during the load has expired (unswept) by the time the load completes: the load must stay cancelled
            sc.update(getters=1, bulk=0, refreshers=0, refresh=0, preload=0, writers=[], outcomes=["val"], expiry=1,
                      inloader=[["set", "advance"], ["compute", "advance"], ["setifabsent", "advance"]][(j // 40) % 3])
        if fam == 2 and (j // 8) % 4 == 3 and prop == "C09":
            # the key holds an EXPIRED, not yet removed entry; the load started because of it is in flight while the key is explicitly
            # invalidated / written: an explicit invalidation cancels the load although it finds only a dead node (seeded C09l)
            sc.update(getters=1 + (j // 32) % 2, bulk=0, refreshers=0, refresh=0, preload=0, dead=1, expiry=1, outcomes=["val"], bulkref=0,
                      writers=[["invalidate"], ["computeinv"], ["invalidate", "invalidate"], ["set"], ["invalidate"], ["invalidate", "sweep"]][(j // 32) % 6],
                      policy=["random", "pct"][(j // 64) % 2] + ["+inflight", "+atinstall"][(j // 128) % 2])
            refresh = 0
        if fam == 5 and (j // 8) % 2 == 1:
            # a computation that cancels itself is not a write: it must not disturb the flight (no second loader run, value cached)
            sc.update(getters=2 + j % 2, bulk=0, refreshers=0, refresh=0, preload=0, outcomes=["val"], writers=[["computecancel"], ["computecancel", "computecancel"]][(j // 16) % 2],
                      policy=sc["policy"].split("+")[0] + "+inflight")
        if fam == 2 and (j // 8) % 4 == 1 and prop == "C08":
            # the counterexample TLC finds on LoadRace.tla with FailClears = "any" (a failed load removes whatever record is registered):
            # load 1 is in flight and has failed, the key is invalidated, load 2 registers, load 1 completes, a third caller arrives
            sc.update(getters=3, bulk=0, refreshers=0, refresh=0, preload=0, outcomes=["val"], outseq=["err", "val", "val"], writers=["invalidate"], policy="script",
                      # (the second and third caller are called after the invalidation has returned, so that nothing excuses the overlap)
                      script=[{"g": "g1", "at": "start"}, {"g": "g1", "at": "get.afterLookup"}, {"g": "g1", "at": "ld.enter"}, {"g": "g1", "at": "ld.exit"},
                              {"g": "w1", "at": "start"}, {"g": "w1", "at": "inv.afterCompute"}, {"g": "g2", "at": "start"}, {"g": "g2", "at": "get.afterLookup"},
                              {"g": "g1", "at": "ld.beforeInstall"}, {"g": "g3", "at": "start"}, {"g": "g3", "at": "get.afterLookup"},
                              {"g": "g2", "at": "ld.enter"}, {"g": "g3", "at": "ld.enter"}])
        if fam == 2 and refresh and (j // 8) % 2 and sc["policy"] != "script":
            sc.update(bulkref=1 + (j // 16) % 2)
        if fam == 4 and (j // 8) % 4 == 0 and prop == "C09":
            # F17 (fixed by 1a4f8c2; kept as a regression): the schedule TLC found on LoadRace.tla (NoWindowInstall) - a reload registered while an
            # invalidation of the key is between clearing the in-flight record and publishing the removal; the user's
            # atomic deletion handler runs exactly there and is the gate
            sc.update(getters=0, bulk=0, refreshers=1, refresh=1, preload=1, outcomes=["val"], writers=["invalidate"], policy="script", hgate=1,
                      script=[{"g": "w1", "at": "start"}, {"g": "r1", "at": "start"}, {"g": "xr1", "at": "start"},
                              {"g": "xr1", "at": "ld.enter"}, {"g": "xr1", "at": "ld.exit"}, {"g": "xr1", "at": "ld.beforeInstall"},
                              {"g": "w1", "at": "h.atomic"}])
            if (j // 32) % 2 == 1:
                # the same window for the other place that registers reloads: BulkRefresh (key 2 is loaded first, then key 1 reloaded)
                x = "xq1"
                sc.update(refreshers=0, bulkref=1,
                          script=[{"g": "w1", "at": "start"}, {"g": "q1", "at": "start"}, {"g": x, "at": "start"},
                                  {"g": x, "at": "ld.enter"}, {"g": x, "at": "ld.exit"}, {"g": x, "at": "ld.beforeInstall"}, {"g": x, "at": "ld.afterInstall"},
                                  {"g": x, "at": "ld.enter"}, {"g": x, "at": "ld.exit"}, {"g": x, "at": "ld.beforeInstall"},
                                  {"g": "w1", "at": "h.atomic"}])
        elif sc["writers"] and "+" not in sc["policy"] and sc["policy"] != "script":
            # half of the racing scenarios are biased towards the two windows the properties name
            sc["policy"] += ["", "+inflight", "+atinstall", "+inflight"][(j // 8) % 4]
        out.append(sc)
    return out


def run(prop, tier, replay=None, collect_only=False):
    t0 = time.time()
    seed = vlib.seed()
    quick = tier == "quick"
    findings = vlib.load_findings()
    cov = {"states": 0, "transitions": 0, "traces_validated_against_impl": 0, "mc": [], "samples": [], "predicates_failed": {}}
    violations, known, broken = [], [], []
    with vlib.scratch("verif-load-") as work:
        binary = vlib.build_test_binary(work, "otter")
        ex = cf.ThreadPoolExecutor(max_workers=vlib.NCPU)
        mc_futs = []
        if replay:
            with open(replay) as f:
                scen = json.load(f)
        else:
            inst = [("g1r1w2", lr_cfg([1], [3], [11, 12], "WK_two", True)), ("g1r1w2p", lr_cfg([1], [3], [11, 12], "WK_two", True, preload=True)),
                    ("g2w1ev", lr_cfg([1, 2], [], [11], "WK_ev", True)), ("g1r1stale", lr_cfg([1], [3], [11, 12], "WK_set_stale", True, preload=True))]
            # the switches set the old way must violate (otherwise the invariants are vacuous): F14, F17, F16
            neg = [("neg_F14", lr_cfg([1], [], [11], "WK_set", False, expected="none", reg_locked=False), "NoWindowInstall"),
                   ("neg_F17", lr_cfg([1], [3], [11], "WK_inv", False, preload=True, reg_locked=False), "NoWindowInstall"),
                   ("neg_F16", lr_cfg([1], [], [11], "WK_stale", False, stale_cancels=True), "NoDrop"),
                   ("neg_failclears", lr_cfg([1, 2, 3], [], [11], "WK_inv", False, fail_clears="any", outcomes='"val", "err"')
                    .replace("INVARIANTS NoOverlap CleanTable Returned JoinersShare NoStaleInstall NoDrop LockFree NoWindowInstall", "INVARIANTS NoOverlap"), "NoOverlap")]
            if prop == "C09":
                inst.append(("g2deadinv", lr_cfg([1, 2], [], [11, 12], "WK_sweep_inv", True, dead=True)))
            if prop == "C11":
                inst = [("g1r2w1", lr_cfg([1], [3, 4], [11], "WK_set", True, preload=True))]
                neg = []
            elif prop == "C10":
                # F24: the removal of an expired, not yet removed entry while the load started because of it is in flight
                inst = [("g2sweep", lr_cfg([1, 2], [], [11, 12], "WK_sweep_set", True, dead=True)), ("g2cancel", lr_cfg([1, 2], [], [11, 12], "WK_cancel_sweep", True, dead=True))]
                neg = [("neg_F24", lr_cfg([1, 2], [], [11], "WK_sweep", False, dead=True, sweep_cancels=True), "NoDrop"),
                       ("neg_F24cancel", lr_cfg([1, 2], [], [11], "WK_cancel", False, dead=True, sweep_cancels=True), "NoDrop")]
                if not quick:
                    inst += [("g2r1sweep", lr_cfg([1, 2], [3], [11, 12], "WK_sweep_set", True, dead=True)), ("g2r1sweepinv", lr_cfg([1, 2], [3], [11, 12], "WK_sweep_inv", True, dead=True))]
            elif prop == "C20":
                inst, neg = [], []
            elif not quick:
                inst += [("g1r2w2p", lr_cfg([1], [3, 4], [11, 12], "WK_two", False, preload=True)), ("g2r1w1", lr_cfg([1, 2], [3], [11], "WK_set", False)),
                         ("g2r1w1inv", lr_cfg([1, 2], [3], [11], "WK_inv", False, preload=True))]
            neg_futs = [(ex.submit(run_mc, work, tag, txt, 2), inv) for tag, txt, inv in neg]
            mc_futs = [ex.submit(run_mc, work, tag, txt, 6 if quick else 8) for tag, txt in inst]
            scen = scenarios(prop, quick, seed)
            if prop in ("C08", "C09"):
                # B2: behaviours of LoadRace.tla (the model of the current code) replayed as schedules on the real cache
                nsim = 40 if quick else 400
                kinds2 = {11: "set", 12: "invalidate"}
                for i, (tag, g, rf, pre) in enumerate([("g2r1", [1, 2], [3], False), ("g1r1p", [1], [3], True), ("g2", [1, 2], [], False)]):
                    txt = lr_cfg(g, rf, [11, 12], "WK_two", False, preload=pre).replace("INVARIANTS NoOverlap CleanTable Returned JoinersShare NoStaleInstall NoDrop LockFree", "INVARIANTS NoOverlap")
                    simdir, r = lr_sim(work, tag, txt, nsim, seed * 7919 + i)
                    if r["rc"] != 0 and "Finished in" not in r["out"]:
                        broken.append("TLC simulation of LoadRace %s failed: %s" % (tag, r["out"][-800:]))
                        continue
                    ss = scripts_from_lr_sim(simdir, g, rf, [11, 12], kinds2, pre)
                    for j, sc in enumerate(ss):
                        sc["seed"] = seed * 1000 + 700 + j
                    scen += ss
        nshard = min(vlib.NCPU, max(1, len(scen) // 10))
        shards = [scen[i::nshard] for i in range(nshard)]

        def one(i, part):
            inp = os.path.join(work, "in_%d.json" % i)
            outp = os.path.join(work, "out_%d.ndjson" % i)
            devp = os.path.join(work, "dev_%d.json" % i)
            with open(inp, "w") as f:
                json.dump(part, f)
            rc, out = vlib.run_test_binary(binary, "TestVerifLoad", {"VERIF_IN": inp, "VERIF_OUT": outp}, timeout=1500)
            if rc != 0:
                raise vlib.Broken("load driver failed:\n" + out[-3000:])
            r = vlib.run_tlc(work, "LoadHist", os.path.join(vlib.SPEC, "LoadHist.cfg"), workers=1, timeout=900, heap="3g",
                             env_extra={"VERIF_TRACE": outp, "VERIF_DEVOUT": devp})
            if not vlib.tlc_ok(r) or not os.path.exists(devp):
                raise vlib.Broken("LoadHist did not complete:\n" + r["out"][-2500:])
            with open(devp) as f:
                d = json.load(f)
            with open(outp) as f:
                recs = [json.loads(x) for x in f]
            return part, recs, d

        for fu in [ex.submit(one, i, p) for i, p in enumerate(shards)]:
            part, recs, d = fu.result()
            cov["traces_validated_against_impl"] += d["n"]
            if recs and len(cov["samples"]) < 2:
                cov["samples"].append({"scenario": {k: v for k, v in recs[0]["sc"].items() if k != "script"},
                                       "events": sorted(recs[0]["events"], key=lambda e: e["seq"])[:30], "final": recs[0]["final"]})
            sch = cov.setdefault("schedules", {"from_tlc_behaviours": 0, "script_steps": 0, "script_steps_not_followed": 0})
            for r in recs:
                if r["sc"]["policy"] == "script" and r["sc"].get("outseq") is not None and r["scriptn"] > 8:
                    sch["from_tlc_behaviours"] += 1
                    sch["script_steps"] += r["scriptn"]
                    sch["script_steps_not_followed"] += r["drift"]
            seen = set()
            for x in d["devs"]:
                cov["predicates_failed"][x["pred"]] = cov["predicates_failed"].get(x["pred"], 0) + 1
                if not x["pred"].startswith(prop + "."):
                    continue
                sc = part[x["rec"] - 1]
                fd = vlib.match_finding(findings, prop, {"pred": x["pred"]})
                if fd:
                    known.append((fd, x))
                    continue
                if x["rec"] in seen:
                    continue
                seen.add(x["rec"])
                path = vlib.save_replay(prop, "load-%s-%d" % (sc["policy"], sc["seed"]), [sc])
                violations.append((x, sc, path))
        for fu, inv in (neg_futs if not replay else []):
            r = fu.result()
            hit = ("Invariant %s is violated" % inv) in r["out"]
            cov.setdefault("switches_that_must_violate", []).append({"instance": r["tag"], "invariant": inv, "violated": hit})
            if not hit:
                broken.append("LoadRace %s: %s is not violated although the switch is set the old way (vacuous invariant?)" % (r["tag"], inv))
        for fu in mc_futs:
            r = fu.result()
            cov["mc"].append({"instance": r["tag"], "distinct": r["distinct"], "generated": r["generated"], "wall_s": round(r["wall"], 1)})
            cov["states"] += r["distinct"]
            cov["transitions"] += r["generated"]
            if not vlib.tlc_ok(r):
                broken.append("LoadRace model check %s: %s" % (r["tag"], r["out"][-1500:]))
        ex.shutdown()
    if not cov["samples"]:
        cov["samples"] = [{"note": "replay"}]
    if collect_only:
        return cov, violations, broken
    printed = set()
    for fd, x in known:
        if fd["id"] not in printed:
            printed.add(fd["id"])
            print("KNOWN-FINDING: property=%s %s (%s)" % (prop, fd["id"], fd["title"]))
    cov["explanation"] = ("states/transitions: TLC totals for LoadRace.tla instances; traces_validated_against_impl: histories of the "
                          "real cache (gate-scheduled) judged by LoadHist.tla")
    vlib.write_evidence(prop, tier, "model_checking", cov, time.time() - t0, violations=len(violations),
                        assumptions=["one contended key (plus one bulk companion key)", "recovering asynchronous executor",
                                     "panicking loaders only where no reload runs on the executor (the default executor would crash the process)"])
    if broken:
        for b in broken:
            vlib.log("BROKEN:", b)
        if not violations:       # (what the working parts observed on the real code stands: a violation is reported even if another part broke)
            return 2
    if violations:
        for x, sc, path in violations[:10]:
            print("VIOLATION property=%s replay=%s" % (prop, path))
            vlib.log("  %s: %s" % (x["pred"], x["detail"][:400]))
        return 1
    return 0
