"""Shared machinery of the /verif checks: scratch dirs, Go overlay builds, TLC runs,
findings, evidence.  Standard library only."""
import contextlib
import json
import os
import re
import shutil
import subprocess
import sys
import tempfile
import time

VERIF = os.path.dirname(os.path.dirname(os.path.abspath(__file__)))
REPO = os.environ.get("VERIF_REPO", "/repo")
SPEC = os.path.join(VERIF, "spec")
HARNESS = os.path.join(VERIF, "harness")
# evidence and replays of /verif belong to runs against /repo itself; runs pointed at another tree
# (seeded changes in a scratch worktree) write theirs next to that tree
_ALT = os.environ.get("VERIF_REPO") not in (None, "", "/repo")
EVIDENCE = os.path.join(VERIF, "evidence") if not _ALT else os.path.join(tempfile.gettempdir(), "verif-alt", "evidence")
REPLAYS = os.path.join(VERIF, "replays") if not _ALT else os.path.join(tempfile.gettempdir(), "verif-alt", "replays")
TLA_JAR = "/opt/veriftools/tla/tla2tools.jar"
TLA_CP = TLA_JAR + ":/opt/veriftools/tla/CommunityModules-deps.jar"
NCPU = os.cpu_count() or 4

# harness directory -> package directory inside the repository
PKG_DIRS = {
    "otter": ".",
    "hashmap": "internal/hashmap",
    "queue": "internal/deque/queue",
    "lossy": "internal/lossy",
    "expiration": "internal/expiration",
    "kit": "internal/verifkit",
}


class Broken(Exception):
    """The machinery could not reach a verdict (exit 2, never a violation)."""


def seed():
    try:
        return int(os.environ.get("VERIF_SEED", "1"))
    except ValueError:
        return 1


@contextlib.contextmanager
def scratch(prefix="verif-"):
    base = os.environ.get("VERIF_SCRATCH") or tempfile.gettempdir()
    d = tempfile.mkdtemp(prefix=prefix, dir=base)
    try:
        yield d
    finally:
        shutil.rmtree(d, ignore_errors=True)


def go_env():
    env = dict(os.environ)
    env["GOFLAGS"] = "-mod=mod"
    env["GOPROXY"] = "off"
    env.pop("GOSUMDB", None)
    env.pop("GOTOOLCHAIN", None)  # repository needs the cached go1.24 toolchain via auto
    env.setdefault("GOCACHE", os.path.expanduser("~/.cache/go-build"))
    return env


def write_overlay(work, repo=None):
    """Map every harness/<pkg>/*.go into the matching package of the repository."""
    repo = repo or REPO
    repl = {}
    for hdir, pdir in PKG_DIRS.items():
        src = os.path.join(HARNESS, hdir)
        if not os.path.isdir(src):
            continue
        for fn in sorted(os.listdir(src)):
            if fn.endswith(".go"):
                repl[os.path.normpath(os.path.join(repo, pdir, fn))] = os.path.join(src, fn)
    path = os.path.join(work, "overlay.json")
    with open(path, "w") as f:
        json.dump({"Replace": repl}, f)
    return path


def build_test_binary(work, pkg, repo=None, tags="verif", race=False):
    """go test -c for one repository package with the harness overlaid. Returns the binary path."""
    repo = repo or REPO
    ov = write_overlay(work, repo)
    out = os.path.join(work, pkg + ".test")
    cmd = ["go", "test", "-c", "-vet=off", "-overlay", ov, "-o", out]
    if tags:
        cmd += ["-tags", tags]
    if race:
        cmd += ["-race"]
    cmd += ["./" + PKG_DIRS[pkg]]
    p = subprocess.run(cmd, cwd=repo, env=go_env(), stdout=subprocess.PIPE, stderr=subprocess.STDOUT, text=True)
    if p.returncode != 0 or not os.path.exists(out):
        raise Broken("go test -c failed for %s:\n%s" % (pkg, p.stdout[-4000:]))
    return out


def run_test_binary(binary, run, env_extra, timeout=600, cwd=None):
    env = go_env()
    env.update({k: str(v) for k, v in env_extra.items()})
    cmd = [binary, "-test.run", "^" + run + "$", "-test.count=1", "-test.timeout", "%ds" % timeout]
    try:
        p = subprocess.run(cmd, cwd=cwd or os.path.dirname(binary), env=env, stdout=subprocess.PIPE,
                           stderr=subprocess.STDOUT, text=True, timeout=timeout + 30)
    except subprocess.TimeoutExpired as e:
        raise Broken("driver %s timed out: %s" % (run, (e.stdout or "")[-2000:]))
    return p.returncode, p.stdout


# ------------------------------------------------------------------ TLC

TLC_RE_STATES = re.compile(r"(\d+) states generated, (\d+) distinct states found")


def run_tlc(work, module, cfg, workers=None, env_extra=None, timeout=900, extra=None, heap="6g",
            deque=False, simulate=None):
    """Run TLC on spec/<module>.tla with spec/<cfg>. Returns dict(rc, out, generated, distinct)."""
    meta = tempfile.mkdtemp(prefix="tlc-", dir=work)
    env = dict(os.environ)
    if env_extra:
        env.update({k: str(v) for k, v in env_extra.items()})
    jopts = ["-Xmx" + heap, "-XX:+UseParallelGC", "-Djava.io.tmpdir=" + meta]
    if deque:
        jopts.append("-Dtlc2.tool.queue.IStateQueue=StateDeque")
    # -noGenerateSpecTE: instances that are expected to violate (adversarial models, switches set the old way) must not litter
    # /verif/spec with trace-explorer modules
    cmd = ["java"] + jopts + ["-cp", TLA_CP, "tlc2.TLC", "-noGenerateSpecTE", "-metadir", meta, "-config", cfg,
                              "-workers", str(workers or "auto")]
    if simulate:
        cmd += ["-simulate", simulate]
    if extra:
        cmd += extra
    cmd += [module]
    t0 = time.time()
    try:
        p = subprocess.run(cmd, cwd=SPEC, env=env, stdout=subprocess.PIPE, stderr=subprocess.STDOUT, text=True,
                           timeout=timeout)
        out, rc = p.stdout, p.returncode
    except subprocess.TimeoutExpired as e:
        out = (e.stdout.decode() if isinstance(e.stdout, bytes) else (e.stdout or "")) + "\nTIMEOUT"
        rc = -9
    finally:
        shutil.rmtree(meta, ignore_errors=True)
    gen = dist = 0
    for m in TLC_RE_STATES.finditer(out):
        gen, dist = int(m.group(1)), int(m.group(2))
    return {"rc": rc, "out": out, "generated": gen, "distinct": dist, "wall": time.time() - t0}


def tlc_ok(res):
    return res["rc"] == 0 and "Model checking completed. No error has been found." in res["out"]


# ------------------------------------------------------------------ findings / verdicts

def load_findings():
    path = os.path.join(VERIF, "known_findings.json")
    if not os.path.exists(path):
        return []
    with open(path) as f:
        return json.load(f).get("findings", [])


def match_finding(findings, prop, sig):
    """sig: dict of strings describing a deviation. A finding matches when every key of its
    'match' dict equals the deviation's value (and it is open and for this property)."""
    for fd in findings:
        if fd.get("status") != "open":
            continue
        if prop not in fd.get("properties", [fd.get("property")]):
            continue
        m = fd.get("match", {})
        if all(str(sig.get(k)) == str(v) for k, v in m.items()):
            return fd
    return None


def write_evidence(prop, tier, level, coverage, wall, violations=0, assumptions=None):
    if os.environ.get("VERIF_REPLAY"):
        return      # a replay re-runs one recorded case: it must not replace the evidence of the last full run
    os.makedirs(EVIDENCE, exist_ok=True)
    doc = {
        "property_id": prop,
        "tier": tier,
        "seed": seed(),
        "level": level,
        "coverage": coverage,
        "assumptions": assumptions or [],
        "wall_s": round(wall, 2),
        "violations": violations,
    }
    with open(os.path.join(EVIDENCE, prop + ".json"), "w") as f:
        json.dump(doc, f, indent=1)


def save_replay(prop, name, payload):
    os.makedirs(REPLAYS, exist_ok=True)
    path = os.path.join(REPLAYS, "%s-%s.json" % (prop, name))
    with open(path, "w") as f:
        json.dump(payload, f)
    return path


def log(*a):
    print(*a, file=sys.stderr, flush=True)
