import os, sys
sys.path.insert(0, os.path.dirname(os.path.abspath(__file__)))
import vlib
with vlib.scratch("verif-setup-") as w:
    for pkg in vlib.PKG_DIRS:
        if pkg == 'kit':
            continue  # helper package, no tests of its own
        if os.path.isdir(os.path.join(vlib.HARNESS, pkg)) and any(f.endswith(".go") for f in os.listdir(os.path.join(vlib.HARNESS, pkg))):
            vlib.build_test_binary(w, pkg)
            print("built", pkg)
