"""Large-table scenarios (C15 at the level of the table, C02 / C15 at the level of the cache): fill, empty, writers parked inside
their update function while the table shrinks, under several GOMAXPROCS values (the parallel copy of tables with >= 128
buckets is chunked by it).  Judged by BulkHist.tla."""
import json
import os

import vlib


def scenarios(seed, quick):
    procs = [3, 6, 16, 2, 12, 5, 7, 16]
    ns = [3000, 6000, 600, 1500, 9000, 2500, 4000, 700]
    n = 6 if quick else 24
    return [{"procs": procs[(j + seed) % len(procs)], "n": ns[(j + seed) % len(ns)] + 13 * (j // len(ns)), "keep": 16 + j % 5, "parked": 6 + j % 3,
             "seed": seed * 1000 + j} for j in range(n)]


def run(prop, tier, work, level, binary=None, replay_scen=None):
    """level: 'table' (internal/hashmap) or 'cache'.  -> (scenarios judged, [(pred, detail, replay path)], [broken])"""
    scen = replay_scen or scenarios(vlib.seed(), tier == "quick")
    pkg, test = ("hashmap", "TestVerifCLHTBulk") if level == "table" else ("otter", "TestVerifCacheBulk")
    binary = binary or vlib.build_test_binary(work, pkg)
    inp = os.path.join(work, "bulk_%s_in.json" % level)
    outp = os.path.join(work, "bulk_%s_out.ndjson" % level)
    devp = os.path.join(work, "bulk_%s_dev.json" % level)
    with open(inp, "w") as f:
        json.dump(scen, f)
    rc, out = vlib.run_test_binary(binary, test, {"VERIF_IN": inp, "VERIF_OUT": outp}, timeout=900)
    if rc != 0:
        return 0, [], ["bulk driver (%s) failed:\n%s" % (level, out[-2000:])]
    r = vlib.run_tlc(work, "BulkHist", os.path.join(vlib.SPEC, "BulkHist.cfg"), workers=1, timeout=600, heap="2g",
                     env_extra={"VERIF_TRACE": outp, "VERIF_DEVOUT": devp})
    if not vlib.tlc_ok(r) or not os.path.exists(devp):
        return 0, [], ["BulkHist did not complete:\n" + r["out"][-2500:]]
    with open(devp) as f:
        d = json.load(f)
    viol = []
    for x in d["devs"]:
        if not x["pred"].startswith(prop + ".") and not (prop == "C02" and x["pred"].startswith("C15.key_lost")):
            continue
        sc = scen[x["rec"] - 1]
        path = vlib.save_replay(prop, "bulk%s-%d" % (level, sc["seed"]), [sc])
        viol.append((x["pred"], x["detail"], path))
    return d["n"], viol, []


def replay(prop, tier, path):
    level = "cache" if "-bulkcache-" in os.path.basename(path) else "table"
    with open(path) as f:
        scen = json.load(f)
    with vlib.scratch("verif-bulk-") as work:
        n, viol, broken = run(prop, tier, work, level, replay_scen=scen)
    for b in broken:
        vlib.log("BROKEN:", b)
    if broken:
        return 2
    for pred, detail, p in viol[:10]:
        print("VIOLATION property=%s replay=%s" % (prop, p))
        vlib.log("  %s: %s" % (pred, str(detail)[:300]))
    return 1 if viol else 0


if __name__ == "__main__":
    import sys
    with vlib.scratch("verif-bulk-") as w:
        print(run(sys.argv[1], "quick", w, sys.argv[2]))
