"""C13: TimerWheel.tla model-checked (SweptWithinTick, NoEarlyExpiry) on a small geometry; exact trace validation of the
real wheel with the real geometry (TimerWheelTrace.tla); cache-level sequential traces with TTLs over all wheel levels
(CacheTrace.tla: sweep.late at every CleanUp); racing-write scenarios through a stalling clock (SweepHist.tla)."""
import concurrent.futures as cf
import json
import re
import os
import time

import seqcheck
import vlib

TICK = 1 << 30


def tw_cfg(timers, maxtime, geom="small", due=True):
    return ("SPECIFICATION Spec\nCONSTANTS\n Timers = {%s}\n MaxTime = %d\n Buckets <- B_%s\n Shift <- S_%s\n Clamp = TRUE\n Due = %s\n"
            "INVARIANTS NoEarlyExpiry TypeOK\nPROPERTIES SweptWithinTick\nCHECK_DEADLOCK FALSE\n" %
            (", ".join(map(str, range(1, timers + 1))), maxtime, geom, geom, "TRUE" if due else "FALSE"))


def sweep_scenarios(quick, seed):
    out = []
    ttls = [1, 1000, TICK // 2, TICK, 3 * TICK, 70 * TICK, 5000 * TICK]
    n = 0
    for ttl in ttls:
        for jump in (ttl + TICK + 5, ttl + 3 * TICK, ttl + 100 * TICK, ttl + 70000 * TICK):
            for later in (2 * TICK + 1, 5 * TICK, 100 * TICK):
                for op in ("set", "compute", "setifabsent"):
                    n += 1
                    if quick and n % 4 != seed % 4:
                        continue
                    out.append({"ttl": ttl, "jump": jump, "later": later, "op": op, "sized": n % 2, "syncexec": (n // 2) % 2, "warm": n % 3, "max": 0})
    # a READ racing the sweep: it samples the clock before the deadline, is parked before storing the extended deadline, the
    # deadline passes and maintenance runs ("provided reads only ever extend deadlines")
    k = 0
    for ttl in (3 * TICK, 10 * TICK, 70 * TICK):
        for op in ("read.setifabsent", "read.get", "read.getentry"):
            for jump in (TICK + 7, 2 * TICK):
                k += 1
                if quick and k % 2 != seed % 2:
                    continue
                out.append({"ttl": ttl, "jump": jump, "later": 3 * ttl + 5 * TICK, "op": op, "sized": k % 2, "syncexec": (k // 2) % 2, "warm": 0,
                            "max": 4 + k % 5})
    # the other order of the read race (ExpireRace.tla): the sweeper is parked at ev.beforeDelete - after the wheel tested the
    # deadline, before the removal in the table - while the read stores the extended deadline
    k = 0
    for ttl in (3 * TICK, 10 * TICK, 70 * TICK):
        for op in ("gate.get", "gate.getentry"):
            for jump in (TICK + 7, 2 * TICK):
                k += 1
                if quick and k % 2 != seed % 2:
                    continue
                out.append({"ttl": ttl, "jump": jump, "later": 3 * ttl + 5 * TICK, "op": op, "sized": k % 2, "syncexec": (k // 2) % 2, "warm": 0,
                            "max": 4 + k % 5})
    # the write's event is replayed in the same tick as a sweep that ran (at a later clock value) without knowing the entry
    k = 0
    for ttl in (1000, TICK // 2, TICK, 3 * TICK):
        for jump in (ttl + 2 * TICK, ttl + 10 * TICK, ttl + 70 * TICK):
            k += 1
            if quick and k % 2 != seed % 2:
                continue
            # (the sweep runs at 5 ticks + jump; 1000 ns later the quiescent run is still inside that tick, and more than a tick after both the
            # deadline and the return of the write)
            out.append({"ttl": ttl, "jump": jump, "later": 1000, "op": "late.set", "sized": k % 2, "syncexec": (k // 2) % 2, "warm": 0, "max": 0})
    # save / load of entries that never expire / are never due, into a cache whose clock moves between any two readings (C19)
    for k, jump in enumerate((0, 1000, 3 * TICK)):
        out.append({"ttl": 0, "jump": jump, "later": 0, "op": "persist.step", "sized": k % 2, "syncexec": 1, "warm": 0, "max": 0})
    # readers parked between reserving and publishing their slot of the read buffer, across InvalidateAll and a maintenance run (C17)
    for k in range(4):
        out.append({"ttl": 0, "jump": 0, "later": 0, "op": "rb.clear", "sized": k % 2, "syncexec": 0, "warm": k // 2, "max": 0})
    # an eviction run parked in a deletion handler while every other key is rewritten (C04)
    for k, mx in enumerate((5, 0, 1, 12)):
        out.append({"ttl": 0, "jump": 0, "later": 0, "op": "ev.rewrite", "sized": k % 2, "syncexec": 1, "warm": 0, "max": mx})
    # a key's delete event applied before its add event (the inserting writer parked between its table computation and the publication of the
    # event): the policy's running totals must not turn a cache that is far below its maximum into one that evicts (C06: Overflow without overflow)
    k = 0
    for op in ("ord.set", "ord.compute", "ord.setifabsent"):
        for sized in (0, 1):
            k += 1
            out.append({"ttl": 0, "jump": 0, "later": 0, "op": op, "sized": sized, "syncexec": k % 2, "warm": 3 + k, "max": 100})
    # the timer of an expired entry fires after a parked writer has replaced it and before the writer's event is replayed (C13 / C06)
    k = 0
    for op in ("swp.set", "swp.compute"):
        for ttl in (3 * TICK, 70 * TICK):
            k += 1
            out.append({"ttl": ttl, "jump": 2 * TICK + 7, "later": 0, "op": op, "sized": k % 2, "syncexec": (k // 2) % 2, "warm": 0, "max": 0})
    # stale-node eviction while a load of the key is in flight (C08)
    for op in ("ld.staleevict.inv", "ld.staleevict.set"):
        out.append({"ttl": 0, "jump": 0, "later": 0, "op": op, "sized": 1, "syncexec": 0, "warm": 0, "max": 0})
    # many entries due in the same sweep (more than the 2049 events one pass drains from the write buffer)
    k = 0
    for n in (2100, 3000, 5000):
        for op in ("mass.set", "mass.nohandler"):
            for sized in (0, 1):
                k += 1
                if quick and k % 3 != seed % 3:
                    continue
                out.append({"ttl": TICK, "jump": 10 * TICK, "later": 0, "op": op, "sized": sized, "syncexec": (k // 2) % 2, "warm": n, "max": 0})
    # the size policy's victim, at exactly its deadline, revived by a reader between the eviction callback and the removal in the table
    for ttl in (3 * TICK, 10 * TICK):
        out.append({"ttl": ttl, "jump": 0, "later": 0, "op": "gate.size", "sized": 1, "syncexec": 1, "warm": 0, "max": 0})
    # ... and with an executor that does not get round to anything while the writes arrive (the write buffer overflows: the writers run the
    # maintenance themselves and hand it their own event)
    for k in range(2):
        out.append({"ttl": TICK, "jump": 10 * TICK, "later": 0, "op": "mass.stall", "sized": k, "syncexec": 0, "warm": 1, "max": 0})
    # a write that finds the entry expired, while a reader stores an extended deadline into the node being replaced
    k = 0
    for ttl in (3 * TICK, 10 * TICK):
        for op in ("sia.setifabsent", "sia.set", "sia.setgate", "sia.invgate", "sia.cmpgate"):
            for jump in (TICK + 7, 2 * TICK):
                k += 1
                if quick and k % 2 != seed % 2:
                    continue
                out.append({"ttl": ttl, "jump": jump, "later": 3 * ttl + 5 * TICK, "op": op, "sized": 1, "syncexec": (k // 2) % 2, "warm": 0, "max": 4 + k % 5})
    return out


def sc_is_foreign(sc):
    return sc["op"].startswith(("ld.", "persist.", "rb.", "ev.", "ord."))


def expire_race_cfg(readers, nreads, ttl, maxclock, nsweeps, sized, resurrect, writer="", reread=False):
    return ("SPECIFICATION Spec\nCONSTANTS\n Readers = {%s}\n NReads = %d\n TTL = %d\n MaxClock = %d\n NSweeps = %d\n Sized = %s\n Resurrect = %s\n"
            " Writers = {%s}\n WKind = \"%s\"\n ReRead = %s\n"
            "INVARIANTS Truthful Once Tracked Swept SameCause\nPROPERTIES Terminates\n" %
            (", ".join(map(str, range(1, readers + 1))), nreads, ttl, maxclock, nsweeps, "TRUE" if sized else "FALSE", "TRUE" if resurrect else "FALSE",
             "101" if writer else "", writer or "set", "TRUE" if reread else "FALSE"))


def expire_race_models(work, tier):
    """ExpireRace.tla: the repaired protocol (Resurrect = TRUE, ReRead = FALSE) must satisfy Truthful / Once / Tracked / Swept / SameCause /
    Terminates; the protocol as found must violate: Resurrect = FALSE -> Truthful (F19); ReRead = TRUE with a Set -> SameCause (F22), with a
    SetIfAbsent -> Tracked (F20).  If TLC stops finding one of these counterexamples the model no longer explains the finding and the check
    reports itself broken.  Returns (mc records, broken)."""
    inst = [("r1n2", (1, 2, 3, 5, 2)), ("r2n1", (2, 1, 3, 5, 2))]
    if tier != "quick":
        inst += [("r1n3", (1, 3, 3, 6, 3)), ("r2n1c6", (2, 1, 4, 6, 2))]
    jobs = []
    for tag, (rd, nr, ttl, mx, ns) in inst:
        for sized in (False, True):
            jobs.append(("ExpireRace %s sized=%d" % (tag, sized), expire_race_cfg(rd, nr, ttl, mx, ns, sized, True), None))
            if tag == "r1n2":
                jobs.append(("ExpireRace %s sized=%d resurrect=0" % (tag, sized), expire_race_cfg(rd, nr, ttl, mx, ns, sized, False), "Truthful"))
    for wk in ("set", "setifabsent"):
        jobs.append(("ExpireRace writer=%s" % wk, expire_race_cfg(1, 1, 3, 5, 1, False, True, writer=wk), None))
        jobs.append(("ExpireRace writer=%s reread=1" % wk, expire_race_cfg(1, 1, 3, 5, 1, False, True, writer=wk, reread=True),
                     "SameCause" if wk == "set" else "Tracked"))
    if tier != "quick":
        for wk in ("set", "setifabsent"):
            jobs.append(("ExpireRace writer=%s r2 sized" % wk, expire_race_cfg(2, 1, 3, 5, 2, True, True, writer=wk), None))
    mc, broken = [], []

    def one(i, txt):
        cfg = os.path.join(work, "er_%d.cfg" % i)
        with open(cfg, "w") as f:
            f.write(txt)
        return vlib.run_tlc(work, "ExpireRace", cfg, workers=4, timeout=900, heap="4g")
    with cf.ThreadPoolExecutor(max_workers=4) as ex:
        futs = [ex.submit(one, i, txt) for i, (_, txt, _) in enumerate(jobs)]
    for (name, txt, must_violate), fu in zip(jobs, futs):
        r = fu.result()
        mc.append({"instance": name, "distinct": r["distinct"], "generated": r["generated"], "wall_s": round(r["wall"], 1),
                   "expected": "holds" if not must_violate else "violates " + must_violate})
        if not must_violate and not vlib.tlc_ok(r):
            broken.append(name + ": " + r["out"][-1500:])
        if must_violate and ("Invariant %s is violated" % must_violate) not in r["out"]:
            broken.append(name + " (must violate %s): " % must_violate + r["out"][-800:])
    return mc, broken


def read_race_half(prop, tier, mc_out=None):
    """The read-race scenarios only (a read that extends the deadline is parked while the deadline passes and maintenance
    runs), judged by SweepHist.tla; returns (scenarios, [(pred, detail, path)] owned by `prop`, broken)."""
    seed = vlib.seed()
    if prop == "C06":
        scs = [sc for sc in sweep_scenarios(False, seed) if sc["op"].startswith(("gate.", "sia.", "ord.", "swp.")) and sc["op"] != "gate.size"]
    elif prop == "C05":
        scs = [sc for sc in sweep_scenarios(False, seed) if sc["op"].startswith("sia.") or sc["op"] == "gate.size"]
    elif prop == "C08":
        scs = [sc for sc in sweep_scenarios(False, seed) if sc["op"].startswith("ld.")]
    elif prop == "C17":
        scs = [sc for sc in sweep_scenarios(False, seed) if sc["op"].startswith("rb.")]
    elif prop == "C19":
        scs = [sc for sc in sweep_scenarios(False, seed) if sc["op"].startswith("persist.")]
    elif prop == "C20":
        scs = [sc for sc in sweep_scenarios(False, seed) if sc["op"] == "sia.cmpgate"]
    else:
        scs = [sc for sc in sweep_scenarios(False, seed) if sc["op"].startswith("read.")]
        if tier == "quick":
            scs = [sc for sc in scs if sc["sized"] == 1]
        scs += [sc for sc in sweep_scenarios(False, seed) if sc["op"] == "ev.rewrite"]
    with vlib.scratch("verif-rr-") as work:
        if prop == "C06":
            mc, mbroken = expire_race_models(work, tier)
            if mc_out is not None:
                mc_out.extend(mc)
            if mbroken:
                return 0, [], mbroken
            # B2: simulated behaviours of the model replayed as schedules on the real cache
            rn, conf, rviol, rbroken = expire_race_replays(work, tier, seed)
            if rbroken:
                return 0, [], rbroken
            vlib.log("ExpireRace.tla behaviours replayed on the real cache: %s" % {k: v for k, v in conf.items() if k != "samples"})
            if mc_out is not None:
                mc_out.append(dict({"instance": "ExpireRace.tla behaviours replayed on the real cache (B2)", "distinct": 0, "generated": 0}, **conf))
            replay_viol = []
            for pred, detail, rsc in rviol:
                if pred.startswith("C06."):
                    replay_viol.append((pred, detail, vlib.save_replay(prop, "readrace-%d-replay" % seed, {"seed": seed, "scenario": rsc})))
        obin = vlib.build_test_binary(work, "otter")
        inp, outp, dv, jp = (os.path.join(work, x) for x in ("rr.in.json", "rr.out.ndjson", "rr.dev.json", "rr.judge.ndjson"))
        with open(inp, "w") as f:
            json.dump(scs, f)
        rc, out = vlib.run_test_binary(obin, "TestVerifSweep", {"VERIF_IN": inp, "VERIF_OUT": outp}, timeout=900)
        if rc != 0:
            return 0, [], ["read-race driver failed:\n" + out[-2000:]]
        gated = revived = 0
        with open(outp) as f, open(jp, "w") as g:
            for line in f:
                r = json.loads(line)
                sc = r["sc"]
                gated += r.get("gated", 0)
                revived += 1 if (r.get("gated") and r.get("midalive")) else 0
                r["mustsweep"], r["deadlinepassed"], r["tickns"] = 1, 1, 0
                r["sc"] = {"ttl": str(sc["ttl"]), "jump": str(sc["jump"]), "later": str(sc["later"]), "op": sc["op"], "sized": sc["sized"],
                           "syncexec": sc["syncexec"], "warm": sc["warm"], "warmlive": 0, "max": sc.get("max", 0)}
                g.write(json.dumps(r) + "\n")
        t = vlib.run_tlc(work, "SweepHist", os.path.join(vlib.SPEC, "SweepHist.cfg"), workers=1, timeout=600, heap="2g",
                         env_extra={"VERIF_TRACE": jp, "VERIF_DEVOUT": dv})
        if not vlib.tlc_ok(t) or not os.path.exists(dv):
            return 0, [], ["SweepHist did not complete:\n" + t["out"][-2500:]]
        with open(dv) as f:
            d = json.load(f)
    if prop == "C06":
        vlib.log("gated read races: %d scenarios, sweeper parked at the gate in %d, entry kept alive (revived) in %d" % (d["n"], gated, revived))
        if mc_out is not None:
            mc_out.append({"instance": "gated read races on the real cache", "scenarios": d["n"], "sweeper_parked_at_gate": gated, "entry_revived": revived,
                           "distinct": 0, "generated": 0})
        if gated == 0:
            return d["n"], [], ["gated read race: the sweeper never reached the gate ev.beforeDelete (hook missing or the wheel no longer hands the node over): scenario vacuous"]
    viol = []
    for x in d["devs"]:
        if not x["pred"].startswith(prop + "."):
            continue
        path = vlib.save_replay(prop, "readrace-%d" % seed, {"seed": seed, "scenario": scs[x["rec"] - 1]})
        viol.append((x["pred"], x["detail"], path))
    if prop == "C06":
        viol += replay_viol
        return d["n"] + rn, viol, []
    return d["n"], viol, []


def wheel_fired_early(prop, tier):
    """The exact fold of the real timer wheel (TimerWheelTrace.tla), reporting only timers fired although their deadline
    had not passed - the Expiration half of C07.  Returns (events, traces, [(pred, detail, path)], broken)."""
    seed = vlib.seed()
    quick = tier == "quick"
    events, traces, viol, broken = 0, 0, [], []
    with vlib.scratch("verif-c13w-") as work:
        wbin = vlib.build_test_binary(work, "expiration")

        def wheel(i):
            tr = os.path.join(work, "wheel_%d.ndjson" % i)
            dv = os.path.join(work, "wheel_%d.dev.json" % i)
            rc, out = vlib.run_test_binary(wbin, "TestVerifWheel", {"VERIF_OUT": tr, "VERIF_SEED": seed * 1000 + 500 + i, "VERIF_N": 20 if quick else 60,
                                                                    "VERIF_LEN": 250 if quick else 500}, timeout=900)
            if rc != 0:
                raise vlib.Broken("wheel driver failed:\n" + out[-2000:])
            r = vlib.run_tlc(work, "TimerWheelTrace", os.path.join(vlib.SPEC, "TimerWheelTrace.cfg"), workers=1, timeout=1500, heap="3g",
                             env_extra={"VERIF_TRACE": tr, "VERIF_DEVOUT": dv})
            if not vlib.tlc_ok(r) or not os.path.exists(dv):
                raise vlib.Broken("TimerWheelTrace did not complete:\n" + r["out"][-2500:])
            with open(dv) as f:
                return json.load(f), {"kind": "wheel", "seed": seed * 1000 + 500 + i}
        with cf.ThreadPoolExecutor(max_workers=vlib.NCPU) as ex:
            for fu in [ex.submit(wheel, i) for i in range(4 if quick else 12)]:
                d, meta = fu.result()
                events += d["n"]
                traces += 1
                early = [x for x in d["devs"] if x["pred"] == "C13.expired_early"]
                if early:
                    path = vlib.save_replay(prop, "wheel-%d" % meta["seed"], meta)
                    viol.append(("C07.expired_before_deadline", early[0]["detail"], path))
    return events, traces, viol, broken


def run(prop, tier, replay=None):
    t0 = time.time()
    seed = vlib.seed()
    quick = tier == "quick"
    findings = vlib.load_findings()
    cov = {"states": 0, "transitions": 0, "traces_validated_against_impl": 0, "mc": [], "samples": [], "predicates_failed": {},
           "wheel_events": 0, "cache_level_events": 0, "race_scenarios": 0}
    violations, broken = [], []
    with vlib.scratch("verif-c13-") as work:
        ex = cf.ThreadPoolExecutor(max_workers=vlib.NCPU)

        def mc(tag, text):
            path = os.path.join(work, "tw_%s.cfg" % tag)
            with open(path, "w") as f:
                f.write(text)
            r = vlib.run_tlc(work, "TimerWheelMC", path, workers=6 if quick else 12, timeout=3000, heap="8g")
            r["tag"] = tag
            return r
        inst = [("t1x40", tw_cfg(1, 40)), ("t2x12", tw_cfg(2, 12))] if quick else [("t1x64", tw_cfg(1, 64)), ("t2x20", tw_cfg(2, 20)), ("t3x6tiny", tw_cfg(3, 8, "tiny"))]
        mc_futs = [ex.submit(mc, t, c) for t, c in inst] if not replay else []
        # the first repair of F8 (deadline clamped into the slot of the current tick) must violate SweptWithinTick (F23)
        neg_fut = ex.submit(mc, "t1x24_nodue", tw_cfg(1, 24, due=False)) if not replay else None
        wbin = vlib.build_test_binary(work, "expiration")
        obin = vlib.build_test_binary(work, "otter")

        def wheel(i):
            tr = os.path.join(work, "wheel_%d.ndjson" % i)
            dv = os.path.join(work, "wheel_%d.dev.json" % i)
            rc, out = vlib.run_test_binary(wbin, "TestVerifWheel", {"VERIF_OUT": tr, "VERIF_SEED": seed * 1000 + i, "VERIF_N": 20 if quick else 60,
                                                                    "VERIF_LEN": 250 if quick else 500}, timeout=900)
            if rc != 0:
                raise vlib.Broken("wheel driver failed:\n" + out[-2000:])
            r = vlib.run_tlc(work, "TimerWheelTrace", os.path.join(vlib.SPEC, "TimerWheelTrace.cfg"), workers=1, timeout=1500, heap="3g",
                             env_extra={"VERIF_TRACE": tr, "VERIF_DEVOUT": dv})
            if not vlib.tlc_ok(r) or not os.path.exists(dv):
                raise vlib.Broken("TimerWheelTrace did not complete:\n" + r["out"][-2500:])
            with open(dv) as f:
                d = json.load(f)
            with open(tr) as f:
                sample = [json.loads(x) for x in f.readlines()[1:4]]
            return d, sample, {"kind": "wheel", "seed": seed * 1000 + i}

        def cache_level(i):
            tr = os.path.join(work, "seq_%d.ndjson" % i)
            sp = os.path.join(work, "seq_%d.scripts.json" % i)
            rc, out = vlib.run_test_binary(obin, "TestVerifSeq", {"VERIF_OUT": tr, "VERIF_SCRIPTS_OUT": sp, "VERIF_SEED": seed * 100003 + i,
                                                                  "VERIF_N": 12 if quick else 60, "VERIF_LEN": 150 if quick else 300,
                                                                  "VERIF_PROFILE": "sweep"}, timeout=900)
            if rc != 0:
                raise vlib.Broken("sequential driver failed:\n" + out[-2000:])
            n, devs, _ = seqcheck.validate_trace(work, tr, 1000 + i)
            with open(tr) as f:
                lines = f.readlines()
            with open(sp) as f:
                scripts = json.load(f)
            return n, devs, lines, scripts, i

        def races():
            scs = sweep_scenarios(quick, seed)
            inp = os.path.join(work, "sweep.in.json")
            outp = os.path.join(work, "sweep.out.ndjson")
            dv = os.path.join(work, "sweep.dev.json")
            with open(inp, "w") as f:
                json.dump(scs, f)
            rc, out = vlib.run_test_binary(obin, "TestVerifSweep", {"VERIF_IN": inp, "VERIF_OUT": outp}, timeout=1500)
            if rc != 0:
                raise vlib.Broken("sweep-race driver failed:\n" + out[-2000:])
            recs = []
            with open(outp) as f:
                for line in f:
                    r = json.loads(line)
                    sc = r["sc"]
                    total = sc["jump"] + sc["later"]
                    r["mustsweep"] = 1 if (total - sc["ttl"] > TICK and sc["later"] > TICK) else 0
                    r["deadlinepassed"] = 1 if sc["ttl"] <= total else 0
                    if sc["op"].startswith(("mass.", "ld.", "persist.", "rb.", "ev.")):
                        r["mustsweep"], r["deadlinepassed"] = 0, 1
                    if sc["op"].startswith(("swp.", "ord.")):
                        r["mustsweep"], r["deadlinepassed"] = 0, 0
                    if sc["op"].startswith("late."):
                        r["mustsweep"], r["deadlinepassed"] = 1, 1
                    if sc["op"] == "gate.size":
                        r["mustsweep"], r["deadlinepassed"] = 0, 0
                    if sc["op"].startswith(("read.", "gate.", "sia.")):
                        # the extended deadline is at most (ttl - 1000) + ttl after the write; later = 3 ttl + 5 ticks lies beyond it
                        r["mustsweep"], r["deadlinepassed"] = 1, 1
                    r["sc"] = {"ttl": str(sc["ttl"]), "jump": str(sc["jump"]), "later": str(sc["later"]), "op": sc["op"], "sized": sc["sized"],
                               "syncexec": sc["syncexec"], "warm": sc["warm"], "warmlive": 0 if r["mustsweep"] else sc["warm"] + 1, "max": sc.get("max", 0)}
                    r["tickns"] = 0
                    recs.append((r, sc))
            jp = os.path.join(work, "sweep.judge.ndjson")
            with open(jp, "w") as f:
                for r, _ in recs:
                    f.write(json.dumps(r) + "\n")
            t = vlib.run_tlc(work, "SweepHist", os.path.join(vlib.SPEC, "SweepHist.cfg"), workers=1, timeout=600, heap="2g",
                             env_extra={"VERIF_TRACE": jp, "VERIF_DEVOUT": dv})
            if not vlib.tlc_ok(t) or not os.path.exists(dv):
                raise vlib.Broken("SweepHist did not complete:\n" + t["out"][-2500:])
            with open(dv) as f:
                return json.load(f), recs

        if replay:
            with open(replay) as f:
                rp = json.load(f)
            vlib.log("replay of C13 cases re-runs the whole quick tier with the recorded seed:", rp)
        wf = [ex.submit(wheel, i) for i in range(4 if quick else 12)]
        cfs = [ex.submit(cache_level, i) for i in range(4 if quick else 12)]
        rf = ex.submit(races)
        for fu in wf:
            d, sample, meta = fu.result()
            cov["wheel_events"] += d["n"]
            cov["traces_validated_against_impl"] += 1
            if len(cov["samples"]) < 1:
                cov["samples"].append({"wheel_trace": sample})
            for x in d["devs"]:
                cov["predicates_failed"][x["pred"]] = cov["predicates_failed"].get(x["pred"], 0) + 1
            if d["devs"]:
                path = vlib.save_replay(prop, "wheel-%d" % meta["seed"], meta)
                violations.append((d["devs"][0]["pred"], d["devs"][0]["detail"], path))
        for fu in cfs:
            n, devs, lines, scripts, i = fu.result()
            cov["cache_level_events"] += n
            cov["traces_validated_against_impl"] += sum(1 for ln in lines if ln.startswith('{"t":"hdr"'))
            seen = set()
            for d in devs:
                if "C13" not in seqcheck.props_of(d) and not d["field"].startswith("ev.unjustified.Expiration"):
                    continue
                if vlib.match_finding(findings, prop, {k: d.get(k) for k in ("op", "pre", "field", "shape", "ld")}):
                    continue
                si = seqcheck.script_of_line(lines, d["line"])
                if si in seen:
                    continue
                seen.add(si)
                path = vlib.save_replay(prop, "seq-sweep-%d-%d" % (i, si), [scripts[si]] if 0 <= si < len(scripts) else scripts)
                violations.append((d["field"], d["got"], path))
        d, recs = rf.result()
        cov["race_scenarios"] = d["n"]
        cov["traces_validated_against_impl"] += d["n"]
        if recs:
            cov["samples"].append({"race": recs[0][0]})
        for x in d["devs"]:
            if sc_is_foreign(recs[x["rec"] - 1][1]) or not x["pred"].startswith(("C13.", "C04.")):
                continue     # C06.* of the gated read races, C05.* of the write races: reported by those checks
            cov["predicates_failed"][x["pred"]] = cov["predicates_failed"].get(x["pred"], 0) + 1
            sc = recs[x["rec"] - 1][1]
            path = vlib.save_replay(prop, "race-%s-%d" % (sc["op"], x["rec"]), sc)
            violations.append((x["pred"], x["detail"], path))
        if neg_fut is not None:
            r = neg_fut.result()
            hit = "SweptWithinTick is violated" in r["out"]
            cov["mc"].append({"instance": r["tag"], "distinct": r["distinct"], "generated": r["generated"], "wall_s": round(r["wall"], 1),
                              "expected": "violates SweptWithinTick (F23)", "violated": hit})
            if not hit:
                broken.append("TimerWheel model with Due = FALSE must violate SweptWithinTick (F23): " + r["out"][-800:])
        for fu in mc_futs:
            r = fu.result()
            cov["mc"].append({"instance": r["tag"], "distinct": r["distinct"], "generated": r["generated"], "wall_s": round(r["wall"], 1)})
            cov["states"] += r["distinct"]
            cov["transitions"] += r["generated"]
            if not vlib.tlc_ok(r):
                broken.append("TimerWheel model check %s: %s" % (r["tag"], r["out"][-1500:]))
        ex.shutdown()
    cov["explanation"] = ("states/transitions: TLC totals for TimerWheel.tla (small geometry 4,4,2,1); wheel_events: calls on the real wheel whose "
                          "bucket positions and expired sets were recomputed by TimerWheelTrace.tla with the real geometry; cache_level_events: "
                          "sequential cache operations folded by CacheTrace.tla (sweep.late at CleanUp); race_scenarios: stalled-clock writes judged by SweepHist.tla")
    vlib.write_evidence(prop, tier, "model_checking", cov, time.time() - t0, violations=len(violations),
                        assumptions=["time in units of 2^20 ns for the wheel traces (deadlines up to 13 days)",
                                     "reads only extend deadlines (as the property requires)",
                                     "the racing write is forced with a clock that stalls the writer after it sampled the time"])
    if broken:
        for b in broken:
            vlib.log("BROKEN:", b)
        if not violations:       # (what the working parts observed on the real code stands: a violation is reported even if another part broke)
            return 2
    if violations:
        for pred, detail, path in violations[:10]:
            print("VIOLATION property=%s replay=%s" % (prop, path))
            vlib.log("  %s: %s" % (pred, str(detail)[:300]))
        return 1
    return 0


# ------------------------------------------------------------------ B2 for ExpireRace.tla: simulated behaviours replayed on the real cache

_ER_STEP = re.compile(r"^\\\* <(\w+)(?:\((-?\d+)\))? line")
_ER_VAR = re.compile(r"^/\\ (\w+) = (.*)$")


def _er_parse(path):
    """one TLC -simulate behaviour -> (labels in order, variables of the last state as text)"""
    labels, last = [], {}
    with open(path) as f:
        for line in f:
            m = _ER_STEP.match(line)
            if m:
                labels.append(m.group(1))
                last = {}
                continue
            m = _ER_VAR.match(line.rstrip("\n"))
            if m:
                last[m.group(1)] = m.group(2)
    return [x for x in labels if x != "Init"], last


def expire_race_replays(work, tier, seed):
    """Behaviours of ExpireRace.tla (the repaired protocol) from TLC's simulation mode, replayed as schedules on the real cache
    (harness/otter/verif_erreplay_test.go).  Returns (records judged, conformance dict, [(pred, detail, scenario)], broken)."""
    quick = tier == "quick"
    num = 30 if quick else 600
    scen, expect = [], []
    broken = []
    for ci, (wk, sized) in enumerate([("", 0), ("set", 0), ("setifabsent", 1), ("set", 1), ("setifabsent", 0)]):
        cfg = os.path.join(work, "ersim_%d.cfg" % ci)
        with open(cfg, "w") as f:
            # (the model without size pressure: the real cache, bounded or not, is never above its maximum in these replays)
            f.write(expire_race_cfg(1, 1, 3, 5, 1, False, True, writer=wk).split("INVARIANTS")[0])
        simdir = os.path.join(work, "ersim_%d" % ci)
        os.makedirs(simdir, exist_ok=True)
        r = vlib.run_tlc(work, "ExpireRace", cfg, workers=1, timeout=600, heap="2g",
                         simulate="file=%s/t,num=%d" % (simdir, num), extra=["-depth", "90", "-seed", str(seed * 31 + ci)])
        if r["rc"] != 0 and "Finished in" not in r["out"]:
            broken.append("TLC simulation of ExpireRace failed: " + r["out"][-800:])
            continue
        seen = set()
        for fn in sorted(os.listdir(simdir)):
            labels, last = _er_parse(os.path.join(simdir, fn))
            key = tuple(labels)
            if key in seen or "f_sweep" not in labels:
                continue        # (only complete behaviours: the last maintenance run has happened)
            seen.add(key)
            # (the ticker's last step leaves its loop without moving the clock: only the first MaxClock steps T0 are ticks)
            ticks, steps = 0, []
            for lab in labels:
                if lab == "T0":
                    ticks += 1
                    if ticks > 5:
                        continue
                steps.append(lab)
            labels = steps
            scen.append({"steps": labels, "wkind": wk, "sized": sized, "ttl": 3, "id": len(scen)})
            expect.append(last)
    if not scen:
        return 0, {}, [], broken + ["no complete behaviour of ExpireRace.tla was simulated"]
    obin = vlib.build_test_binary(work, "otter")
    inp, outp, dv, jp = (os.path.join(work, x) for x in ("er.in.json", "er.out.ndjson", "er.dev.json", "er.judge.ndjson"))
    with open(inp, "w") as f:
        json.dump(scen, f)
    rc, out = vlib.run_test_binary(obin, "TestVerifExpireReplay", {"VERIF_IN": inp, "VERIF_OUT": outp}, timeout=1200)
    if rc != 0:
        return 0, {}, [], broken + ["ExpireRace replay driver failed:\n" + out[-2000:]]
    conf = {"behaviours": len(scen), "all_steps_followed": 0, "outcome_as_in_model": 0, "outcome_differs": 0, "steps": 0, "steps_not_followed": 0, "samples": []}
    with open(outp) as f, open(jp, "w") as g:
        for line, exp in zip(f, expect):
            r = json.loads(line)
            sc = r["sc"]
            a = [e for e in r["events"] if e["h"] == "A" and e["v"] == 11]
            d = [e for e in r["events"] if e["h"] == "D" and e["v"] == 11]
            # what the model says about the first value: removed by the sweeper (events), replaced by the writer (atomicCause), or still there
            m_removed = "cause |->" in exp.get("events", "")
            m_cause = ""
            if m_removed:
                m_cause = re.search(r'cause \|-> "(\w+)"', exp["events"]).group(1)
            elif exp.get("atomicCause", '"none"') != '"none"':
                m_cause = exp["atomicCause"].strip('"')
            # compared: does the first value (11) survive, and with which cause did it leave (the node a writer stores is modelled only as far
            # as its event goes - a reader may hit it, the final run may sweep it - so it is left out of the comparison)
            real = (r["mapped"] == 11, a[0]["c"] if a else "")
            model = (exp.get("mapped") == "TRUE", m_cause)
            conf["steps"] += len(sc["steps"])
            conf["steps_not_followed"] += r["drift"]
            if r["drift"] == 0 and r["hang"] == 0:
                conf["all_steps_followed"] += 1
                if real == model:
                    conf["outcome_as_in_model"] += 1
                else:
                    conf["outcome_differs"] += 1
                    if len(conf["samples"]) < 3:
                        conf["samples"].append({"steps": sc["steps"], "wkind": sc["wkind"], "real": real, "model": model})
            j = {"t": "sweep", "hang": r["hang"], "mustsweep": 0, "deadlinepassed": 0, "tickns": 0, "est": r["est"], "estmid": 0, "visible": 0,
                 "expired": 0, "other": 0, "live": r["live"], "cold": r["cold"] if sc["sized"] else r["live"], "overflow": sum(1 for e in r["events"] if e["c"] == "Overflow"),
                 "gated": 0, "nopressure": 1, "midpresent": 0, "midalive": 0, "inserted": 0, "massn": 0, "massexpired": 0, "overlap": 0, "ldruns": 0,
                 "atomiccause": a[0]["c"] if a else "", "asynccause": d[0]["c"] if d else "",
                 "twice": 1 if (len(a) > 1 or len(d) > 1) else 0,
                 "sc": {"ttl": "3", "jump": "0", "later": "0", "op": "replay." + (sc["wkind"] or "none"), "sized": sc["sized"], "syncexec": 0, "warm": 0, "warmlive": 0, "max": 50}}
            g.write(json.dumps(j) + "\n")
    t = vlib.run_tlc(work, "SweepHist", os.path.join(vlib.SPEC, "SweepHist.cfg"), workers=1, timeout=600, heap="2g",
                     env_extra={"VERIF_TRACE": jp, "VERIF_DEVOUT": dv})
    if not vlib.tlc_ok(t) or not os.path.exists(dv):
        return 0, conf, [], broken + ["SweepHist did not complete:\n" + t["out"][-2500:]]
    with open(dv) as f:
        dd = json.load(f)
    viol = [(x["pred"], x["detail"], scen[x["rec"] - 1]) for x in dd["devs"]]
    return dd["n"], conf, viol, broken
